#!/usr/bin/env python3
"""Run every claimed check against each kept seeded change (applied to /repo, undone afterwards)
and record which checks catch which change -> seeded/RESULTS.json"""
import json, os, subprocess, sys, glob
HERE = os.path.dirname(os.path.dirname(os.path.abspath(__file__)))
man = json.load(open(os.path.join(HERE, 'MANIFEST.json')))
props = [c['property_id'] for c in man['checks']]
only = [a for a in sys.argv[1:] if not a.startswith('--')]
TARGET_ONLY = '--target-only' in sys.argv      # fast regression: run only the check of the seed's own property
res_path = os.path.join(HERE, 'seeded', 'RESULTS.json')
try:
    results = json.load(open(res_path))
except Exception:
    results = {}


def one(p):
    r = subprocess.run(['python3', os.path.join(HERE, 'check.py'), p], cwd=HERE, stdout=subprocess.PIPE,
                       stderr=subprocess.STDOUT, universal_newlines=True,
                       env=dict(os.environ, VERIF_EVIDENCE_DIR='/tmp/seed_eval_evidence/' + p))
    viol = [l for l in r.stdout.splitlines() if l.startswith('VIOLATION') or l.startswith('ANALYSIS-BROKEN')]
    detail = [l.strip() for l in r.stdout.splitlines() if l.startswith('  ')]
    return p, {'rc': r.returncode, 'lines': viol, 'detail': detail}


def run_checks():
    from concurrent.futures import ThreadPoolExecutor
    with ThreadPoolExecutor(8) as ex:
        return dict(ex.map(one, props))


assert subprocess.run(['git', '-C', '/repo', 'status', '--porcelain', '--untracked-files=no'], stdout=subprocess.PIPE).stdout.strip() == b'', '/repo dirty'
base = run_checks()
for d in sorted(glob.glob(os.path.join(HERE, 'seeded', '*', 'patch.diff'))):
    sid = os.path.basename(os.path.dirname(d))
    if only and sid not in only:
        continue
    meta = json.load(open(os.path.join(os.path.dirname(d), 'meta.json')))
    a = subprocess.run(['git', '-C', '/repo', 'apply', '--whitespace=nowarn', d])
    if a.returncode != 0:
        results[sid] = {'error': 'patch does not apply to current /repo HEAD'}
        print(sid, 'PATCH DOES NOT APPLY')
        continue
    try:
        if TARGET_ONLY:
            got = dict(base)
            tp = meta.get('property')
            if tp in props:
                got[tp] = one(tp)[1]
        else:
            got = run_checks()
    finally:
        subprocess.run(['git', '-C', '/repo', 'checkout', '--', '.'])
    caught = {}
    for p in props:
        base_ids = set(l.split(' at ')[0] for l in base[p]['detail'])
        new = [l for l in got[p]['detail'] if l.split(' at ')[0] not in base_ids]
        if (got[p]['rc'] != base[p]['rc'] and got[p]['rc'] != 0) or new:
            caught[p] = {'rc': got[p]['rc'], 'new': new[:4]}
    target = meta.get('property')
    # a change that needs a non-default configuration is looked for by the thorough tier of its own property
    if target in props and target not in caught:
        a2 = subprocess.run(['git', '-C', '/repo', 'apply', '--whitespace=nowarn', d])
        try:
            r = subprocess.run(['python3', os.path.join(HERE, 'check.py'), target, '--tier', 'thorough'], cwd=HERE, stdout=subprocess.PIPE,
                               stderr=subprocess.STDOUT, universal_newlines=True,
                               env=dict(os.environ, VERIF_EVIDENCE_DIR='/tmp/seed_eval_evidence/' + target + '_thorough'))
        finally:
            subprocess.run(['git', '-C', '/repo', 'checkout', '--', '.'])
        det = [l.strip() for l in r.stdout.splitlines() if l.startswith('  ')]
        base_ids = set(l.split(' at ')[0] for l in base[target]['detail'])
        new = [l for l in det if l.split(' at ')[0] not in base_ids]
        if new or r.returncode not in (0, base[target]['rc']):
            caught[target] = {'rc': r.returncode, 'new': new[:4], 'tier': 'thorough'}
    results[sid] = {'target_property': target, 'caught_by': caught,
                    'caught': bool(caught), 'caught_by_target': target in caught,
                    'summary': meta.get('summary', '')[:300]}
    print(sid, 'target', target, 'CAUGHT by' if caught else 'MISSED', sorted(caught))
    for p, c in caught.items():
        for l in c['new'][:2]:
            print('     ', p, l[:260])
if not TARGET_ONLY:
    json.dump(results, open(res_path, 'w'), indent=1, sort_keys=True)
