#!/usr/bin/env python3
"""Regenerate MANIFEST.json from rules/registry.py (keeps the interface file in sync)."""
import json, os, sys
HERE = os.path.dirname(os.path.dirname(os.path.abspath(__file__)))
sys.path.insert(0, HERE)
from rules import registry   # noqa: E402

NOT_APPLICABLE = {
    'C07': 'Exact firing tick of every timed action is delta-list arithmetic relative to the driver\'s remaining '
           'delay and tick conversion over (freq, time, unit): runtime quantities with no structural necessary '
           'condition that is not already claimed under C08 (pool/ordering shape). Deciding it needs execution '
           'against a reference timer model or an arithmetic proof - a different technique family.',
}
PENDING = 'not claimed in this revision: the rule families that decide its structural clauses are not implemented yet'

props = [json.loads(l)['id'] for l in open(os.path.join(HERE, 'properties.jsonl'))]
checks = []
na = []
for pid in props:
    spec = registry.PROPERTIES.get(pid)
    if spec is None:
        na.append({'property_id': pid, 'reason': NOT_APPLICABLE.get(pid, PENDING)})
        continue
    checks.append({
        'property_id': pid,
        'quick_cmd': 'python3 check.py %s --tier quick' % pid,
        'thorough_cmd': 'python3 check.py %s --tier thorough' % pid,
        'evidence_file': 'evidence/%s.json' % pid,
        'replay_cmd_template': 'python3 check.py --replay {path}',
        'engine': 'canalyze',
        'level_claimed': {
            'category': 'other',
            'text': 'Static analysis of the type-checked AST of every library unit: ' + spec['explanation'] +
                    ' Decides these structural clauses for all inputs/histories at once (they are statements about '
                    'the control-flow graph and call graph, not about executions); does not decide: ' +
                    spec.get('not_decided', '-') + '.',
            'design_ref': 'DESIGN.md section 5, ' + pid,
        },
        'level_note': 'Trusted: clang 14 parser/sema and JSON dumper, the CFG builder and dataflow solvers in '
                      '/verif/canalyze, the frozen spec/instance tables in /verif/tables; application callbacks and '
                      'drivers are assumed not to modify stack state. Only the clauses named in level_claimed.text are '
                      'decided; the behavioural core listed under "does not decide" is left open.',
        'technique': 'static analysis (' + ', '.join(spec['rules']) + ': ' + spec.get('technique', 'CFG dataflow / '
                     'typestate / guard and table rules over the clang AST') + ')',
    })
man = {
    'version': 1,
    'setup_cmd': 'python3 -m compileall -q check.py canalyze rules tables tools',
    'hooks': {
        'guard': 'CANOPEN_STACK_VERIF',
        'enable': 'no hooks: the analysis reads the unmodified sources (nothing in /repo is guarded or instrumented)',
        'baseline_off_cmd': 'cmake --build /repo/_build -j16 && ctest --test-dir /repo/_build -j8 --timeout 900',
        'source_commits': [],
        'add_only': True,
    },
    'engines': [{
        'name': 'canalyze',
        'path': 'canalyze/',
        'serves_properties': [c['property_id'] for c in checks],
        'kind_free_text': 'purpose-built static analyser: clang -ast-dump=json front end, CFG, dataflow, typestate, '
                          'interval and table-extraction engines in Python; rule families in rules/',
    }],
    'checks': checks,
    'not_applicable': na,
    'notes': 'All checks are static: they parse /repo/src on every run (about 2 s) and never execute the stack. '
             'exit 2 = analysis broken (anchor vanished / rule matched fewer instances than its frozen minimum).',
}
with open(os.path.join(HERE, 'MANIFEST.json'), 'w') as fh:
    json.dump(man, fh, indent=1)
print('MANIFEST.json: %d checks, %d not applicable' % (len(checks), len(na)))
