#!/bin/bash
# Regenerates evidence/<id>.json the way the registered commands do (one process per property, quick tier),
# 6 at a time, and validates MANIFEST.json and every evidence file against the schemas.
cd "$(dirname "$0")/.."
python3 - <<'PY' | xargs -P 6 -I{} bash -c 'python3 check.py {} --tier quick | tail -1'
import json
for c in json.load(open('MANIFEST.json'))['checks']:
    print(c['property_id'])
PY
python3-vt - <<'PY'
import json, jsonschema, glob
s = json.load(open('/root/.vp/EVIDENCE.schema.json'))
n = 0
for f in sorted(glob.glob('evidence/*.json')):
    jsonschema.validate(json.load(open(f)), s); n += 1
jsonschema.validate(json.load(open('MANIFEST.json')), json.load(open('/root/.vp/MANIFEST.schema.json')))
print('evidence files valid: %d; manifest valid' % n)
PY
