#!/bin/bash
# builds /repo/_build from the current working tree and checks the 250 baseline tests
cmake --build /repo/_build -j16 -- -k 0 >/tmp/repo_build.log 2>&1
ctest --test-dir /repo/_build -j8 --timeout 900 >/tmp/repo_ctest.log 2>&1
python3 - <<'PY'
import re,json,sys
b=json.load(open('/root/.vp/BASELINE.json'))
want=sorted(set(x.split('::')[0] for x in b['stable_pass']))
log=open('/tmp/repo_ctest.log').read()
passed=set(re.findall(r'Test\s+#\d+:\s+(\S+)\s+\.+\s+Passed',log))
missing=[w for w in want if w not in passed]
print('baseline tests passing: %d / %d'%(len(want)-len(missing),len(want)))
if missing:
    print('NOT PASSING:',missing[:20]); sys.exit(1)
PY
