#!/usr/bin/env python3
"""Silence test: apply each behaviour-preserving refactoring kept under benign/<id>/patch.diff to /repo,
run every claimed check, undo.  Every check must keep its unchanged-tree verdict (exit code and the
set of finding identities): a new VIOLATION or ANALYSIS-BROKEN on a benign patch is a false alarm.
Results -> benign/RESULTS.json"""
import json, os, subprocess, sys, glob
from concurrent.futures import ThreadPoolExecutor
HERE = os.path.dirname(os.path.dirname(os.path.abspath(__file__)))
man = json.load(open(os.path.join(HERE, 'MANIFEST.json')))
props = [c['property_id'] for c in man['checks']]
only = sys.argv[1:]
res_path = os.path.join(HERE, 'benign', 'RESULTS.json')
try:
    results = json.load(open(res_path))
except Exception:
    results = {}


def one(p):
    r = subprocess.run(['python3', os.path.join(HERE, 'check.py'), p], cwd=HERE, stdout=subprocess.PIPE,
                       stderr=subprocess.STDOUT, universal_newlines=True,
                       env=dict(os.environ, VERIF_EVIDENCE_DIR='/tmp/benign_eval_evidence/' + p))
    lines = r.stdout.splitlines()
    return p, {'rc': r.returncode,
               'lines': [l for l in lines if l.startswith('VIOLATION') or l.startswith('ANALYSIS-BROKEN') or l.startswith('Traceback')],
               'known': sorted(l.split(' at ')[0] for l in lines if l.startswith('KNOWN-FINDING')),
               'detail': [l.strip() for l in lines if l.startswith('  ')], 'tail': lines[-3:]}


def run_checks():
    with ThreadPoolExecutor(8) as ex:
        return dict(ex.map(one, props))


assert subprocess.run(['git', '-C', '/repo', 'status', '--porcelain', '--untracked-files=no'], stdout=subprocess.PIPE).stdout.strip() == b'', '/repo dirty'
base = run_checks()
bad_total = 0
for d in sorted(glob.glob(os.path.join(HERE, 'benign', '*', 'patch.diff'))):
    sid = os.path.basename(os.path.dirname(d))
    if only and sid not in only:
        continue
    a = subprocess.run(['git', '-C', '/repo', 'apply', '--whitespace=nowarn', d])
    if a.returncode != 0:
        results[sid] = {'error': 'patch does not apply to current /repo HEAD'}
        print(sid, 'PATCH DOES NOT APPLY')
        continue
    try:
        got = run_checks()
    finally:
        subprocess.run(['git', '-C', '/repo', 'checkout', '--', '.'])
    alarms = {}
    for p in props:
        base_ids = set(l.split(' at ')[0] for l in base[p]['detail'])
        new = [l for l in got[p]['detail'] if l.split(' at ')[0] not in base_ids]
        lost = [k for k in base[p]['known'] if k not in got[p]['known']]
        if got[p]['rc'] != base[p]['rc'] or new or got[p]['lines']:
            alarms[p] = {'rc': got[p]['rc'], 'new': new[:6], 'lines': got[p]['lines'][:4], 'tail': got[p]['tail']}
        elif lost:
            alarms[p] = {'rc': got[p]['rc'], 'lost_known_findings': lost}
    results[sid] = {'silent': not alarms, 'alarms': alarms}
    print(sid, 'SILENT' if not alarms else 'FALSE ALARM in %s' % sorted(alarms))
    for p, c in alarms.items():
        for l in (c.get('new') or c.get('lines') or c.get('tail') or c.get('lost_known_findings'))[:3]:
            print('     ', p, l[:300])
    bad_total += bool(alarms)
json.dump(results, open(res_path, 'w'), indent=1, sort_keys=True)
sys.exit(1 if bad_total else 0)
