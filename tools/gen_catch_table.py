#!/usr/bin/env python3
"""Regenerate the 'which checks catch which seeded changes' table of DESIGN.md (between the CATCH-TABLE markers)
from seeded/RESULTS.json + seeded/*/meta.json, and the benign-suite summary from benign/RESULTS.json."""
import json, os, re, glob
HERE = os.path.dirname(os.path.dirname(os.path.abspath(__file__)))
res = json.load(open(os.path.join(HERE, 'seeded', 'RESULTS.json')))
rows = []
for sid in sorted(res, key=lambda s: (s.split('-')[0], int(s.split('-')[1]))):
    r = res[sid]
    try:
        meta = json.load(open(os.path.join(HERE, 'seeded', sid, 'meta.json')))
    except Exception:
        meta = {}
    summ = (meta.get('summary') or r.get('summary') or '').replace('\n', ' ').replace('|', '/')
    summ = summ[:150] + ('…' if len(summ) > 150 else '')
    if r.get('error'):
        rows.append('| %s | %s | %s | — | %s |' % (sid, r.get('target_property', '?'), summ, r['error']))
        continue
    rules = []
    for p, c in sorted(r.get('caught_by', {}).items()):
        ids = sorted(set(re.match(r'(\S+) \[(\S+)\]', l).group(1) + ' ' + re.match(r'(\S+) \[(\S+)\]', l).group(2)
                         for l in c.get('new', []) if re.match(r'(\S+) \[(\S+)\]', l)))
        rules.append('%s: %s' % (p, ', '.join(ids[:3]) or 'rc=%s' % c.get('rc')))
    wave = 1 if int(sid.split('-')[1]) <= 2 else 2
    rows.append('| %s | %d | %s | %s | %s |' % (sid, wave, summ, 'yes' if r.get('caught_by_target') else ('other property' if r.get('caught') else '**no**'),
                                                  '; '.join(rules) if rules else '—'))
n = len(res)
caught = sum(1 for r in res.values() if r.get('caught'))
tgt = sum(1 for r in res.values() if r.get('caught_by_target'))
w2 = [s for s in res if int(s.split('-')[1]) > 2]
out = ['%d confirmed seeded changes; %d reported by at least one check, %d by the check of their own property.' % (n, caught, tgt), '',
       '| seed | wave | change (from the author\'s meta.json) | caught by own property | reporting checks: rule and function |',
       '|---|---|---|---|---|'] + rows
try:
    ben = json.load(open(os.path.join(HERE, 'benign', 'RESULTS.json')))
    out += ['', 'Behaviour-preserving refactorings (benign/): %d patches, %d silent under every check.' % (
        len(ben), sum(1 for b in ben.values() if b.get('silent')))]
except Exception:
    pass
txt = '\n'.join(out)
open(os.path.join(HERE, 'seeded', 'CATCHES.md'), 'w').write(txt + '\n')
dp = os.path.join(HERE, 'DESIGN.md')
d = open(dp).read()
b, e = '<!-- CATCH-TABLE-BEGIN -->', '<!-- CATCH-TABLE-END -->'
if b in d and e in d:
    d = d[:d.index(b) + len(b)] + '\n' + txt + '\n' + d[d.index(e):]
    open(dp, 'w').write(d)
print('catch table: %d seeds, %d caught, %d by target' % (n, caught, tgt))
