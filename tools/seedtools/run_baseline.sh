#!/bin/bash
# usage: run_baseline.sh <repository-dir>
# Configures + builds <repository-dir>/_build (same generator / build type as /repo/_build) and checks that the
# 250 baseline tests (names from /root/.vp/BASELINE.json) pass.  Exit 0 iff all pass.
repo="${1:?usage: run_baseline.sh <repository-dir>}"
log="$(mktemp -d)"
trap 'rm -rf "$log"' EXIT
cmake -G Ninja -S "$repo" -B "$repo/_build" -DCMAKE_BUILD_TYPE=RelWithDebInfo >"$log/cfg.log" 2>&1 || { echo "configure failed"; tail -20 "$log/cfg.log"; exit 2; }
# some unit-test targets do not link in the baseline configuration either (WEAK_TEST is empty): keep going, the 250
# baseline tests decide
cmake --build "$repo/_build" -j8 -- -k 0 >"$log/build.log" 2>&1
grep -E "^/.*src/.*error:" "$log/build.log" | head -10
ctest --test-dir "$repo/_build" -j8 --timeout 900 >"$log/ctest.log" 2>&1
python3 - "$log/ctest.log" <<'PY'
import re,json,sys
b=json.load(open('/root/.vp/BASELINE.json'))
want=sorted(set(x.split('::')[0] for x in b['stable_pass']))
log=open(sys.argv[1]).read()
passed=set(re.findall(r'Test\s+#\d+:\s+(\S+)\s+\.+\s+Passed',log))
missing=[w for w in want if w not in passed]
print('baseline tests passing: %d / %d'%(len(want)-len(missing),len(want)))
if missing:
    print('NOT PASSING:',missing[:20]); sys.exit(1)
PY
