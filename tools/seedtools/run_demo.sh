#!/bin/bash
# usage: run_demo.sh <repository-dir>
# Compiles demo.c together with all library sources of the given tree and runs it.
repo="${1:?usage: run_demo.sh <repository-dir>}"
here="$(cd "$(dirname "$0")" && pwd)"
bld="$(mktemp -d)"
trap 'rm -rf "$bld"' EXIT
srcs=$(find "$repo/src" -name '*.c' -not -path '*/driver/_template/*')
incs=$(find "$repo/src" -type d -not -path '*/driver/_template*' | sed 's/^/-I/')
if ! ${CC:-gcc} -std=gnu99 -O1 -w $incs $srcs "$here/demo.c" -o "$bld/demo"; then
    echo "demo build failed"; exit 2
fi
"$bld/demo"
exit $?
