#!/usr/bin/env python3
"""Parallel evaluation of the seeded (must fire) and benign (must stay silent) suites.

Development tool, not a registered check.  Every patch is applied to its own scratch copy of
/repo's working tree (outside /repo and /verif, removed afterwards) and the checks are pointed at
that copy through VERIF_REPO, so /repo itself is never touched and many patches run at once.

  par_eval.py seeded [ids...] [--target-only]     -> seeded/RESULTS.json
  par_eval.py benign [ids...]                     -> benign/RESULTS.json
"""
import json, os, subprocess, sys, glob, shutil, tempfile
from concurrent.futures import ThreadPoolExecutor

HERE = os.path.dirname(os.path.dirname(os.path.abspath(__file__)))
man = json.load(open(os.path.join(HERE, 'MANIFEST.json')))
props = [c['property_id'] for c in man['checks']]
args = [a for a in sys.argv[1:] if not a.startswith('--')]
suite = args[0]
only = args[1:]
TARGET_ONLY = '--target-only' in sys.argv
JOBS = int(os.environ.get('PAR_JOBS', '14'))
SCR = tempfile.mkdtemp(prefix='par_eval_')


import re
SUMM = re.compile(r'^(C\d\d) tier=\w+ obligations=\d+ discharged=\d+ known=\d+ violations=(\d+) broken=(\d+)')


def check_all(repo, tag=''):
    """one process for all properties (check.py --all shares the model and the rule results) -> {prop: result}"""
    ev = os.path.join(SCR, 'ev', os.path.basename(repo) + tag)
    r = subprocess.run(['python3', os.path.join(HERE, 'check.py'), '--all'], cwd=HERE,
                       stdout=subprocess.PIPE, stderr=subprocess.STDOUT, universal_newlines=True,
                       env=dict(os.environ, VERIF_EVIDENCE_DIR=ev, VERIF_REPO=repo, VERIF_TIMEOUT='3000'))
    out = {}
    cur = []
    for l in r.stdout.splitlines():
        mm = SUMM.match(l)
        if mm:
            viol = [x for x in cur if x.startswith('VIOLATION') or x.startswith('ANALYSIS-BROKEN')]
            out[mm.group(1)] = {'rc': 2 if int(mm.group(3)) else (1 if int(mm.group(2)) else 0), 'lines': viol,
                                'detail': [x.strip() for x in cur if x.startswith('  ')],
                                'known': sorted(x.split(' at ')[0] for x in cur if x.startswith('KNOWN-FINDING'))}
            cur = []
        else:
            cur.append(l)
    for p in props:
        if p not in out:      # the run died before reaching this property
            out[p] = {'rc': 2, 'lines': ['ANALYSIS-BROKEN no verdict: ' + ' | '.join(cur[-3:])], 'detail': ['ANALYSIS-BROKEN ' + ' | '.join(cur[-3:])], 'known': []}
    return out


def check(p, repo, tier='quick', tag=''):
    ev = os.path.join(SCR, 'ev', os.path.basename(repo) + tag, p)
    r = subprocess.run(['python3', os.path.join(HERE, 'check.py'), p, '--tier', tier], cwd=HERE,
                       stdout=subprocess.PIPE, stderr=subprocess.STDOUT, universal_newlines=True,
                       env=dict(os.environ, VERIF_EVIDENCE_DIR=ev, VERIF_REPO=repo))
    viol = [l for l in r.stdout.splitlines() if l.startswith('VIOLATION') or l.startswith('ANALYSIS-BROKEN')]
    detail = [l.strip() for l in r.stdout.splitlines() if l.startswith('  ')]
    known = sorted(l.split(' at ')[0] for l in r.stdout.splitlines() if l.startswith('KNOWN-FINDING'))
    return {'rc': r.returncode, 'lines': viol, 'detail': detail, 'known': known}


def copy_repo(name):
    dst = os.path.join(SCR, name)
    subprocess.run(['rsync', '-a', '--exclude', '_build', '--exclude', '.git', '/repo/', dst + '/'], check=True)
    return dst


def ident(l):
    return l.split(' at ')[0]


base_repo = copy_repo('base')
base = check_all(base_repo)
for p in props:
    if base[p]['rc'] != 0:
        print('BASE NOT CLEAN', p, base[p]['lines'][:3])


def do_patch(d):
    sid = os.path.basename(os.path.dirname(d))
    try:
        meta = json.load(open(os.path.join(os.path.dirname(d), 'meta.json')))
    except Exception:
        meta = {}
    repo = copy_repo(sid)
    try:
        a = subprocess.run(['git', 'apply', '--whitespace=nowarn', d], cwd=repo, stderr=subprocess.PIPE)
        if a.returncode != 0:
            return sid, {'error': 'patch does not apply to current /repo HEAD'}
        target = meta.get('property')
        got = check_all(repo)
        out = {}
        for p in props:
            base_ids = set(ident(l) for l in base[p]['detail'])
            new = [l for l in got[p]['detail'] if ident(l) not in base_ids]
            changed_known = got[p]['known'] != base[p]['known']
            if (got[p]['rc'] != base[p]['rc'] and got[p]['rc'] != 0) or new:
                out[p] = {'rc': got[p]['rc'], 'new': new[:4]}
            elif suite == 'benign' and changed_known:
                out[p] = {'rc': got[p]['rc'], 'new': ['known-finding identities changed']}
        if suite == 'seeded' and target in props and target not in out:
            g = check(target, repo, 'thorough', '_th')
            base_ids = set(ident(l) for l in base[target]['detail'])
            new = [l for l in g['detail'] if ident(l) not in base_ids]
            if new or g['rc'] not in (0, base[target]['rc']):
                out[target] = {'rc': g['rc'], 'new': new[:4], 'tier': 'thorough'}
        if suite == 'benign':
            return sid, {'target_property': target, 'caught_by': out, 'caught': bool(out), 'alarms': out, 'silent': not out}
        return sid, {'target_property': target, 'caught_by': out, 'caught': bool(out),
                     'caught_by_target': target in out, 'summary': (meta.get('summary') or '')[:300]}
    finally:
        shutil.rmtree(repo, ignore_errors=True)
        shutil.rmtree(os.path.join(SCR, 'ev', sid), ignore_errors=True)
        shutil.rmtree(os.path.join(SCR, 'ev', sid + '_th'), ignore_errors=True)


res_path = os.path.join(HERE, suite, 'RESULTS.json')
try:
    results = json.load(open(res_path))
except Exception:
    results = {}
patches = [d for d in sorted(glob.glob(os.path.join(HERE, suite, '*', 'patch.diff')))
           if not only or os.path.basename(os.path.dirname(d)) in only]
try:
    with ThreadPoolExecutor(JOBS) as ex:
        for sid, r in ex.map(do_patch, patches):
            if not TARGET_ONLY:
                results[sid] = r
            if 'error' in r:
                print(sid, r['error'])
                continue
            word = ('CAUGHT by' if r['caught'] else 'MISSED') if suite == 'seeded' else ('ALARM' if r['caught'] else 'silent')
            print(sid, 'target', r['target_property'], word, sorted(r['caught_by']), flush=True)
            for p, c in r['caught_by'].items():
                for l in c['new'][:2]:
                    print('     ', p, l[:240])
finally:
    shutil.rmtree(SCR, ignore_errors=True)
if not TARGET_ONLY and not only:
    results = {k: v for k, v in results.items() if os.path.exists(os.path.join(HERE, suite, k, 'patch.diff'))}
if not TARGET_ONLY:
    json.dump(results, open(res_path, 'w'), indent=1, sort_keys=True)
n = [r for r in results.values() if 'error' not in r]
print('%s: %d patches, %d reported, %d by own property' % (suite, len(n), sum(1 for r in n if r.get('caught', not r.get('silent', True))),
                                                            sum(1 for r in n if r.get('caught_by_target'))))
