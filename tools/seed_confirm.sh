#!/bin/bash
# usage: seed_confirm.sh <seed-dir> <seed-id>
# Confirms a candidate breaking change in a scratch worktree of /repo:
#   demo passes on the unchanged tree, patch applies, 250 baseline tests pass with it, demo fails with it.
# On success copies it to /verif/seeded/<seed-id>/ with a "confirmed" block in meta.json.
set -u
src="$1"; id="$2"
wt=/tmp/wt_confirm_$id
rm -rf "$wt"; git -C /repo worktree prune
git -C /repo worktree add -q "$wt" HEAD || exit 2
cleanup() { git -C /repo worktree remove --force "$wt" 2>/dev/null; rm -rf "$wt"; git -C /repo worktree prune; }
trap cleanup EXIT
chmod +x "$src/run_demo.sh" 2>/dev/null
( cd "$src" && bash ./run_demo.sh "$wt" ) > /tmp/confirm_$id.clean.log 2>&1; rc_clean=$?
if ! git -C "$wt" apply --whitespace=nowarn "$src/patch.diff"; then echo "$id: PATCH DOES NOT APPLY"; exit 1; fi
/verif/tools/seedtools/run_baseline.sh "$wt" > /tmp/confirm_$id.base.log 2>&1; rc_base=$?
( cd "$src" && bash ./run_demo.sh "$wt" ) > /tmp/confirm_$id.mut.log 2>&1; rc_mut=$?
echo "$id: demo(unchanged)=$rc_clean baseline(with change)=$rc_base demo(with change)=$rc_mut"
if [ $rc_clean -eq 0 ] && [ $rc_base -eq 0 ] && [ $rc_mut -ne 0 ]; then
  dst=/verif/seeded/$id; mkdir -p "$dst"; cp -r "$src"/. "$dst"/
  python3 - "$dst" "$rc_clean" "$rc_base" "$rc_mut" <<'PY'
import json,sys
d=sys.argv[1]
try: m=json.load(open(d+'/meta.json'))
except Exception: m={}
m['confirmed']={'demo_exit_unchanged':int(sys.argv[2]),'baseline_250_pass_with_change':int(sys.argv[3])==0,
 'demo_exit_with_change':int(sys.argv[4]),
 'ran':'tools/seed_confirm.sh: scratch worktree of /repo HEAD; run_demo.sh on unchanged tree; git apply patch.diff; /verif/tools/seedtools/run_baseline.sh (cmake+ninja+ctest, 250 baseline tests); run_demo.sh with change'}
json.dump(m,open(d+'/meta.json','w'),indent=1)
PY
  echo "$id: CONFIRMED -> $dst"
else
  echo "$id: NOT CONFIRMED (see /tmp/confirm_$id.*.log)"; exit 1
fi
