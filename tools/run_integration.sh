#!/bin/bash
# Builds the repository's integration suites out of tree with the GCC test-registration fixed
# (on Linux the in-tree build registers no suite: static __start_test/__stop_test shadow the
# linker symbols and the section name ".test" is not a C identifier) and runs them.
# usage: run_integration.sh [repo-dir]   -- triage / regression aid, not a registered check
set -u
repo="${1:-/repo}"
d=$(mktemp -d)
trap 'rm -rf "$d"' EXIT
cp -r "$repo/tests/integration" "$d/it"
python3 - "$d/it/testfrm/ts_types.h" <<'PY'
import sys
p=sys.argv[1]; s=open(p).read()
s=s.replace('#define TEST_SECTION_PRE          __attribute__((section(".test")))','#define TEST_SECTION_PRE          __attribute__((section("test"),used))')
s=s.replace('#define TEST_SECTION_START_ALLOC  static const TS_INFOFUNC TEST_SECTION_START = (TS_INFOFUNC)0;','#define TEST_SECTION_START_ALLOC  extern const TS_INFOFUNC TEST_SECTION_START;')
s=s.replace('#define TEST_SECTION_END_ALLOC    static const TS_INFOFUNC TEST_SECTION_END = (TS_INFOFUNC)0;','#define TEST_SECTION_END_ALLOC    extern const TS_INFOFUNC TEST_SECTION_END;')
open(p,'w').write(s)
o=p.replace('ts_types.h','ts_output.c'); t=open(o).read()
t=t.replace('''    (void)arg;
    (void)character;''','''    (void)arg;
    putchar((int)character);''')
open(o,'w').write(t)
PY
INC=""
for i in config core hal object/basic object/cia301 service/cia301 service/cia305; do INC="$INC -I$repo/src/$i"; done
for i in app driver testfrm tests; do INC="$INC -I$d/it/$i"; done
SRC=$(find "$repo/src" -name '*.c' -not -path '*/driver/*' -not -name callbacks.c)
cc -std=gnu99 -O1 -g -w $INC $SRC $(find "$d/it" -name '*.c') -o "$d/it.bin" 2>"$d/build.log" || { tail -20 "$d/build.log"; exit 2; }
"$d/it.bin" > "$d/out.log" 2>&1; rc=$?
tail -${2:-6} "$d/out.log"
exit $rc
