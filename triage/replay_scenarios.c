#include "co_core.h"
#include <stdio.h>
#include <string.h>
#include <stdlib.h>
#include <unistd.h>
#include <signal.h>
/* ---- drivers ---- */
static uint32_t TC; static void tI(uint32_t f){(void)f;TC=0;} static void tS(void){} static void tSt(void){TC=0;}
static uint8_t tU(void){ if(TC>0){TC--; if(TC==0) return 1;} return 0;} static uint32_t tD(void){return TC;} static void tR(uint32_t r){TC=r;}
static const CO_IF_TIMER_DRV TD={tI,tR,tD,tSt,tS,tU};
static CO_IF_FRM rxq[64]; static int rxh,rxt; static CO_IF_FRM txlog[256]; static int txn;
static void cI(void){} static void cE(uint32_t b){(void)b;} static void cR(void){} static void cC(void){}
static int16_t cRead(CO_IF_FRM*f){ if(rxh==rxt) return 0; *f=rxq[rxh++]; return sizeof(*f);} 
static int16_t cSend(CO_IF_FRM*f){ if(txn<256) txlog[txn++]=*f; printf("  TX id=%08x dlc=%u data=%02x %02x %02x %02x %02x %02x %02x %02x\n",f->Identifier,f->DLC,f->Data[0],f->Data[1],f->Data[2],f->Data[3],f->Data[4],f->Data[5],f->Data[6],f->Data[7]); return sizeof(*f);} 
static const CO_IF_CAN_DRV CD={cI,cE,cRead,cSend,cR,cC};
static void nI(void){} static uint32_t nR(uint32_t s,uint8_t*b,uint32_t n){(void)s;(void)b;return n;} static uint32_t nW(uint32_t s,uint8_t*b,uint32_t n){(void)s;(void)b;return n;}
static const CO_IF_NVM_DRV ND={nI,nR,nW};
static CO_IF_DRV DRV={&CD,&TD,&ND};
static void rx(uint32_t id,uint8_t dlc,const uint8_t*d){CO_IF_FRM f; memset(&f,0,sizeof f); f.Identifier=id;f.DLC=dlc; memcpy(f.Data,d,dlc); rxq[rxt++]=f;}
/* ---- objects ---- */
static uint8_t  O1001; static uint8_t O2100=0; static uint8_t O2101=0; static uint16_t O1017=0;
static CO_HBCONS HB1={0,0,0,-1,100,5,0}; static CO_HBCONS HB2={0,0,0,-1,0,0,0}; static uint8_t O1016_0=2;
static uint32_t TPDO_ID; static uint32_t RPDO_ID=0x205; static uint8_t RTYPE=1; static uint8_t TTYPE=254; static uint8_t N1=1;
static uint16_t EVT=0, INH=0;
static uint8_t STRBUF[16]="HelloWorld12"; static CO_OBJ_STR STR={0,STRBUF};
static uint8_t DOMBUF[40]; static CO_OBJ_DOM DOM={0,20,DOMBUF};
#define MAXD 64
static CO_OBJ OD[MAXD];
static int nod;
static void add(uint32_t key,const CO_OBJ_TYPE*t,CO_DATA d){OD[nod].Key=key;OD[nod].Type=t;OD[nod].Data=d;nod++;}
static CO_TMR_MEM TM[16]; static uint8_t SBUF[CO_SSDO_N*CO_SDO_BUF_BYTE]; static CO_NODE N; static CO_EMCY_TBL ET[CO_EMCY_N];
static void mkdict(void){ nod=0; memset(OD,0,sizeof OD);
 add(CO_KEY(0x1000,0,CO_OBJ_D___R_),CO_TUNSIGNED32,0);
 add(CO_KEY(0x1001,0,CO_OBJ_____R_),CO_TUNSIGNED8,(CO_DATA)&O1001);
 add(CO_KEY(0x1005,0,CO_OBJ_D___RW),CO_TSYNC_ID,0x80);
 add(CO_KEY(0x1006,0,CO_OBJ_D___RW),CO_TSYNC_CYCLE,0);
 add(CO_KEY(0x1014,0,CO_OBJ_DN__RW),CO_TEMCY_ID,0x80);
 add(CO_KEY(0x1016,0,CO_OBJ_____R_),CO_THB_CONS,(CO_DATA)&O1016_0);
 add(CO_KEY(0x1016,1,CO_OBJ_____RW),CO_THB_CONS,(CO_DATA)&HB1);
 add(CO_KEY(0x1016,2,CO_OBJ_____RW),CO_THB_CONS,(CO_DATA)&HB2);
 add(CO_KEY(0x1017,0,CO_OBJ_____RW),CO_THB_PROD,(CO_DATA)&O1017);
 add(CO_KEY(0x1018,0,CO_OBJ_D___R_),CO_TUNSIGNED8,4);
 add(CO_KEY(0x1018,1,CO_OBJ_D___R_),CO_TUNSIGNED32,1);
 add(CO_KEY(0x1018,2,CO_OBJ_D___R_),CO_TUNSIGNED32,2);
 add(CO_KEY(0x1018,3,CO_OBJ_D___R_),CO_TUNSIGNED32,3);
 add(CO_KEY(0x1018,4,CO_OBJ_D___R_),CO_TUNSIGNED32,4);
 add(CO_KEY(0x1200,0,CO_OBJ_D___R_),CO_TUNSIGNED8,2);
 add(CO_KEY(0x1200,1,CO_OBJ_DN__R_),CO_TUNSIGNED32,0x600);
 add(CO_KEY(0x1200,2,CO_OBJ_DN__R_),CO_TUNSIGNED32,0x580);
 add(CO_KEY(0x1400,0,CO_OBJ_D___R_),CO_TUNSIGNED8,2);
 add(CO_KEY(0x1400,1,CO_OBJ_____RW),CO_TPDO_ID,(CO_DATA)&RPDO_ID);
 add(CO_KEY(0x1400,2,CO_OBJ_____RW),CO_TPDO_TYPE,(CO_DATA)&RTYPE);
 add(CO_KEY(0x1600,0,CO_OBJ_____RW),CO_TPDO_NUM,(CO_DATA)&N1);
 add(CO_KEY(0x1600,1,CO_OBJ_D___RW),CO_TPDO_MAP,CO_LINK(0x2100,0,8));
 add(CO_KEY(0x1800,0,CO_OBJ_D___R_),CO_TUNSIGNED8,5);
 add(CO_KEY(0x1800,1,CO_OBJ_____RW),CO_TPDO_ID,(CO_DATA)&TPDO_ID);
 add(CO_KEY(0x1800,2,CO_OBJ_____RW),CO_TPDO_TYPE,(CO_DATA)&TTYPE);
 add(CO_KEY(0x1800,3,CO_OBJ_____RW),CO_TUNSIGNED16,(CO_DATA)&INH);
 add(CO_KEY(0x1800,5,CO_OBJ_____RW),CO_TPDO_EVENT,(CO_DATA)&EVT);
 add(CO_KEY(0x1A00,0,CO_OBJ_____RW),CO_TPDO_NUM,(CO_DATA)&N1);
 add(CO_KEY(0x1A00,1,CO_OBJ_D___RW),CO_TPDO_MAP,CO_LINK(0x2101,0,8));
 add(CO_KEY(0x2100,0,CO_OBJ____PRW),CO_TUNSIGNED8,(CO_DATA)&O2100);
 add(CO_KEY(0x2101,0,CO_OBJ____PRW),CO_TUNSIGNED8,(CO_DATA)&O2101);
 add(CO_KEY(0x2200,0,CO_OBJ_____RW),CO_TDOMAIN,(CO_DATA)&DOM);
 add(CO_KEY(0x2300,0,CO_OBJ_____RW),CO_TSTRING,(CO_DATA)&STR);
}
static void init(int tmrn){ CO_NODE_SPEC s; memset(&s,0,sizeof s); mkdict();
 s.NodeId=1;s.Baudrate=250000;s.Dict=OD;s.DictLen=MAXD;s.EmcyCode=ET;s.TmrMem=TM;s.TmrNum=tmrn;s.TmrFreq=1000;s.Drv=&DRV;s.SdoBuf=SBUF;
 CONodeInit(&N,&s); printf("init err=%d\n",CONodeGetErr(&N)); CONodeStart(&N);} 
static void pump(void){ while(rxh!=rxt) CONodeProcess(&N);} 
static void nmt(uint8_t cs){uint8_t d[2]={cs,1}; rx(0,2,d); pump();}
static void cb(void*p){printf("  cb %s\n",(char*)p);} 
static void onalarm(int s){(void)s; printf("RESULT: HANG (infinite loop)\n"); _exit(3);} 
int main(int argc,char**argv){ int sc=atoi(argv[1]); setvbuf(stdout,0,_IONBF,0); signal(SIGALRM,onalarm); alarm(3);
 TPDO_ID=0x40000181u;
 if(sc==1){ init(16); CO_OBJ*o=CODictFind(&N.Dict,CO_KEY(0,0,CO_OBJ_____R_)); printf("RESULT: CODictFind(flags-only key) -> %p (index in OD %ld of %d) \n",(void*)o,o?(long)(o-OD):-1,nod);} 
 if(sc==2){ init(16); printf("chain head=%p HB1=%p\n",(void*)N.Nmt.HbCons,(void*)&HB1);
   CO_ERR e=CODictWrLong(&N.Dict,CO_DEV(0x1016,1),(6u<<16)|100u); printf("rewrite entry1 to node 6: err=%d head=%p head->Next=%p\n",e,(void*)N.Nmt.HbCons,(void*)N.Nmt.HbCons->Next);
   uint8_t d[1]={5}; rx(0x700+9,1,d); pump(); printf("RESULT: no hang\n"); }
 if(sc==3){ init(16); nmt(1); uint8_t d[1]={0x55}; rx(0x205,1,d); pump(); printf("after RPDO frame O2100=%02x\n",O2100); rx(0x80,0,d); pump(); printf("after SYNC O2100=%02x\n",O2100);
   nmt(128); printf("mode=%d (2=PREOP)\n",CONmtGetMode(&N.Nmt)); O2100=0x11; rx(0x80,0,d); pump(); printf("RESULT: PREOP, after SYNC with no reception O2100=%02x (expected 11)\n",O2100);} 
 if(sc==4){ TPDO_ID=0xC0000181u; init(16); nmt(1); txn=0; COTPdoTrigPdo(N.TPdo,0); printf("RESULT: frames sent for TPDO with invalid COB-ID: %d\n",txn);} 
 if(sc==5){ init(2); int16_t a=COTmrCreate(&N.Tmr,5,0,cb,"A"); int16_t b=COTmrCreate(&N.Tmr,10,0,cb,"B"); printf("a=%d b=%d\n",a,b);
   for(int i=0;i<5;i++) COTmrService(&N.Tmr); printf("elapsed=%p use=%p\n",(void*)N.Tmr.Elapsed,(void*)N.Tmr.Use);
   printf("delete A -> %d\n",COTmrDelete(&N.Tmr,a)); printf("free=%p acts=%p\n",(void*)N.Tmr.Free,(void*)N.Tmr.Acts);
   int16_t c=COTmrCreate(&N.Tmr,3,0,cb,"C"); printf("RESULT: c=%d\n",c);} 
 if(sc==6){ init(1); int16_t a=COTmrCreate(&N.Tmr,5,0,cb,"A"); for(int i=0;i<5;i++) COTmrService(&N.Tmr); printf("RESULT: delete elapsed-only A -> %d\n",COTmrDelete(&N.Tmr,a)); }
 if(sc==7){ /* emcy with 1014 bit31 set */ init(16); ET[0].Reg=1; ET[0].Code=0x2000; printf("wr1014 err=%d\n",CODictWrLong(&N.Dict,CO_DEV(0x1014,0),0x80000081u)); uint32_t v; CODictRdLong(&N.Dict,CO_DEV(0x1014,0),&v); printf("1014=%08x\n",v); txn=0; COEmcySet(&N.Emcy,0,0); printf("RESULT: EMCY frames with disabled COB-ID: %d\n",txn);} 

 if(sc==8){ init(16); static uint8_t N8=8; /* 8 one-byte dummies in RPDO0 */
   static CO_OBJ OD2[MAXD]; int k=0; for(int i=0;i<nod;i++){ if(CO_GET_IDX(OD[i].Key)==0x1600) continue; if(CO_GET_IDX(OD[i].Key)==0x1800 && CO_GET_SUB(OD[i].Key)==0 && k>0 && CO_GET_IDX(OD2[k-1].Key)!=0x1600){ OD2[k].Key=CO_KEY(0x1600,0,CO_OBJ_____RW);OD2[k].Type=CO_TPDO_NUM;OD2[k].Data=(CO_DATA)&N8;k++; for(int j=1;j<=8;j++){OD2[k].Key=CO_KEY(0x1600,j,CO_OBJ_D___RW);OD2[k].Type=CO_TPDO_MAP;OD2[k].Data=CO_LINK(0x0005,0,8);k++;} } OD2[k++]=OD[i]; }
   CO_NODE_SPEC s; memset(&s,0,sizeof s); s.NodeId=1;s.Baudrate=250000;s.Dict=OD2;s.DictLen=MAXD;s.EmcyCode=ET;s.TmrMem=TM;s.TmrNum=16;s.TmrFreq=1000;s.Drv=&DRV;s.SdoBuf=SBUF; CONodeInit(&N,&s); printf("init err=%d\n",CONodeGetErr(&N)); CONodeStart(&N); nmt(1); printf("RESULT: RPDO0 ObjNum=%u\n",N.RPdo[0].ObjNum);} 
 if(sc==9){ init(16); uint8_t d[8]={0x22,0x00,0x22,0x00,1,2,3,4}; txn=0; rx(0x601,8,d); pump(); printf("RESULT: responses=%d first byte0=%02x (80=abort expected) server Obj=%p\n",txn,txlog[0].Data[0],(void*)N.Sdo[0].Obj);} 
 if(sc==10){ init(16); for(int i=0;i<20;i++) DOMBUF[i]=0xA0+i; uint8_t a[8]={0xA0,0x00,0x22,0x00,2,0,0,0}; rx(0x601,8,a); pump(); uint8_t st[8]={0xA3,0,0,0,0,0,0,0}; rx(0x601,8,st); pump(); uint8_t ab[8]={0x80,0x00,0x22,0x00,0,0,0,0x08}; rx(0x601,8,ab); pump(); printf("-- after client abort: Obj=%p State=%d; now A3h with no initiate\n",(void*)N.Sdo[0].Obj,N.Sdo[0].Blk.State); memset(DOMBUF,0,sizeof DOMBUF); txn=0; rx(0x601,8,st); pump(); printf("RESULT: frames emitted for A3h without initiate: %d (byte1 of first = %02x)\n",txn,txn?txlog[0].Data[1]:0);} 
 if(sc==11){ init(16); uint8_t d[8]={0xC2,0x00,0x23,0x00,10,0,0,0}; txn=0; rx(0x601,8,d); pump(); printf("RESULT: block download initiate to a writable object whose type has no write function: responses=%d (1 expected), Blk.State=%d Obj=%p\n",txn,N.Sdo[0].Blk.State,(void*)N.Sdo[0].Obj); uint8_t e[8]={0x40,0x00,0x10,0x00,0,0,0,0}; txn=0; rx(0x601,8,e); pump(); printf("   next request (upload 1000h): responses=%d first byte=%02x\n",txn,txn?txlog[0].Data[0]:0);}
 if(sc==13){ EVT=50; init(16); nmt(1); printf("operational: EvTmr=%d\n",N.TPdo[0].EvTmr); nmt(128); nmt(1); printf("preop->operational again: EvTmr=%d\n",N.TPdo[0].EvTmr); txn=0; for(int t=0;t<120;t++){ COTmrService(&N.Tmr); COTmrProcess(&N.Tmr);} printf("RESULT: TPDO frames in 120 ms with event time 50 ms: %d (2 expected)\n",txn);} 
 if(sc==14){ init(3); int16_t a=COTmrCreate(&N.Tmr,5,0,cb,"A"); int16_t k=COTmrCreate(&N.Tmr,50,0,cb,"K"); int16_t b; for(int i=0;i<5;i++) COTmrService(&N.Tmr); printf("delete elapsed A -> %d (k=%d)\n",COTmrDelete(&N.Tmr,a),k); (void)b; printf("RESULT: delete of a not-pending id 2 while an emptied event waits in the elapsed list -> %d\n",COTmrDelete(&N.Tmr,2)); }
 if(sc==15){ init(16); uint8_t g[8]={4,1,0,0,0,0,0,0}; rx(0x7E5,8,g); pump(); uint8_t a[8]={21,20,0,0,0,0,0,0}; rx(0x7E5,8,a); pump(); printf("LSS activate bit timing: Lss.Tmr=%d mode=%d\n",N.Lss.Tmr,CONmtGetMode(&N.Nmt)); CONmtReset(&N.Nmt,CO_RESET_COM); printf("after reset com: Lss.Tmr=%d mode=%d\n",N.Lss.Tmr,CONmtGetMode(&N.Nmt)); nmt(1); printf("NMT start: mode=%d (3=OPERATIONAL)\n",CONmtGetMode(&N.Nmt)); for(int t=0;t<50;t++){COTmrService(&N.Tmr);COTmrProcess(&N.Tmr);} printf("RESULT: 50 ms later mode=%d (3 expected; 2 = forced back to PRE-OPERATIONAL by the leaked LSS timer)\n",CONmtGetMode(&N.Nmt)); }
 if(sc==16){ init(16); uint8_t d[1]={5}; rx(0x705,1,d); pump(); printf("monitoring node 5: HB1.Tmr=%d\n",HB1.Tmr); CONmtReset(&N.Nmt,CO_RESET_COM); printf("after reset com: chain=%p HB1.Tmr=%d\n",(void*)N.Nmt.HbCons,HB1.Tmr); int ev0=HB1.Event; for(int t=0;t<350;t++){COTmrService(&N.Tmr);COTmrProcess(&N.Tmr);} printf("RESULT: consumer chain after reset=%p (monitoring lost), heartbeat events raised by the leaked timer: %d\n",(void*)N.Nmt.HbCons,HB1.Event-ev0); }
 return 0; }
