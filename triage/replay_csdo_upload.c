/* triage only (see README): SDO client, expedited upload response into user buffers of various sizes.
 * Question: is `width > (uint8_t)csdo->Tfer.Size` in COCSdoUploadExpedited (RF7 report) a reachable truncation?
 * Outcome: NO - a request with a buffer above 4 bytes is typed UPLOAD_SEGMENT and an expedited response (43h) is
 * answered with 0504 0001h by the response table before COCSdoUploadExpedited is ever reached; the handler only runs
 * with Tfer.Size <= 4.  The RF7 report was a false alarm; the rule now carries a *checked* exception (the invariant
 * "type == expedited <=> size <= 4" is re-derived from COCSdoRequestUpload on every run). */
#include "co_core.h"
#include <stdio.h>
#include <string.h>
static uint32_t TC; static void tI(uint32_t f){(void)f;TC=0;} static void tS(void){} static void tSt(void){TC=0;}
static uint8_t tU(void){ if(TC>0){TC--; if(TC==0) return 1;} return 0;} static uint32_t tD(void){return TC;} static void tR(uint32_t r){TC=r;}
static const CO_IF_TIMER_DRV TD={tI,tR,tD,tSt,tS,tU};
static CO_IF_FRM rxq[8]; static int rxh,rxt;
static void cI(void){} static void cE(uint32_t b){(void)b;} static void cR(void){} static void cC(void){}
static int16_t cRead(CO_IF_FRM*f){ if(rxh==rxt) return 0; *f=rxq[rxh++]; return sizeof(*f);}
static int16_t cSend(CO_IF_FRM*f){ printf("  TX id=%03x %02x %02x %02x %02x\n",f->Identifier,f->Data[0],f->Data[1],f->Data[2],f->Data[3]); return sizeof(*f);}
static const CO_IF_CAN_DRV CD={cI,cE,cRead,cSend,cR,cC};
static void nI(void){} static uint32_t nR(uint32_t s,uint8_t*b,uint32_t n){(void)s;(void)b;return n;} static uint32_t nW(uint32_t s,uint8_t*b,uint32_t n){(void)s;(void)b;return n;}
static const CO_IF_NVM_DRV ND={nI,nR,nW};
static CO_IF_DRV DRV={&CD,&TD,&ND};
static uint8_t O1001;
static CO_OBJ OD[16]; static int nod;
static void add(uint32_t key,const CO_OBJ_TYPE*t,CO_DATA d){OD[nod].Key=key;OD[nod].Type=t;OD[nod].Data=d;nod++;}
static CO_TMR_MEM TM[8]; static uint8_t SBUF[CO_SSDO_N*CO_SDO_BUF_BYTE]; static CO_NODE N; static CO_EMCY_TBL ET[CO_EMCY_N];
static uint32_t got_code = 0xFFFFFFFF; static int calls;
static void done(CO_CSDO *c, uint16_t i, uint8_t s, uint32_t code){(void)c;(void)i;(void)s; got_code=code; calls++;}
int main(int argc,char**argv){ uint32_t bufsize = argc>1 ? (uint32_t)atoi(argv[1]) : 256; static uint8_t buf[4096]; CO_NODE_SPEC s; CO_CSDO *c; CO_IF_FRM f; CO_ERR e;
 memset(&s,0,sizeof s);
 add(CO_KEY(0x1000,0,CO_OBJ_D___R_),CO_TUNSIGNED32,0);
 add(CO_KEY(0x1001,0,CO_OBJ_____R_),CO_TUNSIGNED8,(CO_DATA)&O1001);
 add(CO_KEY(0x1017,0,CO_OBJ_D___R_),CO_TUNSIGNED16,0);
 add(CO_KEY(0x1200,0,CO_OBJ_D___R_),CO_TUNSIGNED8,2);
 add(CO_KEY(0x1200,1,CO_OBJ_DN__R_),CO_TUNSIGNED32,0x600);
 add(CO_KEY(0x1200,2,CO_OBJ_DN__R_),CO_TUNSIGNED32,0x580);
 add(CO_KEY(0x1280,0,CO_OBJ_D___R_),CO_TUNSIGNED8,3);
 add(CO_KEY(0x1280,1,CO_OBJ_D___R_),CO_TUNSIGNED32,0x605);
 add(CO_KEY(0x1280,2,CO_OBJ_D___R_),CO_TUNSIGNED32,0x585);
 add(CO_KEY(0x1280,3,CO_OBJ_D___R_),CO_TUNSIGNED8,5);
 s.NodeId=1;s.Baudrate=250000;s.Dict=OD;s.DictLen=16;s.EmcyCode=ET;s.TmrMem=TM;s.TmrNum=8;s.TmrFreq=1000;s.Drv=&DRV;s.SdoBuf=SBUF;
 CONodeInit(&N,&s); CONodeStart(&N);
 c = COCSdoFind(&N, 0);
 e = COCSdoRequestUpload(c, CO_DEV(0x2000,1), buf, bufsize, done, 500);
 printf("request: err=%d\n", e);
 memset(&f,0,sizeof f); f.Identifier=0x58A; f.DLC=8; f.Data[0]=0x43; f.Data[1]=0x00; f.Data[2]=0x20; f.Data[3]=1; f.Data[4]=0x11; f.Data[5]=0x22; f.Data[6]=0x33; f.Data[7]=0x44;
 rxq[rxt++]=f; CONodeProcess(&N);
 printf("RESULT: buffer size %u: callback calls=%d code=%08x buf=%02x %02x %02x %02x -> %s\n", bufsize, calls, got_code, buf[0],buf[1],buf[2],buf[3],
        (calls==1 && got_code==0 && buf[0]==0x11 && buf[3]==0x44) ? "OK" : "DEFECT");
 return !(calls==1 && got_code==0);
}
