/* Triage replay (run by hand, never by a registered check): go-back-N retransmission of the SDO block upload.
 * Finding RF17-refill on the pinned tree: after a PARTIALLY confirmed block COSdoUploadBlock keeps the unconfirmed
 * bytes at the front of the buffer and then fetches as many bytes again from the object - instead of the space the
 * confirmed segments freed.  Whenever the client confirms neither 0 nor exactly half of the segments the object is read
 * ahead by the wrong amount and the client assembles bytes that are not the object's (first failing input: block size 3,
 * client confirms 1 of 3, wrong byte at offset 28).  Sweep: object sizes 15..300, block sizes 1..7, loss in block 1..3
 * (and the following block), every number of confirmed segments.  Pinned tree: 108 of 756 scenarios fail; with
 * the "fix:" commit all pass.
 * Build: gcc -std=gnu99 -O1 -g -w -fsanitize=address,undefined -I<every src dir> <every src/*.c> this-file.c
 * (derived from the demonstration program of seeded/C03-11).
 */
/*
 * C03 demonstration: SDO block upload with a strictly conforming reference
 * client that changes its block size in a block acknowledge which does NOT
 * confirm the whole block (go-back-N).  The bytes the client assembles must
 * equal the object's content and length exactly.
 */
#include <stdio.h>
#include <string.h>
#include "co_core.h"

/* ---------------------------------------------------------------- drivers */
#define QLEN 1024
static CO_IF_FRM RxQ[4];   static int RxN;           /* frames to the node   */
static CO_IF_FRM TxQ[QLEN]; static int TxN, TxRd;    /* frames from the node */

static void    CanInit(void) {}
static void    CanEnable(uint32_t b) { (void)b; }
static int16_t CanRead(CO_IF_FRM *f)
{
    if (RxN == 0) return 0;
    *f = RxQ[0]; RxN = 0;
    return (int16_t)sizeof(CO_IF_FRM);
}
static int16_t CanSend(CO_IF_FRM *f)
{
    if (TxN < QLEN) TxQ[TxN++] = *f;
    return (int16_t)sizeof(CO_IF_FRM);
}
static void    CanReset(void) {}
static void    CanClose(void) {}
static const CO_IF_CAN_DRV CanDrv = { CanInit, CanEnable, CanRead, CanSend, CanReset, CanClose };

static void     TmInit(uint32_t f) { (void)f; }
static void     TmReload(uint32_t r) { (void)r; }
static uint32_t TmDelay(void) { return 0; }
static void     TmStop(void) {}
static void     TmStart(void) {}
static uint8_t  TmUpdate(void) { return 0; }
static const CO_IF_TIMER_DRV TmDrv = { TmInit, TmReload, TmDelay, TmStop, TmStart, TmUpdate };

static void     NvInit(void) {}
static uint32_t NvRead(uint32_t s, uint8_t *b, uint32_t n) { (void)s; (void)b; (void)n; return 0; }
static uint32_t NvWrite(uint32_t s, uint8_t *b, uint32_t n) { (void)s; (void)b; return n; }
static const CO_IF_NVM_DRV NvDrv = { NvInit, NvRead, NvWrite };

static CO_IF_DRV Drv = { &CanDrv, &TmDrv, &NvDrv };

/* ------------------------------------------------------ object dictionary */
#define DOM_MAX 2000
static uint8_t    DomMem[DOM_MAX];
static uint8_t    DomRef[DOM_MAX];
static CO_OBJ_DOM Dom = { 0, 0, DomMem };

static uint8_t  Obj1001;
static uint16_t Obj1017;
static uint32_t Obj1014 = 0x80;
static uint32_t SdoRx = 0x600, SdoTx = 0x580;

static CO_OBJ Dict[] = {
    { CO_KEY(0x1000, 0, CO_OBJ_D___R_), CO_TUNSIGNED32, (CO_DATA)0 },
    { CO_KEY(0x1001, 0, CO_OBJ____PR_), CO_TUNSIGNED8,  (CO_DATA)&Obj1001 },
    { CO_KEY(0x1014, 0, CO_OBJ__N__RW), CO_TEMCY_ID,    (CO_DATA)&Obj1014 },
    { CO_KEY(0x1017, 0, CO_OBJ_____RW), CO_THB_PROD,    (CO_DATA)&Obj1017 },
    { CO_KEY(0x1018, 0, CO_OBJ_D___R_), CO_TUNSIGNED8,  (CO_DATA)4 },
    { CO_KEY(0x1018, 1, CO_OBJ_D___R_), CO_TUNSIGNED32, (CO_DATA)0 },
    { CO_KEY(0x1018, 2, CO_OBJ_D___R_), CO_TUNSIGNED32, (CO_DATA)0 },
    { CO_KEY(0x1018, 3, CO_OBJ_D___R_), CO_TUNSIGNED32, (CO_DATA)0 },
    { CO_KEY(0x1018, 4, CO_OBJ_D___R_), CO_TUNSIGNED32, (CO_DATA)0 },
    { CO_KEY(0x1200, 0, CO_OBJ_D___R_), CO_TUNSIGNED8,  (CO_DATA)2 },
    { CO_KEY(0x1200, 1, CO_OBJ__N__RW), CO_TSDO_ID,     (CO_DATA)&SdoRx },
    { CO_KEY(0x1200, 2, CO_OBJ__N__RW), CO_TSDO_ID,     (CO_DATA)&SdoTx },
    { CO_KEY(0x2100, 0, CO_OBJ_____RW), CO_TDOMAIN,     (CO_DATA)&Dom },
    CO_OBJ_DICT_ENDMARK
};

static CO_TMR_MEM  TmrMem[8];
static uint8_t     SdoBuf[CO_SSDO_N][CO_SDO_BUF_BYTE];
static CO_EMCY_TBL EmcyTbl[1];
static CO_NODE     Node;

static CO_NODE_SPEC Spec = {
    1, 250000, Dict, sizeof(Dict)/sizeof(Dict[0]), EmcyTbl,
    TmrMem, 8, 1000, &Drv, &SdoBuf[0][0]
};

/* --------------------------------------------------------- bus primitives */
static void Request(uint8_t b0, uint8_t b1, uint8_t b2, uint8_t b3,
                    uint8_t b4, uint8_t b5, uint8_t b6, uint8_t b7)
{
    CO_IF_FRM f;
    f.Identifier = 0x601; f.DLC = 8;
    f.Data[0]=b0; f.Data[1]=b1; f.Data[2]=b2; f.Data[3]=b3;
    f.Data[4]=b4; f.Data[5]=b5; f.Data[6]=b6; f.Data[7]=b7;
    RxQ[0] = f; RxN = 1;
    TxN = 0; TxRd = 0;
    CONodeProcess(&Node);
}

/* ------------------------------------------------------- reference client */
typedef struct {
    uint32_t size;        /* object size                                     */
    uint8_t  blk0;        /* block size in the initiate request              */
    int      lossBlock;   /* number of the block that is disturbed (1..)     */
    uint8_t  lossAck;     /* segments the client confirms for that block     */
    uint8_t  blkNew;      /* block size announced from that ack onwards      */
} SCN;

static int Fail(const char *name, const char *msg, long a, long b)
{
    printf("FAIL [%s]: %s (%ld / %ld)\n", name, msg, a, b);
    return 1;
}

static int RunBlockUpload(const char *name, const SCN *s)
{
    static uint8_t got[DOM_MAX + 1024];
    uint32_t n = 0, i, announced;
    uint8_t  blk = s->blk0;
    int      block = 0, last = 0, rounds = 0;
    uint8_t  lastLen = 0;

    for (i = 0; i < s->size; i++) {
        DomMem[i] = (uint8_t)(1 + (i * 7 + i / 251) % 253);
        DomRef[i] = DomMem[i];
    }
    Dom.Size = s->size; Dom.Offset = 0;

    /* initiate */
    Request(0xA0, 0x00, 0x21, 0x00, blk, 0, 0, 0);
    if (TxN != 1)                      return Fail(name, "no initiate response", TxN, 1);
    if (TxQ[0].Identifier != 0x581)    return Fail(name, "wrong response id", TxQ[0].Identifier, 0x581);
    if ((TxQ[0].Data[0] & 0xE2) != 0xC2) return Fail(name, "bad initiate response", TxQ[0].Data[0], 0xC2);
    announced = (uint32_t)TxQ[0].Data[4] | ((uint32_t)TxQ[0].Data[5] << 8) |
                ((uint32_t)TxQ[0].Data[6] << 16) | ((uint32_t)TxQ[0].Data[7] << 24);
    if (announced != s->size)          return Fail(name, "announced size != object size", announced, s->size);

    /* start upload */
    Request(0xA3, 0, 0, 0, 0, 0, 0, 0);

    while (!last) {
        uint8_t accept = 0, want;
        int     k;

        if (++rounds > 2000)           return Fail(name, "transfer does not terminate", rounds, 0);
        block++;
        if (TxN == 0)                  return Fail(name, "server sent no segment", block, 0);

        /* the client takes at most 'blk' segments of a block, in sequence */
        want = blk;
        if (block == s->lossBlock || block == s->lossBlock + 1) {
            want = s->lossAck;          /* segment lossAck+1 is lost on the bus */
        }
        for (k = 0; k < TxN && accept < want; k++) {
            CO_IF_FRM *f = &TxQ[k];
            if (f->Identifier != 0x581) return Fail(name, "wrong segment id", f->Identifier, 0x581);
            if ((f->Data[0] & 0x7F) != accept + 1)
                                       return Fail(name, "segment sequence number", f->Data[0] & 0x7F, accept + 1);
            if (n + 7 > sizeof(got))   return Fail(name, "server sends more than the object holds", n, s->size);
            memcpy(&got[n], &f->Data[1], 7);
            n += 7;
            accept++;
            if (f->Data[0] & 0x80) { last = 1; break; }
        }
        if (block == s->lossBlock || block == s->lossBlock + 1) {
            blk = s->blkNew;
        }
        Request(0xA2, accept, blk, 0, 0, 0, 0, 0);
    }

    /* end of block upload */
    if (TxN != 1)                      return Fail(name, "no end response", TxN, 1);
    if ((TxQ[0].Data[0] & 0xE3) != 0xC1) return Fail(name, "bad end response", TxQ[0].Data[0], 0xC1);
    lastLen = 7 - ((TxQ[0].Data[0] >> 2) & 7);
    n = n - 7 + lastLen;
    Request(0xA1, 0, 0, 0, 0, 0, 0, 0);

    if (n != s->size)                  return Fail(name, "assembled length != object size", n, s->size);
    for (i = 0; i < s->size; i++) {
        if (got[i] != DomRef[i])       return Fail(name, "assembled byte differs from object at offset", i, got[i]);
    }
    if (memcmp(DomMem, DomRef, s->size) != 0)
                                       return Fail(name, "object content was modified", 0, 0);
    if (CONodeGetErr(&Node) != CO_ERR_NONE)
                                       return Fail(name, "node reports an error", 0, 0);
    printf("ok   [%s]\n", name);
    return 0;
}

int main(void)
{
    int bad = 0, blk, ack, lb;
    CO_ERR err;
    CONodeInit(&Node, &Spec);
    err = CONodeGetErr(&Node);
    if (err != CO_ERR_NONE) { printf("node init failed: %d\n", (int)err); return 3; }
    CONodeStart(&Node);
    static const uint32_t sizes[] = { 15, 20, 26, 28, 29, 35, 57, 100, 300 }; int si;
    for (si = 0; si < 9; si++)
    for (blk = 1; blk <= 7; blk++) {
        for (lb = 1; lb <= 3; lb++) {
            for (ack = 0; ack < blk; ack++) {
                SCN s; char name[80];
                s.size = sizes[si]; s.blk0 = (uint8_t)blk; s.lossBlock = lb; s.lossAck = (uint8_t)ack; s.blkNew = (uint8_t)blk;
                sprintf(name, "size %u blksize %d, block %d: client confirms %d of %d", (unsigned)sizes[si], blk, lb, ack, blk);
                bad += RunBlockUpload(name, &s);
                /* abort a transfer that may still be open so the next scenario starts clean */
                Request(0x80, 0x00, 0x21, 0x00, 0, 0, 0, 0);
            }
        }
    }
    printf("%d scenario(s) failed\n", bad);
    return bad ? 1 : 0;
}
