"""Frozen table: functions an application may call directly (documented user API,
docs/api of the upstream project).  Everything else in the library is internal:
it runs only in the context of its in-tree callers, so caller-derived facts
(parameter aliases, call-site constants) may be used when analysing it."""

PUBLIC_API = set('''
CONodeInit CONodeStart CONodeStop CONodeGetErr CONodeProcess CONodeParaLoad
COTmrCreate COTmrDelete COTmrGetTicks COTmrGetMinTime COTmrService COTmrProcess
CONmtReset CONmtSetMode CONmtGetMode CONmtSetNodeId CONmtGetNodeId CONmtModeDecode CONmtModeEncode
CONmtGetHbEvents CONmtLastHbState
CODictFind CODictRdByte CODictRdWord CODictRdLong CODictWrByte CODictWrWord CODictWrLong
CODictRdBuffer CODictWrBuffer
COObjGetSize COObjRdValue COObjWrValue COObjRdBufStart COObjRdBufCont COObjWrBufStart COObjWrBufCont
COObjTypeUserSDOAbort
COEmcySet COEmcyClr COEmcyGet COEmcyCnt COEmcyReset COEmcyHistReset
COTPdoTrigObj COTPdoTrigPdo
COCSdoFind COCSdoRequestUpload COCSdoRequestDownload
COIfCanSend COIfCanRead COIfCanReset COIfCanClose COIfCanEnable COIfNvmRead COIfNvmWrite
COParaStore COParaRestore
COSyncRestart
COVersion COVerMajor COVerMinor COVerBuild
'''.split())


def is_internal(model, name):
    """True if `name` is only ever entered through in-tree call sites."""
    fn = model.funcs.get(name)
    if fn is None:
        return False
    if name in PUBLIC_API:
        return False
    if name in model.addr_taken:
        return False          # stored in a slot / passed as callback: entered indirectly
    return bool(model.callers.get(name))
