"""Specification tables transcribed from CiA 301 / CiA 305 (DESIGN.md Appendix A). Frozen."""

# --- A.3 SDO abort codes
ABORT = {
    'TBIT': 0x05030000, 'TIMEOUT': 0x05040000, 'CMD': 0x05040001, 'BLK_SIZE': 0x05040002,
    'SEQ_NUM': 0x05040003, 'RD': 0x06010001, 'WR': 0x06010002, 'OBJ': 0x06020000,
    'OBJ_MAP': 0x06040041, 'OBJ_MAP_N': 0x06040042, 'PARA_INCOMP': 0x06040043,
    'HW_ACCESS': 0x06060000, 'LEN_HIGH': 0x06070012, 'LEN_SMALL': 0x06070013,
    'SUB': 0x06090011, 'RANGE': 0x06090030, 'TOS': 0x08000020, 'GENERAL': 0x08000000,
}

# --- A.1 SDO server request decode.  Returns (kind, allowed routes)
#   kind 'MUST'   : every route taken must be in the set
#   kind 'EITHER' : reserved bits set - handler for the canonical form or an abort are both fine
# routes: handler name ; 'ABORT:CMD' = abort 0504 0001h composed by the dispatcher ; 'ABORTREQ' = client abort handling
# A route 'GET:<mode>' (object lookup failed, GetObject composed the abort) is allowed wherever the
# handler needs the object looked up first.
H_GET_WR = ('COSdoGetObject', 2)
H_GET_RD = ('COSdoGetObject', 1)


def sdo_idle(cmd):
    """Expected routing of command byte `cmd` while no block transfer is open."""
    ccs = cmd >> 5
    low = cmd & 0x1F
    if cmd == 0x80:
        return ('MUST', [('COSdoAbortReq',)])
    if ccs == 0:
        return ('MUST', [('COSdoDownloadSegmented',)])
    if ccs == 1:
        e = (cmd >> 1) & 1
        h = 'COSdoDownloadExpedited' if e else 'COSdoInitDownloadSegmented'
        routes = [(H_GET_WR, h), (H_GET_WR,)]
        if cmd & 0x10:
            return ('EITHER', routes + [('ABORT:CMD',)])
        return ('MUST', routes)
    if ccs == 2:
        routes = [(H_GET_RD, 'COSdoUploadExpedited'), (H_GET_RD,)]
        if low == 0:
            return ('MUST', routes)
        return ('EITHER', routes + [('ABORT:CMD',)])
    if ccs == 3:
        if (cmd & 0x0F) == 0:
            return ('MUST', [('COSdoUploadSegmented',)])
        return ('EITHER', [('COSdoUploadSegmented',), ('ABORT:CMD',)])
    if ccs == 4:
        return ('EITHER', [('COSdoAbortReq',), ('ABORT:CMD',)])
    if ccs == 5:
        cs = cmd & 3
        if cs == 0:
            if (cmd & 0x18) == 0:
                return ('MUST', [('COSdoInitUploadBlock',)])
            return ('EITHER', [('COSdoInitUploadBlock',), ('ABORT:CMD',)])
        if cs == 3:
            if cmd == 0xA3:
                return ('MUST', [('COSdoUploadBlock',)])
            return ('EITHER', [('COSdoUploadBlock',), ('ABORT:CMD',)])
        # ack / end without an open block upload
        return ('MUST', [('ABORT:CMD',)])
    if ccs == 6:
        cs = cmd & 1
        if cs == 0:
            routes = [(H_GET_WR, 'COSdoInitDownloadBlock'), (H_GET_WR,)]
            if (cmd & 0x18) == 0:
                return ('MUST', routes)
            return ('EITHER', routes + [('ABORT:CMD',)])
        return ('MUST', [('ABORT:CMD',)])
    return ('MUST', [('ABORT:CMD',)])


def sdo_route(state, cmd):
    """state: BLK_IDLE / BLK_DOWNLOAD / BLK_UPLOAD / BLK_REPEAT / BLK_DNWAIT (names)."""
    if cmd == 0x80:
        return ('MUST', [('COSdoAbortReq',)])
    if state in ('BLK_IDLE', 'BLK_REPEAT'):
        return sdo_idle(cmd)
    if state == 'BLK_DOWNLOAD':
        return ('MUST', [('COSdoDownloadBlock',)])
    if state == 'BLK_DNWAIT':
        if (cmd & 0xE3) == 0xC1:
            return ('MUST', [('COSdoEndDownloadBlock',)])
        if (cmd & 0xE1) == 0xC1:
            return ('EITHER', [('COSdoEndDownloadBlock',), ('COSdoDownloadBlock',), ('ABORT:CMD',)])
        return ('MUST', [('COSdoDownloadBlock',)])
    if state == 'BLK_UPLOAD':
        if cmd == 0xA1:
            return ('MUST', [('COSdoEndUploadBlock',)])
        if cmd == 0xA2:
            return ('MUST', [('COSdoAckUploadBlock',)])
        if (cmd & 0xE3) == 0xA2:
            return ('EITHER', [('COSdoAckUploadBlock',), ('ABORT:CMD',)])
        if (cmd & 0xE3) == 0xA1:
            return ('EITHER', [('COSdoEndUploadBlock',), ('ABORT:CMD',)])
        return ('MUST', [('ABORT:CMD',)])
    raise ValueError(state)


# --- A.4 NMT
NMT_CMD = {1: ('mode', 'CO_OPERATIONAL'), 2: ('mode', 'CO_STOP'), 128: ('mode', 'CO_PREOP'),
           129: ('reset', 'CO_RESET_NODE'), 130: ('reset', 'CO_RESET_COM')}
NMT_ALLOWED = {
    'CO_INVALID': set(),
    'CO_INIT': set(['BOOT']),
    'CO_PREOP': set(['SDO', 'SYNC', 'TIME', 'EMCY', 'NMT']),
    'CO_OPERATIONAL': set(['PDO', 'SDO', 'SYNC', 'TIME', 'EMCY', 'NMT']),
    'CO_STOP': set(['NMT']),
}
NMT_HB_CODE = {'CO_INIT': 0, 'CO_PREOP': 127, 'CO_OPERATIONAL': 5, 'CO_STOP': 4}

# --- A.5 LSS (CiA 305): command specifier -> (allowed LSS modes, kind)
LSS_WAIT, LSS_CONF = 'CO_LSS_WAIT', 'CO_LSS_CONF'
LSS_SERVICES = {
    4: (set([LSS_WAIT, LSS_CONF]), 'switch state global'),
    64: (set([LSS_WAIT]), 'switch state selective: vendor'),
    65: (set([LSS_WAIT]), 'switch state selective: product'),
    66: (set([LSS_WAIT]), 'switch state selective: revision'),
    67: (set([LSS_WAIT]), 'switch state selective: serial'),
    19: (set([LSS_CONF]), 'configure bit timing'),
    17: (set([LSS_CONF]), 'configure node id'),
    21: (set([LSS_CONF]), 'activate bit timing'),
    23: (set([LSS_CONF]), 'store configuration'),
    90: (set([LSS_CONF]), 'inquire vendor'),
    91: (set([LSS_CONF]), 'inquire product'),
    92: (set([LSS_CONF]), 'inquire revision'),
    93: (set([LSS_CONF]), 'inquire serial'),
    94: (set([LSS_CONF]), 'inquire node id'),
    70: (set([LSS_WAIT, LSS_CONF]), 'identify remote slave: vendor'),
    71: (set([LSS_WAIT, LSS_CONF]), 'identify remote slave: product'),
    72: (set([LSS_WAIT, LSS_CONF]), 'identify remote slave: revision low'),
    73: (set([LSS_WAIT, LSS_CONF]), 'identify remote slave: revision high'),
    74: (set([LSS_WAIT, LSS_CONF]), 'identify remote slave: serial low'),
    75: (set([LSS_WAIT, LSS_CONF]), 'identify remote slave: serial high'),
    76: (set([LSS_WAIT, LSS_CONF]), 'identify non-configured remote slave'),
}

# --- A.6 signatures
SIG_SAVE = 0x65766173
SIG_LOAD = 0x64616F6C
