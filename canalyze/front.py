"""Front end: clang -ast-dump=json per translation unit -> compact typed IR.

Nothing here looks at source text for a verdict; the only text read is the
CMake unit list (to know what the build covers).  Every run re-parses /repo.
"""
import json, os, re, subprocess, sys, hashlib
from concurrent.futures import ProcessPoolExecutor

REPO = os.environ.get('VERIF_REPO', '/repo')
SRC = os.path.join(REPO, 'src')
INC_DIRS = ['config', 'core', 'hal', 'object/basic', 'object/cia301',
            'service/cia301', 'service/cia305']


class AnalysisBroken(Exception):
    """Raised whenever the analysis cannot soundly proceed (exit code 2)."""


# --------------------------------------------------------------------------
# unit list: what the build covers
# --------------------------------------------------------------------------
def unit_list():
    cm = os.path.join(SRC, 'CMakeLists.txt')
    try:
        txt = open(cm).read()
    except OSError as e:
        raise AnalysisBroken('cannot read %s: %s' % (cm, e))
    m = re.search(r'target_sources\s*\(\s*canopen-stack(.*?)\n\)', txt, re.S)
    if not m:
        raise AnalysisBroken('target_sources(canopen-stack) not found in src/CMakeLists.txt')
    listed = []
    for line in m.group(1).splitlines():
        line = line.split('#', 1)[0].strip()
        if line.endswith('.c'):
            listed.append(line)
    incs = []
    m2 = re.search(r'target_include_directories\s*\(\s*canopen-stack(.*?)\n\)', txt, re.S)
    if m2:
        for line in m2.group(1).splitlines():
            line = line.split('#', 1)[0].strip()
            if line and line not in ('PUBLIC', 'PRIVATE', 'INTERFACE'):
                incs.append(line)
    if not incs:
        incs = list(INC_DIRS)
    # every .c under src/ outside driver/ must be listed, every listed must exist
    on_disk = []
    for root, dirs, files in os.walk(SRC):
        rel = os.path.relpath(root, SRC)
        if rel.startswith('driver'):
            continue
        for f in files:
            if f.endswith('.c'):
                on_disk.append(os.path.normpath(os.path.join(rel, f)))
    missing = [u for u in listed if not os.path.exists(os.path.join(SRC, u))]
    unlisted = [u for u in on_disk if u not in listed]
    if missing:
        raise AnalysisBroken('units listed in CMakeLists.txt but missing: %s' % missing)
    if unlisted:
        raise AnalysisBroken('units under src/ not in the build list (not analysed): %s' % unlisted)
    return sorted(listed), incs


# --------------------------------------------------------------------------
# IR node
# --------------------------------------------------------------------------
class X(object):
    """One expression / statement node of the compact IR.

    k      kind: bin un call mem ref idx cast int str sizeof cond init
                 compound if while do for ret break cont switch case default
                 decl var null other
    op     operator / cast kind
    ty     spelled type, cty canonical (desugared) type
    kids   children
    name   identifier (ref, mem, var)
    ref    declaration id (locals/params) ; refk declaration kind
    val    integer value (int, enum constant refs, sizeof, ConstantExpr)
    field  (record, field) for mem
    arrow  bool for mem
    expl   bool for cast (explicit C style cast)
    line   line in the *expansion* file ; file
    mac    (file,line) of the macro body the node was spelled in, or None
    """
    __slots__ = ('k', 'op', 'ty', 'cty', 'kids', 'name', 'ref', 'refk', 'val',
                 'field', 'arrow', 'expl', 'line', 'file', 'mac', 'uid', 'col')

    def __init__(self, k):
        self.k = k
        self.op = None
        self.ty = None
        self.cty = None
        self.kids = []
        self.name = None
        self.ref = None
        self.refk = None
        self.val = None
        self.field = None
        self.arrow = False
        self.expl = False
        self.line = 0
        self.file = None
        self.mac = None
        self.uid = None
        self.col = 0

    def __repr__(self):
        from .ir import show
        return '<X %s>' % show(self)


class Func(object):
    __slots__ = ('name', 'file', 'line', 'static', 'params', 'body', 'rty',
                 'unit', 'weak', 'endline')

    def __init__(self):
        self.weak = False


class TU(object):
    def __init__(self, unit):
        self.unit = unit
        self.funcs = {}       # name -> Func (with body)
        self.protos = {}      # name -> (rty, [param types])
        self.records = {}     # record name -> [(field, ty, cty)]
        self.typedefs = {}    # name -> canonical type
        self.rec_alias = {}   # struct tag -> typedef name
        self.enums = {}       # enumerator -> int
        self.enum_of = {}     # enumerator -> enum tag
        self.globals = {}     # name -> (ty, cty, init X or None, file, line, static)
        self.unmodelled = []  # (func, kind, line)


# --------------------------------------------------------------------------
# location decoding (clang's JSON dumper delta-encodes file/line)
# --------------------------------------------------------------------------
class _Loc(object):
    def __init__(self):
        self.file = None
        self.line = 0

    def bare(self, d):
        if 'file' in d:
            self.file = d['file']
        if 'line' in d:
            self.line = d['line']
        d['_f'] = self.file
        d['_l'] = self.line

    def walk(self, n):
        # in document order; a dict with 'offset' is a bare location
        stack = [n]
        # iterative in-order traversal (must follow emission order)
        # use explicit recursion via generator-free approach
        self._walk(n)

    def _walk(self, n):
        if isinstance(n, dict):
            if 'offset' in n and ('col' in n or 'line' in n):
                self.bare(n)
                return
            for k, v in n.items():
                if k == 'includedFrom':
                    continue
                if isinstance(v, (dict, list)):
                    self._walk(v)
        else:
            for v in n:
                if isinstance(v, (dict, list)):
                    self._walk(v)


def _locof(n):
    """(file, line, macro) for a JSON node, from range.begin (or loc)."""
    r = n.get('range')
    b = None
    if r:
        b = r.get('begin')
    if 'loc' in n and n['loc']:
        b = n['loc']
    if not b:
        return (None, 0, None, 0)
    if 'expansionLoc' in b:
        e = b['expansionLoc']
        s = b.get('spellingLoc', {})
        return (e.get('_f'), e.get('_l', 0), (s.get('_f'), s.get('_l', 0)), e.get('col', 0))
    return (b.get('_f'), b.get('_l', 0), None, b.get('col', 0))


def _endline(n):
    r = n.get('range')
    if not r:
        return 0
    e = r.get('end') or {}
    if 'expansionLoc' in e:
        e = e['expansionLoc']
    return e.get('_l', 0)


# --------------------------------------------------------------------------
# JSON -> IR
# --------------------------------------------------------------------------
_STRIP_CASTS = {'LValueToRValue', 'NoOp', 'FunctionToPointerDecay',
                'ArrayToPointerDecay', 'BuiltinFnToFnPtr'}

_STMT = {'CompoundStmt': 'compound', 'IfStmt': 'if', 'WhileStmt': 'while',
         'DoStmt': 'do', 'ForStmt': 'for', 'ReturnStmt': 'ret',
         'BreakStmt': 'break', 'ContinueStmt': 'cont', 'SwitchStmt': 'switch',
         'CaseStmt': 'case', 'DefaultStmt': 'default', 'DeclStmt': 'decl',
         'NullStmt': 'null'}

_REFUSED = {'GotoStmt', 'LabelStmt', 'IndirectGotoStmt', 'GCCAsmStmt',
            'MSAsmStmt', 'AddrLabelExpr', 'StmtExpr'}


class _Conv(object):
    def __init__(self, tu):
        self.tu = tu
        self.fields = {}     # FieldDecl id -> (record, field)
        self.curfn = None
        self.n = 0

    def ty(self, n, x):
        t = n.get('type') or {}
        x.ty = t.get('qualType')
        x.cty = t.get('desugaredQualType', x.ty)

    def conv(self, n):
        k = n.get('kind')
        f, l, mac, col = _locof(n)
        if k == 'ParenExpr':
            return self.conv(n['inner'][0])
        if k == 'ConstantExpr':
            inner = self.conv(n['inner'][0])
            if 'value' in n and inner.val is None:
                try:
                    inner.val = int(n['value'])
                except ValueError:
                    pass
            return inner
        if k == 'ImplicitCastExpr':
            ck = n.get('castKind')
            child = self.conv(n['inner'][0])
            if ck in _STRIP_CASTS:
                return child
            x = X('cast')
            x.op = ck
            x.expl = False
            self.ty(n, x)
            x.kids = [child]
            x.file, x.line, x.mac, x.col = f, l, mac, col
            return x
        x = X('other')
        x.file, x.line, x.mac, x.col = f, l, mac, col
        self.n += 1
        x.uid = self.n
        self.ty(n, x)
        inner = [i for i in n.get('inner', []) if i]
        if k in _REFUSED:
            self.tu.unmodelled.append((self.curfn, k, l))
            x.k = 'other'
            x.op = k
            return x
        if k in _STMT:
            x.k = _STMT[k]
            if k == 'IfStmt':
                # children: cond, then, [else]; hasElse flag
                x.kids = [self.conv(i) for i in inner]
                if n.get('hasInit') or n.get('hasVar'):
                    self.tu.unmodelled.append((self.curfn, 'IfStmt-init', l))
            elif k == 'ForStmt':
                # clang prints 5 children: init, condvar, cond, inc, body ({} when absent)
                raw = n.get('inner', [])
                kids = []
                for i in raw:
                    if not i or not i.get('kind'):
                        kids.append(None)
                    else:
                        kids.append(self.conv(i))
                if len(kids) != 5:
                    self.tu.unmodelled.append((self.curfn, 'ForStmt-shape', l))
                x.kids = kids
            elif k == 'DeclStmt':
                for i in inner:
                    if i.get('kind') == 'VarDecl':
                        v = X('var')
                        v.file, v.line, v.mac, v.col = _locof(i)
                        v.name = i.get('name')
                        v.ref = i.get('id')
                        self.ty(i, v)
                        if i.get('storageClass') == 'static':
                            v.op = 'static'
                        ii = [j for j in i.get('inner', []) if j and j.get('kind') and not j['kind'].endswith('Comment')]
                        if 'init' in i and ii:
                            v.kids = [self.conv(ii[-1])]
                        x.kids.append(v)
                    else:
                        # typedef/record inside a function: ignore (no code)
                        pass
            elif k == 'CaseStmt':
                x.kids = [self.conv(i) for i in inner]
            else:
                x.kids = [self.conv(i) for i in inner]
            return x
        if k == 'BinaryOperator' or k == 'CompoundAssignOperator':
            x.k = 'bin'
            x.op = n.get('opcode')
            x.kids = [self.conv(i) for i in inner]
            return x
        if k == 'UnaryOperator':
            x.k = 'un'
            x.op = n.get('opcode')
            if n.get('isPostfix'):
                x.op = 'post' + x.op
            x.kids = [self.conv(i) for i in inner]
            return x
        if k == 'CallExpr':
            x.k = 'call'
            x.kids = [self.conv(i) for i in inner]
            return x
        if k == 'MemberExpr':
            x.k = 'mem'
            x.name = n.get('name')
            x.arrow = bool(n.get('isArrow'))
            x.field = self.fields.get(n.get('referencedMemberDecl'), (None, x.name))
            x.kids = [self.conv(i) for i in inner]
            return x
        if k == 'DeclRefExpr':
            x.k = 'ref'
            rd = n.get('referencedDecl', {})
            x.name = rd.get('name')
            x.refk = rd.get('kind')
            x.ref = rd.get('id')
            if x.refk == 'EnumConstantDecl':
                x.val = self.tu.enums.get(x.name)
            return x
        if k == 'ArraySubscriptExpr':
            x.k = 'idx'
            x.kids = [self.conv(i) for i in inner]
            return x
        if k == 'CStyleCastExpr':
            x.k = 'cast'
            x.op = n.get('castKind')
            x.expl = True
            x.kids = [self.conv(i) for i in inner]
            return x
        if k == 'IntegerLiteral':
            x.k = 'int'
            x.val = int(n['value'])
            return x
        if k == 'CharacterLiteral':
            x.k = 'int'
            x.val = int(n['value'])
            return x
        if k == 'StringLiteral':
            x.k = 'str'
            x.name = n.get('value')
            return x
        if k == 'UnaryExprOrTypeTraitExpr':
            x.k = 'sizeof'
            x.op = n.get('name')
            at = n.get('argType')
            if at:
                x.name = at.get('desugaredQualType', at.get('qualType'))
            x.kids = [self.conv(i) for i in inner]
            return x
        if k == 'ConditionalOperator':
            x.k = 'cond'
            x.kids = [self.conv(i) for i in inner]
            return x
        if k == 'InitListExpr':
            x.k = 'init'
            # array fillers appear as 'array_filler' key, ignore
            x.kids = [self.conv(i) for i in inner]
            return x
        if k == 'ImplicitValueInitExpr':
            x.k = 'int'
            x.val = 0
            return x
        if k == 'CompoundLiteralExpr':
            x.k = 'other'
            x.op = k
            x.kids = [self.conv(i) for i in inner]
            return x
        if k == 'FloatingLiteral':
            x.k = 'other'
            x.op = k
            return x
        # anything else: keep as opaque node with converted children
        x.k = 'other'
        x.op = k
        x.kids = [self.conv(i) for i in inner if i.get('kind')]
        self.tu.unmodelled.append((self.curfn, k, l))
        return x


def _noncomment(inner):
    return [i for i in inner if i and i.get('kind') and not i['kind'].endswith('Comment')]


def extract(unit, js):
    """js: parsed JSON of one TU -> TU object."""
    _Loc()._walk(js)
    tu = TU(unit)
    cv = _Conv(tu)
    tops = js.get('inner', [])
    # pass 1: records, enums, typedefs
    def do_record(d, outer=None):
        name = d.get('name')
        if not d.get('completeDefinition'):
            return
        flds = []
        for i in d.get('inner', []):
            if i.get('kind') == 'FieldDecl':
                t = i.get('type', {})
                flds.append((i.get('name'), t.get('qualType'), t.get('desugaredQualType', t.get('qualType'))))
                cv.fields[i['id']] = [name or d['id'], i.get('name')]
            elif i.get('kind') == 'RecordDecl':
                do_record(i)
        tu.records[name or d['id']] = flds
    for d in tops:
        k = d.get('kind')
        if k == 'RecordDecl':
            do_record(d)
        elif k == 'EnumDecl':
            cur = -1
            for i in d.get('inner', []):
                if i.get('kind') == 'EnumConstantDecl':
                    val = None
                    for j in i.get('inner', []):
                        if j.get('kind') == 'ConstantExpr' and 'value' in j:
                            val = int(j['value'])
                        elif j.get('kind') in ('IntegerLiteral',) and 'value' in j:
                            val = int(j['value'])
                    if val is None:
                        nc = _noncomment(i.get('inner', []))
                        if nc:
                            # expression without folded value: fold later
                            e = cv.conv(nc[0])
                            from .ir import const_eval
                            val = const_eval(e, tu)
                            if val is None:
                                raise AnalysisBroken('cannot fold enumerator %s' % i.get('name'))
                        else:
                            val = cur + 1
                    cur = val
                    tu.enums[i['name']] = val
                    tu.enum_of[i['name']] = d.get('name')
        elif k == 'TypedefDecl':
            t = d.get('type', {})
            tu.typedefs[d['name']] = t.get('desugaredQualType', t.get('qualType'))
            for i in d.get('inner', []):
                if i.get('kind') == 'ElaboratedType':
                    od = i.get('ownedTagDecl')
                    if od and od.get('kind') == 'RecordDecl':
                        tu.rec_alias[od.get('name') or od.get('id')] = d['name']
    # rename records by typedef alias (CO_NMT_T -> CO_NMT)
    for fid, rf in cv.fields.items():
        rf[0] = tu.rec_alias.get(rf[0], rf[0])
        cv.fields[fid] = tuple(rf)
    tu.records = dict((tu.rec_alias.get(k, k), v) for k, v in tu.records.items())
    # pass 2: globals and functions
    for d in tops:
        k = d.get('kind')
        if k == 'VarDecl':
            f, l, mac, col = _locof(d)
            t = d.get('type', {})
            init = None
            ii = _noncomment(d.get('inner', []))
            if 'init' in d and ii:
                cv.curfn = '<global %s>' % d.get('name')
                init = cv.conv(ii[-1])
            prev = tu.globals.get(d['name'])
            if prev is None or init is not None:
                tu.globals[d['name']] = (t.get('qualType'), t.get('desugaredQualType', t.get('qualType')),
                                         init, f, l, d.get('storageClass') == 'static')
        elif k == 'FunctionDecl':
            inner = d.get('inner', [])
            body = None
            params = []
            weak = False
            for i in inner:
                ik = i.get('kind')
                if ik == 'ParmVarDecl':
                    t = i.get('type', {})
                    params.append((i.get('name'), t.get('qualType'),
                                   t.get('desugaredQualType', t.get('qualType')), i.get('id')))
                elif ik == 'CompoundStmt':
                    body = i
                elif ik == 'WeakAttr':
                    weak = True
            qt = d.get('type', {}).get('qualType', '')
            rty = qt.split('(')[0].strip()
            if body is None:
                tu.protos.setdefault(d['name'], (rty, [p[1] for p in params], weak))
                continue
            f, l, mac, col = _locof(d)
            fn = Func()
            fn.name = d['name']
            fn.file = f
            fn.line = l
            fn.endline = _endline(d)
            fn.static = d.get('storageClass') == 'static'
            fn.params = params
            fn.rty = rty
            fn.unit = unit
            fn.weak = weak
            cv.curfn = fn.name
            fn.body = cv.conv(body)
            tu.funcs[fn.name] = fn
    return tu


def _parse_unit(args):
    unit, incs, defs = args
    path = os.path.join(SRC, unit)
    cmd = ['clang', '-std=c99', '-fsyntax-only', '-Wno-everything']
    for i in incs:
        cmd.append('-I' + os.path.join(SRC, i))
    for d in defs:
        cmd.append('-D' + d)
    cmd += ['-Xclang', '-ast-dump=json', path]
    p = subprocess.run(cmd, stdout=subprocess.PIPE, stderr=subprocess.PIPE)
    if p.returncode != 0:
        return (unit, None, p.stderr.decode('utf-8', 'replace')[-2000:])
    try:
        js = json.loads(p.stdout)
    except ValueError as e:
        return (unit, None, 'json: %s' % e)
    sys.setrecursionlimit(20000)
    try:
        tu = extract(unit, js)
    except AnalysisBroken as e:
        return (unit, None, 'extract: %s' % e)
    return (unit, tu, None)


def parse_all(defs=(), jobs=None, units=None, extra_files=()):
    """Parse every unit of the library (and optional extra absolute files).
    Returns dict unit -> TU."""
    listed, incs = unit_list()
    if units is not None:
        listed = [u for u in listed if u in units]
    work = [(u, incs, tuple(defs)) for u in listed]
    for xf in extra_files:
        work.append((xf, incs, tuple(defs)))
    jobs = jobs or min(16, os.cpu_count() or 4)
    sys.setrecursionlimit(20000)
    out = {}
    with ProcessPoolExecutor(max_workers=jobs) as ex:
        for unit, tu, err in ex.map(_parse_unit, work):
            if tu is None:
                raise AnalysisBroken('unit %s failed to parse: %s' % (unit, err))
            out[unit] = tu
    return out


def source_digest():
    """sha256 over every file under src/ (recorded in evidence)."""
    h = hashlib.sha256()
    n = 0
    for root, dirs, files in sorted(os.walk(SRC)):
        dirs.sort()
        for f in sorted(files):
            if f.endswith(('.c', '.h', '.txt')):
                p = os.path.join(root, f)
                h.update(p.encode())
                h.update(open(p, 'rb').read())
                n += 1
    return h.hexdigest(), n
