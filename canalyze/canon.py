"""Canonical access paths with local must-alias resolution.

`wp = &pdo[num]; wp->EvTmr`  and  `pdo[num].EvTmr`  get the same canonical
string; `nmt = &node->Nmt; nmt->Tmr`  ==  `node->Nmt.Tmr`.
An alias is used only if its definition is the unique reaching definition and
every variable the definition mentions has the same reaching definitions at the
definition and at the use (not stale)."""
from .ir import strip, const_eval, show, walk


class Canon(object):
    def __init__(self, model, fname):
        self.m = model
        self.fname = fname
        self.g = model.cfg(fname)
        self.defs = model.defs_of(fname)
        self._cache = {}
        self.index_eval = None     # optional hook: (index expr, node id) -> int or None
        # parameter aliases inferred from the call sites of internal functions:
        # param decl id -> (canonical string in terms of another parameter, that parameter's decl id)
        self.palias = getattr(model, 'palias', {}).get(fname, {})
        self.assigned = set()
        fn = model.funcs[fname]
        for n in walk(fn.body):
            if n.k == 'bin' and n.op.endswith('=') and n.op not in ('==', '!=', '<=', '>='):
                l = strip(n.kids[0])
                if l.k == 'ref':
                    self.assigned.add(l.ref)
            elif n.k == 'un' and n.op in ('++', '--', 'post++', 'post--', '&'):
                l = strip(n.kids[0])
                if l.k == 'ref':
                    self.assigned.add(l.ref)

    def _fresh(self, use_nid, def_node, rhs):
        """variables in rhs have identical reaching defs at def and at use"""
        for n in walk(rhs):
            if n.k == 'ref' and n.refk in ('VarDecl', 'ParmVarDecl'):
                a = self.defs.defs(def_node.id, n.ref)
                b = self.defs.defs(use_nid, n.ref)
                if a != b:
                    return False
        return True

    def canon(self, nid, x, depth=0):
        """-> (string, frozenset(var decl ids), frozenset(fields), isaddr)
        or None when x is not a path expression."""
        x = strip(x)
        if x is None or depth > 8:
            return None
        k = x.k
        if k == 'ref':
            if x.refk == 'VarDecl':
                u = self.defs.unique_def(nid, x.ref)
                if u is not None:
                    dn, rhs = u
                    r = strip(rhs)
                    # follow only pointer-valued aliases: &Q, or another path expression of pointer type
                    if r is not None and (x.cty or '').rstrip().endswith('*') and self._fresh(nid, dn, rhs):
                        if r.k in ('un', 'ref', 'mem', 'idx'):
                            c = self.canon(dn.id, r, depth + 1)
                            if c is not None and not (r.k == 'ref' and r.refk not in ('VarDecl', 'ParmVarDecl')):
                                # the canonical string no longer mentions the alias variable
                                return (c[0], c[1], c[2], c[3])
                return (x.name, frozenset([x.ref]), frozenset(), False)
            if x.refk == 'ParmVarDecl':
                al = self.palias.get(x.ref)
                if al is not None and x.ref not in self.assigned:
                    return (al[0], frozenset([x.ref, al[1]]), frozenset(), False)
                return (x.name, frozenset([x.ref]), frozenset(), False)
            return None
        if k == 'mem':
            b = self.canon(nid, x.kids[0], depth)
            if b is None:
                return None
            s, v, f, addr = b
            f = f | frozenset([x.field])
            if x.arrow:
                if addr:
                    return (s + '.' + x.name, v, f, False)
                return (s + '->' + x.name, v, f, False)
            return (s + '.' + x.name, v, f, False)
        if k == 'idx':
            b = self.canon(nid, x.kids[0], depth)
            if b is None:
                return None
            s, v, f, addr = b
            i = strip(x.kids[1])
            c = const_eval(i)
            if c is None and self.index_eval is not None:
                c = self.index_eval(i, nid)
            if c is not None:
                return ('%s[%d]' % (s, c), v, f, False)
            ic = self.canon_val(nid, i)
            return ('%s[%s]' % (s, ic[0]), v | ic[1], f | ic[2], False)
        if k == 'un' and x.op == '&':
            b = self.canon(nid, x.kids[0], depth)
            if b is None:
                return None
            return (b[0], b[1], b[2], True)
        if k == 'un' and x.op == '*':
            b = self.canon(nid, x.kids[0], depth)
            if b is None:
                return None
            if b[3]:
                return (b[0], b[1], b[2], False)
            return ('*' + b[0], b[1], b[2], False)
        return None

    def canon_val(self, nid, x):
        """canonical text of an arbitrary (index) expression + its dependencies"""
        vs = set()
        fs = set()
        for n in walk(x):
            if n.k == 'ref' and n.refk in ('VarDecl', 'ParmVarDecl'):
                vs.add(n.ref)
            elif n.k == 'mem':
                fs.add(n.field)
        return (show(strip(x)), frozenset(vs), frozenset(fs))


def infer_param_aliases(model, is_internal, rounds=3):
    """For internal functions: parameter i is an alias of `<param j><rest>` when every
    in-tree call site passes canon(actual_i) == canon(actual_j) + rest (rest starts with -> or .).
    Stored as model.palias[fname][declid_i] = (string, declid_j)."""
    model.palias = {}
    for _ in range(rounds):
        new = {}
        for fname, fn in model.funcs.items():
            if not is_internal(model, fname) or len(fn.params) < 2:
                continue
            sites = model.callers.get(fname, [])
            if not sites:
                continue
            cand = None
            for (gname, call) in sites:
                cn = Canon(model, gname)
                nid = model.node_of(gname, call)
                acts = []
                for a in call.kids[1:]:
                    c = cn.canon(nid, a) if nid is not None else None
                    acts.append(c)
                here = {}
                for i, ci in enumerate(acts):
                    if ci is None or ci[3] or i >= len(fn.params):
                        continue
                    if not (fn.params[i][2] or '').rstrip().endswith('*'):
                        continue
                    for j, cj in enumerate(acts):
                        if i == j or cj is None or j >= len(fn.params):
                            continue
                        sj = cj[0]
                        if cj[3]:
                            # &X passed as j : i == X.f...  -> pj->f...
                            if ci[0].startswith(sj + '.'):
                                here[i] = (j, '->' + ci[0][len(sj) + 1:])
                        elif ci[0].startswith(sj + '->'):
                            here[i] = (j, ci[0][len(sj):])
                if cand is None:
                    cand = here
                else:
                    cand = dict((k, v) for k, v in cand.items() if here.get(k) == v)
                if not cand:
                    break
            if cand:
                d = {}
                for i, (j, rest) in cand.items():
                    d[fn.params[i][3]] = (fn.params[j][0] + rest, fn.params[j][3])
                new[fname] = d
        if new == model.palias:
            break
        model.palias = new
    return model.palias


import re as _re
_IDENT = _re.compile(r'(?<![\w.>])([A-Za-z_]\w*)(->)?')


def translate(model, callee, call, caller_canon, caller_nid, pstr):
    """Re-express the callee-side canonical path `pstr` (over callee parameters) in the
    caller's terms at call site `call`.  Returns (string, deps) or None."""
    fn = model.funcs[callee]
    pidx = dict((prm[0], i) for i, prm in enumerate(fn.params))
    ccanon = Canon(model, callee)
    deps = set()
    fail = [False]

    def repl(mo):
        name, arrow = mo.group(1), mo.group(2)
        if name not in pidx:
            fail[0] = True
            return mo.group(0)
        i = pidx[name]
        if fn.params[i][3] in ccanon.assigned or i >= len(call.kids) - 1:
            fail[0] = True
            return mo.group(0)
        actual = call.kids[1 + i]
        if (fn.params[i][2] or '').rstrip().endswith('*'):
            c = caller_canon.canon(caller_nid, actual)
            if c is None:
                fail[0] = True
                return mo.group(0)
            deps.update(c[1])
            if arrow:
                return c[0] + ('.' if c[3] else '->')
            if c[3]:
                fail[0] = True
                return mo.group(0)
            return c[0]
        # integer parameter used as index
        a = strip(actual)
        cv = const_eval(a, model)
        if cv is not None:
            return str(cv) + (arrow or '')
        cvv = caller_canon.canon_val(caller_nid, a)
        deps.update(cvv[1])
        return cvv[0] + (arrow or '')
    out = _IDENT.sub(repl, pstr)
    if fail[0]:
        return None
    return (out, frozenset(deps))
