"""IR helpers: printing, constant folding, canonical access paths, type facts."""
import re

_PREC = None


def show(x, depth=0):
    """Readable C-like rendering of an IR expression/statement (for reports)."""
    if x is None:
        return ''
    k = x.k
    if k == 'int':
        v = x.val
        if v is not None and (v > 255 or v < -255):
            return hex(v)
        return str(v)
    if k == 'ref':
        return x.name or '?'
    if k == 'mem':
        return '%s%s%s' % (show(x.kids[0]), '->' if x.arrow else '.', x.name)
    if k == 'idx':
        return '%s[%s]' % (show(x.kids[0]), show(x.kids[1]))
    if k == 'cast':
        if x.expl:
            return '(%s)%s' % (x.ty, show(x.kids[0]))
        return show(x.kids[0])
    if k == 'bin':
        return '(%s %s %s)' % (show(x.kids[0]), x.op, show(x.kids[1]))
    if k == 'un':
        if x.op.startswith('post'):
            return '%s%s' % (show(x.kids[0]), x.op[4:])
        return '%s%s' % (x.op, show(x.kids[0]))
    if k == 'call':
        return '%s(%s)' % (show(x.kids[0]), ', '.join(show(a) for a in x.kids[1:]))
    if k == 'str':
        return '"%s"' % (x.name,)
    if k == 'sizeof':
        return 'sizeof(%s)' % (x.name or (show(x.kids[0]) if x.kids else '?'))
    if k == 'cond':
        return '(%s ? %s : %s)' % tuple(show(i) for i in x.kids)
    if k == 'init':
        return '{%s}' % ', '.join(show(i) for i in x.kids)
    if k == 'ret':
        return 'return %s' % (show(x.kids[0]) if x.kids else '')
    if k == 'var':
        return '%s %s%s' % (x.ty, x.name, (' = ' + show(x.kids[0])) if x.kids else '')
    if k == 'decl':
        return '; '.join(show(i) for i in x.kids)
    if k in ('break', 'cont', 'null'):
        return k
    if k == 'if':
        return 'if (%s) ...' % show(x.kids[0])
    if k == 'while':
        return 'while (%s) ...' % show(x.kids[0])
    if k == 'do':
        return 'do ... while (%s)' % show(x.kids[1])
    if k == 'for':
        return 'for (%s; %s; %s) ...' % tuple(show(i) for i in x.kids[:1] + x.kids[2:4])
    if k == 'compound':
        return '{...}'
    if k == 'other':
        return '<%s>' % x.op
    return '<%s>' % k


def walk(x):
    """Pre-order generator over an IR subtree."""
    if x is None:
        return
    stack = [x]
    while stack:
        n = stack.pop()
        if n is None:
            continue
        yield n
        stack.extend(reversed(n.kids))


def strip(x):
    """Remove casts (implicit and explicit) from the top of an expression."""
    while x is not None and x.k == 'cast':
        x = x.kids[0]
    return x


def strip_impl(x):
    while x is not None and x.k == 'cast' and not x.expl:
        x = x.kids[0]
    return x


# ------------------------------------------------------------------ types
_INT_TYPES = {
    'char': (8, True), 'signed char': (8, True), 'unsigned char': (8, False),
    'short': (16, True), 'unsigned short': (16, False),
    'int': (32, True), 'unsigned int': (32, False),
    'long': (64, True), 'unsigned long': (64, False),
    'long long': (64, True), 'unsigned long long': (64, False),
    '_Bool': (1, False),
}


def int_type(cty):
    """(bits, signed) for an integer / enum canonical type, else None."""
    if cty is None:
        return None
    t = cty.replace('const ', '').replace('volatile ', '').strip()
    if t in _INT_TYPES:
        return _INT_TYPES[t]
    if t.startswith('enum '):
        return (32, False)
    return None


def type_range(cty):
    it = int_type(cty)
    if it is None:
        return None
    bits, signed = it
    if signed:
        return (-(1 << (bits - 1)), (1 << (bits - 1)) - 1)
    return (0, (1 << bits) - 1)


def is_pointer(cty):
    return cty is not None and (cty.rstrip().endswith('*') or '(*)' in cty or cty.rstrip().endswith('*const'))


_ARR = re.compile(r'\[(\d+)\]')


def array_extent(cty):
    """First (outermost) constant extent of an array type string, else None."""
    if cty is None:
        return None
    m = _ARR.search(cty)
    if m:
        return int(m.group(1))
    return None


# ------------------------------------------------------------------ constants
def const_eval(x, env=None):
    """Fold an integer constant expression; None when not constant.
    env may provide .enums (name->value)."""
    if x is None:
        return None
    k = x.k
    if k == 'int':
        return x.val
    if x.val is not None and k in ('ref', 'sizeof'):
        return x.val
    if k == 'ref':
        if x.refk == 'EnumConstantDecl' and env is not None:
            return getattr(env, 'enums', {}).get(x.name)
        if env is not None and x.refk in ('VarDecl', 'ParmVarDecl'):
            return getattr(env, 'vars', {}).get(x.ref)
        return None
    if k == 'cast':
        v = const_eval(x.kids[0], env)
        if v is None:
            return None
        it = int_type(x.cty)
        if it is None:
            # pointer cast of constant (null pointer)
            return v
        bits, signed = it
        v &= (1 << bits) - 1
        if signed and v >= (1 << (bits - 1)):
            v -= (1 << bits)
        return v
    if k == 'un':
        v = const_eval(x.kids[0], env)
        if v is None:
            return None
        if x.op == '-':
            r = -v
        elif x.op == '+':
            r = v
        elif x.op == '~':
            r = ~v
        elif x.op == '!':
            r = 0 if v else 1
        else:
            return None
        return _wrap(r, x.cty)
    if k == 'bin':
        if x.op in ('=', '+=', '-=', '*=', '/=', '|=', '&=', '^=', '<<=', '>>=', '%=', ','):
            return None
        a = const_eval(x.kids[0], env)
        if x.op == '&&':
            if a == 0:
                return 0
            b = const_eval(x.kids[1], env)
            if a is None or b is None:
                return 0 if b == 0 else None
            return 1 if (a and b) else 0
        if x.op == '||':
            if a is not None and a != 0:
                return 1
            b = const_eval(x.kids[1], env)
            if a is None or b is None:
                return 1 if (b is not None and b != 0) else None
            return 1 if (a or b) else 0
        b = const_eval(x.kids[1], env)
        if a is None or b is None:
            return None
        return _wrap(binop(x.op, a, b), x.cty)
    if k == 'cond':
        c = const_eval(x.kids[0], env)
        if c is None:
            return None
        return const_eval(x.kids[1] if c else x.kids[2], env)
    return None


def binop(op, a, b):
    try:
        if op == '+': return a + b
        if op == '-': return a - b
        if op == '*': return a * b
        if op == '/':
            if b == 0: return None
            q = abs(a) // abs(b)
            return q if (a >= 0) == (b >= 0) else -q
        if op == '%':
            if b == 0: return None
            r = abs(a) % abs(b)
            return r if a >= 0 else -r
        if op == '<<':
            if b < 0 or b > 64: return None
            return a << b
        if op == '>>':
            if b < 0 or b > 64: return None
            return a >> b
        if op == '&': return a & b
        if op == '|': return a | b
        if op == '^': return a ^ b
        if op == '<': return int(a < b)
        if op == '>': return int(a > b)
        if op == '<=': return int(a <= b)
        if op == '>=': return int(a >= b)
        if op == '==': return int(a == b)
        if op == '!=': return int(a != b)
    except TypeError:
        return None
    return None


def _wrap(v, cty):
    if v is None:
        return None
    it = int_type(cty)
    if it is None:
        return v
    bits, signed = it
    v &= (1 << bits) - 1
    if signed and v >= (1 << (bits - 1)):
        v -= (1 << bits)
    return v


# ------------------------------------------------------------------ access paths
def path(x):
    """Canonical access path of an lvalue-ish expression as a tuple, or None.

    ('v', declid, name) root for locals/params/globals
    then ('.', field) / ('->', field) / ('[', idx-key) / ('*',)
    casts are transparent, &x->f contributes ('&',) at the end.
    """
    x = strip(x)
    if x is None:
        return None
    k = x.k
    if k == 'ref':
        if x.refk in ('VarDecl', 'ParmVarDecl'):
            return (('v', x.ref, x.name),)
        if x.refk == 'FunctionDecl':
            return (('f', x.name),)
        return None
    if k == 'mem':
        b = path(x.kids[0])
        if b is None:
            return None
        return b + (('->' if x.arrow else '.', x.name),)
    if k == 'idx':
        b = path(x.kids[0])
        if b is None:
            return None
        i = strip(x.kids[1])
        c = const_eval(i)
        if c is not None:
            key = ('c', c)
        else:
            p = path(i)
            key = ('p', p) if p is not None else ('e', show(i))
        return b + (('[', key),)
    if k == 'un' and x.op == '*':
        b = path(x.kids[0])
        if b is None:
            return None
        return b + (('*',),)
    if k == 'un' and x.op == '&':
        b = path(x.kids[0])
        if b is None:
            return None
        return b + (('&',),)
    return None


def path_str(p):
    if p is None:
        return '?'
    s = ''
    for e in p:
        if e[0] == 'v':
            s += e[2]
        elif e[0] == 'f':
            s += e[1]
        elif e[0] in ('.', '->'):
            s += e[0] + e[1]
        elif e[0] == '[':
            kk = e[1]
            if kk[0] == 'c':
                s += '[%d]' % kk[1]
            elif kk[0] == 'p':
                s += '[%s]' % path_str(kk[1])
            else:
                s += '[%s]' % kk[1]
        elif e[0] == '*':
            s = '*' + s
        elif e[0] == '&':
            s = '&' + s
    return s


def path_vars(p):
    """Declaration ids of all variables a path mentions (root and indices)."""
    out = set()
    if p is None:
        return out
    for e in p:
        if e[0] == 'v':
            out.add(e[1])
        elif e[0] == '[' and e[1][0] == 'p':
            out |= path_vars(e[1][1])
    return out


def fields_of(x):
    """All (record, field) pairs mentioned in expression x."""
    return set(n.field for n in walk(x) if n.k == 'mem')


def callee_name(c):
    """Direct callee name of a call node or None for indirect calls."""
    f = strip(c.kids[0])
    if f.k == 'ref' and f.refk == 'FunctionDecl':
        return f.name
    return None


def callee_slot(c):
    """For an indirect call through a struct member: (record, field)."""
    f = strip(c.kids[0])
    if f.k == 'mem':
        return f.field
    if f.k == 'un' and f.op == '*':
        g = strip(f.kids[0])
        if g.k == 'mem':
            return g.field
    return None


class Env(object):
    """Evaluation environment for const_eval: variable decl id -> int."""

    def __init__(self, vars=None, enums=None):
        self.vars = vars or {}
        self.enums = enums or {}


def calls_in(x):
    return [n for n in walk(x) if n.k == 'call']


def is_null_const(x):
    x = strip(x)
    return x is not None and x.k == 'int' and x.val == 0
