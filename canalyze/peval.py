"""Finite-domain partial evaluation of a function's CFG (decision-table extraction).

Given bindings for a few *inputs* (parameters, canonical memory paths such as
`srv->Frm->Data[0]` or `srv->Blk.State`), walk every CFG path, folding guard
expressions by constant propagation.  Branches whose condition does not fold are
explored both ways.  No code of the program is executed: only the expressions of
this one function are folded over the given values.  The result is the set of
*traces* (calls with folded arguments, stores to fields with folded values,
returned value) the function can take for that input.
"""
from .ir import walk, strip, const_eval, show, callee_name, callee_slot, int_type, binop, _wrap, is_pointer
from .canon import Canon
from .front import AnalysisBroken

MAX_TRACES = 4096
MAX_STEPS = 200000


class Trace(object):
    __slots__ = ('events', 'ret', 'env')

    def __init__(self, events, ret, env):
        self.events = events
        self.ret = ret
        self.env = env

    def calls(self):
        return [e for e in self.events if e[0] == 'call']

    def call_names(self):
        return [e[1] for e in self.events if e[0] == 'call']

    def stores(self):
        return [e for e in self.events if e[0] == 'store']


class _Fork(Exception):
    def __init__(self, n):
        Exception.__init__(self)
        self.n = n


class PEval(object):
    def __init__(self, model, fname):
        self.m = model
        self.fname = fname
        self.fn = model.funcs[fname]
        self.g = model.cfg(fname)
        self.cn = Canon(model, fname)
        self._cur_env = {}
        self.cn.index_eval = lambda i, nid: self.ev(i, self._cur_env, nid)
        self.pidx = dict((p[0], p[3]) for p in self.fn.params)
        self._pfield = None
        self._locals = set(n.ref for n in walk(self.fn.body) if n.k == 'var') | set(p[3] for p in self.fn.params)
        self.keep_prefixes = ()      # env paths (inputs such as the received frame) that calls do not invalidate
        self.store_filter = None     # optional: (path string, field) -> record the store event?
        self.record_sets = True
        self.inline = True           # fold direct calls to static helpers of the same unit through their bodies
        self.inline_names = set()    # further callees a rule wants folded through
        self.depth = 0
        self._subs = {}

    # ------------------------------------------------------------ inlining of static helpers
    def _inlinable(self, name, n):
        if not self.inline or name is None or self.depth >= 4:
            return False
        fn = self.m.funcs.get(name)
        if fn is None or name == self.fname:
            return False
        if not (self.m.is_new_helper(name) or name in self.inline_names):
            return False
        if name in self.callvals or any(k.startswith(name + '#') for k in self.callvals):
            return False          # the rule binds the call's result itself: keep it opaque
        return True

    def _path_map(self, fn, n, nid):
        """[(callee parameter name, caller path string, passed-by-address?)] for pointer parameters,
        {callee '*p' path: caller local decl id} for `&local` arguments"""
        pm = []
        outv = {}
        for i, prm in enumerate(fn.params):
            if i >= len(n.kids) - 1 or not is_pointer(prm[2]):
                continue
            a = strip(n.kids[1 + i])
            if a.k == 'un' and a.op == '&' and strip(a.kids[0]).k == 'ref' and strip(a.kids[0]).refk in ('VarDecl', 'ParmVarDecl'):
                lt = strip(a.kids[0]).cty
                if int_type(lt) is not None or is_pointer(lt):
                    outv['*' + prm[0]] = strip(a.kids[0]).ref
                    continue
                # `&local_struct`: the callee's p->f is the caller's local.f (re-rooted like any other record passed by address)
            c = self.cn.canon(nid, a)
            if c is None:
                continue
            pm.append((prm[0], c[0], bool(c[3])))
        pm.sort(key=lambda t: -len(t[1]))
        return pm, outv

    @staticmethod
    def _xlate(path, pm, fwd):
        """re-root an access path: caller -> callee (fwd) or callee -> caller.  A path is  *...*ROOT rest ."""
        import re
        mo = re.match(r'^(\**)(.*)$', path)
        stars, body = mo.group(1), mo.group(2)
        if fwd:
            for (prm, cs, addr) in pm:
                if body == cs or (body.startswith(cs) and body[len(cs):len(cs) + 1] in ('-', '.', '[')):
                    rest = body[len(cs):]
                    if not addr:
                        return stars + prm + rest
                    # caller X passed as &X:  X.f -> p->f ;  X -> *p ;  X[i] not expressible
                    if rest.startswith('.'):
                        return stars + prm + '->' + rest[1:]
                    if rest == '':
                        return stars + '*' + prm
                    return None
            return None
        mo2 = re.match(r'^([A-Za-z_]\w*)(.*)$', body)
        if not mo2:
            return None
        root, rest = mo2.group(1), mo2.group(2)
        for (prm, cs, addr) in pm:
            if root != prm:
                continue
            if not addr:
                return stars + cs + rest
            if rest.startswith('->'):
                return stars + cs + '.' + rest[2:]
            if rest == '' and stars:
                return stars[1:] + cs
            return None
        return None

    def _inline_call(self, name, n, nid, args, env, events):
        """-> list of (ret value, callee events, {caller path: value}, {caller local id: value}) per callee path"""
        fn = self.m.funcs[name]
        memo = getattr(self, '_inl_memo', None)
        if memo is None:
            memo = self._inl_memo = {}
        mkey = (name, id(n), frozenset((k, v) for k, v in env.items() if k[0] != 'c'), len(events),
                hash(tuple((e[0], e[1]) for e in events if e[0] == 'call')))
        if mkey in memo:
            return memo[mkey]
        sub = self._subs.get(name)
        if sub is None:
            sub = PEval(self.m, name)
            sub.depth = self.depth + 1
            sub.inline_names = self.inline_names
            self._subs[name] = sub
        sub._steps = getattr(self, '_steps', None)
        sub._inl_memo = memo
        sub.record_sets = False
        pm, outv = self._path_map(fn, n, nid)
        if self.store_filter is not None:
            pf = self.store_filter
            sub.store_filter = lambda k, fld, pm=pm, pf=pf: pf(self._xlate(k, pm, False) or k, fld)
        else:
            sub.store_filter = None
        inputs = {}
        for i, prm in enumerate(fn.params):
            if i < len(args) and args[i] is not None:
                inputs[prm[0]] = args[i]
        for k, v in env.items():
            if k[0] == 'p':
                t = self._xlate(k[1], pm, True)
                if t is not None:
                    inputs[t] = v
        for cp, vid in outv.items():
            if ('v', vid) in env:
                inputs[cp] = env[('v', vid)]
        keep = []
        for kp in self.keep_prefixes:
            t = self._xlate(kp, pm, True)
            if t is not None:
                keep.append(t)
            else:
                for (prm, cs, addr) in pm:
                    if cs.startswith(kp):
                        keep.append(prm)
        sub.keep_prefixes = tuple(keep)
        for k, v in self.callvals.items():
            if k.startswith('post:') and isinstance(v, dict):
                v = dict((self._xlate(pk, pm, True) or pk, pv) for pk, pv in v.items())
            inputs[k if k.startswith(('out:', 'post:')) else 'call:' + k] = v
        trs = sub.run(inputs, events0=events)
        outs = []
        for t in trs:
            evs = []
            for e in t.events[len(events):]:
                if e[0] == 'store':
                    key = self._xlate(e[1], pm, False) if e[1] != '?' else '?'
                    if key is None:
                        if e[1] in outv:
                            continue
                        key = '%s:%s' % (name, e[1])
                    if self.store_filter is None or self.store_filter(key, e[4]):
                        evs.append(('store', key, e[2], e[3], e[4], e[5]))
                elif e[0] in ('call', 'br'):
                    evs.append(e)
            back = {}
            backv = {}
            for k, v in t.env.items():
                if k[0] != 'p':
                    continue
                if k[1] in outv:
                    backv[outv[k[1]]] = v
                    continue
                c = self._xlate(k[1], pm, False)
                if c is not None:
                    back[c] = v
            outs.append((t.ret, evs, back, backv, set(outv.values())))
        # outcomes that the caller cannot tell apart are one outcome
        uniq = {}
        for o in outs:
            k = (o[0], tuple((e[0], e[1], str(e[2])) for e in o[1] if e[0] in ('call', 'store')),
                 frozenset(o[2].items()), frozenset(o[3].items()))
            uniq.setdefault(k, o)
        outs = list(uniq.values())
        memo[mkey] = outs
        return outs

    def ev(self, x, env, nid):
        if x is None:
            return None
        self._cur_env = env
        k = x.k
        if k == 'int':
            return x.val
        if k == 'ref':
            if x.refk == 'EnumConstantDecl':
                return self.m.enums.get(x.name)
            if x.refk in ('VarDecl', 'ParmVarDecl'):
                v = env.get(('v', x.ref))
                if v is not None:
                    return v
                # constant global table? handled by idx
                return None
            return None
        if k == 'sizeof':
            return x.val
        if k == 'un' and x.op == '&':
            return 1          # address of an object: some non-null pointer
        if k in ('mem', 'idx') and x.cty is not None and '[' in x.cty and '(*' not in x.cty:
            return 1          # array used as a value decays to a non-null pointer
        if k in ('mem', 'idx') or (k == 'un' and x.op == '*'):
            # constant global data (tables of scalars or structs, also through local aliases)
            o = self.resolve_obj(x, env, nid)
            if o is not None:
                if o == 'oob':
                    return None
                v = const_eval(o, self.m)
                if v is not None:
                    return v
                return None
            c = self.cn.canon(nid, x)
            if c is not None:
                v = env.get(('p', c[0]))
                if v is not None:
                    return v
            # input paths may also be given as written in the source (through a local pointer)
            return env.get(('p', show(x)))
        if k == 'cast':
            v = self.ev(x.kids[0], env, nid)
            if v is None:
                return None
            return _wrap(v, x.cty)
        if k == 'un':
            if x.op in ('++', '--', 'post++', 'post--'):
                return None
            v = self.ev(x.kids[0], env, nid)
            if v is None:
                return None
            if x.op == '-':
                return _wrap(-v, x.cty)
            if x.op == '+':
                return v
            if x.op == '~':
                return _wrap(~v, x.cty)
            if x.op == '!':
                return 0 if v else 1
            return None
        if k == 'bin':
            if x.op == ',':
                return self.ev(x.kids[1], env, nid)
            if x.op.endswith('=') and x.op not in ('==', '!=', '<=', '>='):
                return None
            a = self.ev(x.kids[0], env, nid)
            if x.op == '&&':
                if a == 0:
                    return 0
                b = self.ev(x.kids[1], env, nid)
                if b == 0:
                    return 0
                if a is None or b is None:
                    return None
                return 1
            if x.op == '||':
                if a is not None and a != 0:
                    return 1
                b = self.ev(x.kids[1], env, nid)
                if b is not None and b != 0:
                    return 1
                if a is None or b is None:
                    return None
                return 0
            b = self.ev(x.kids[1], env, nid)
            if a is None or b is None:
                # x & 0 == 0, x * 0 == 0
                if x.op in ('&', '*') and (a == 0 or b == 0):
                    return 0
                return None
            return _wrap(binop(x.op, a, b), x.cty)
        if k == 'cond':
            c = self.ev(x.kids[0], env, nid)
            if c is None:
                return None
            return self.ev(x.kids[1] if c else x.kids[2], env, nid)
        if k == 'call':
            return env.get(('c', id(x)))
        return None

    def _fold_index(self, key, env):
        return key

    def field_of_key(self, key):
        """(record, field) identity of the last member of an env path string, from the function's own expressions"""
        import re
        if self._pfield is None:
            self._pfield = {}
            for node in self.g.nodes:
                if node.x is None:
                    continue
                for n in walk(node.x):
                    if n.k == 'mem':
                        c = self.cn.canon(node.id, n)
                        if c is not None:
                            self._pfield[re.sub(r'\[[^\]]*\]', '[]', c[0])] = n.field
                        self._pfield.setdefault(re.sub(r'\[[^\]]*\]', '[]', show(n)), n.field)
                    elif n.k == 'idx':
                        b = strip(n.kids[0])
                        if b.k == 'mem':
                            c = self.cn.canon(node.id, n)
                            if c is not None:
                                self._pfield[re.sub(r'\[[^\]]*\]', '[]', c[0])] = b.field
        return self._pfield.get(re.sub(r'\[[^\]]*\]', '[]', key))

    @staticmethod
    def _distinct_elements(a, b):
        """paths a and b differ only in a constant array index: provably different objects"""
        import re
        pa = re.split(r'(\[\-?\d+\])', a)
        pb = re.split(r'(\[\-?\d+\])', b)
        if len(pa) != len(pb):
            return False
        diff = False
        for x, y in zip(pa, pb):
            if x != y:
                if x.startswith('[') and y.startswith('['):
                    diff = True
                else:
                    return False
        return diff

    def _key_hit(self, key, flds):
        """may a store to one of the fields `flds` change env path `key`?"""
        fid = self.field_of_key(key)
        if fid is not None:
            return fid in flds
        for f in flds:
            sfx = f[1]
            if key.endswith('.' + sfx) or key.endswith('>' + sfx) or ('.' + sfx + '[') in key or ('>' + sfx + '[') in key:
                return True
        return False

    def resolve_obj(self, x, env, nid, depth=0):
        """IR initialiser node of the constant global object the lvalue x denotes, else None"""
        x = strip(x)
        if x is None or depth > 6:
            return None
        if x.k == 'ref':
            if x.refk == 'VarDecl' and x.name in self.m.globals and x.ref not in self._locals:
                g = self.m.globals[x.name]
                if g[2] is not None and 'const' in (g[0] or ''):
                    return g[2]
            return None
        if x.k == 'idx':
            b = self.resolve_obj(x.kids[0], env, nid, depth + 1)
            if b is None or b == 'oob' or b.k != 'init':
                return None
            i = self.ev(x.kids[1], env, nid)
            if i is None:
                return None
            if not (0 <= i < len(b.kids)):
                return 'oob'
            return b.kids[i]
        if x.k == 'mem':
            if x.arrow:
                b = self.resolve_ptr(x.kids[0], env, nid, depth + 1)
            else:
                b = self.resolve_obj(x.kids[0], env, nid, depth + 1)
            if b is None or b == 'oob' or b.k != 'init':
                return None
            flds = self.m.records.get(x.field[0])
            if not flds:
                return None
            for i, f in enumerate(flds):
                if f[0] == x.field[1] and i < len(b.kids):
                    return b.kids[i]
            return None
        if x.k == 'un' and x.op == '*':
            return self.resolve_ptr(x.kids[0], env, nid, depth + 1)
        return None

    def resolve_ptr(self, x, env, nid, depth=0):
        x = strip(x)
        if x is None or depth > 6:
            return None
        if x.k == 'un' and x.op == '&':
            return self.resolve_obj(x.kids[0], env, nid, depth + 1)
        if x.k == 'ref' and x.refk == 'VarDecl':
            u = self.cn.defs.unique_def(nid, x.ref)
            if u is not None:
                dn, rhs = u
                if self.cn._fresh(nid, dn, rhs):
                    return self.resolve_ptr(rhs, env, dn.id, depth + 1)
        return None

    # ------------------------------------------------------------ statements
    def _store(self, lhs, val, env, nid, events, line, rhs=None):
        self._cur_env = env
        l = strip(lhs)
        if l.k == 'ref' and l.refk in ('VarDecl', 'ParmVarDecl'):
            if val is None:
                env.pop(('v', l.ref), None)
            else:
                env[('v', l.ref)] = val
            if self.record_sets:
                events.append(('set', l.name, val, line))
            # paths that depend on this variable become stale
            for k in [k for k in env if k[0] == 'p' and ('[%s]' % l.name) in k[1]]:
                env.pop(k, None)
            return
        c = self.cn.canon(nid, l)
        t = l
        while t is not None and t.k == 'idx':
            t = strip(t.kids[0])
        fld = t.field if (t is not None and t.k == 'mem') else None
        if c is None:
            # unanalysable store: forget every memory path
            for k in [k for k in env if k[0] == 'p']:
                env.pop(k, None)
            if self.store_filter is None or self.store_filter('?', fld):
                events.append(('store', '?', val, line, fld, rhs))
            return
        key = c[0]
        # may-alias: other paths ending in the same field are forgotten
        if fld is not None:
            for k in [k for k in env if k[0] == 'p' and k[1] != key and self._key_hit(k[1], set([fld]))]:
                if self._distinct_elements(k[1], key):
                    continue
                env.pop(k, None)
        if val is None:
            env.pop(('p', key), None)
        else:
            env[('p', key)] = val
        if self.store_filter is None or self.store_filter(key, fld):
            events.append(('store', key, val, line, fld, rhs))

    def _exec_all(self, node, env, events):
        """all outcomes [(env, events)] of one atomic node; more than one when an inlined helper has several paths"""
        results = []
        pending = [()]
        while pending:
            ch = pending.pop()
            e2, ev2 = dict(env), list(events)
            try:
                self._exec(node, e2, ev2, list(ch))
                results.append((e2, ev2))
            except _Fork as f:
                for i in range(f.n):
                    pending.append(ch + (i,))
            if len(results) + len(pending) > MAX_TRACES:
                raise AnalysisBroken('peval: too many helper paths in %s' % self.fname)
        return results

    def _exec(self, node, env, events, choices=None):
        """execute one atomic node on env (in place), append events"""
        x = node.x
        nid = node.id
        order = []
        ninl = [0]

        def po(n):
            # evaluation order; do not descend into conditionally evaluated arms (refused by the CFG builder
            # when they have effects)
            for kk in n.kids:
                if kk is not None:
                    po(kk)
            order.append(n)
        po(x)
        for n in order:
            if n.k == 'call':
                name = callee_name(n)
                args = [self.ev(a, env, nid) for a in n.kids[1:]]
                if name is None:
                    slot = callee_slot(n)
                    name = ('%s.%s' % slot) if slot else ('*' + show(strip(n.kids[0])))
                    tgt = self.resolve_obj(strip(n.kids[0]), env, nid)
                    if tgt is not None and tgt != 'oob':
                        t0 = strip(tgt)
                        if t0.k == 'ref' and t0.refk == 'FunctionDecl':
                            name = t0.name
                tg, ext, descr = self.m.resolve_call(n, self.fn)
                inl = None
                if self._inlinable(callee_name(n), n):
                    outs = self._inline_call(name, n, nid, args, env, events)
                    j = ninl[0]
                    ninl[0] += 1
                    if choices is None:
                        choices = []
                    if j < len(choices):
                        inl = outs[choices[j]] if choices[j] < len(outs) else None
                    elif len(outs) == 1:
                        choices.append(0)
                        inl = outs[0]
                    elif len(outs) > 1:
                        raise _Fork(len(outs))
                nth = sum(1 for e in events if e[0] == 'call' and e[1] == name)
                # values of objects passed by address (`&local`, `&path`): what the callee can read through the pointer
                pointee = {}
                for ai, a in enumerate(n.kids[1:]):
                    a = strip(a)
                    if a is not None and a.k == 'un' and a.op == '&':
                        pv = self.ev(a.kids[0], env, nid)
                        if pv is not None:
                            pointee[ai] = pv
                events.append(('call', name, args, n.line, n, pointee))
                cv = self.callvals.get('%s#%d' % (name, nth), self.callvals.get(name))
                if cv is not None:
                    env[('c', id(n))] = cv
                else:
                    env.pop(('c', id(n)), None)
                # effects on env
                flds, unknown = self.m.call_modset(n)
                if unknown:
                    for k in [k for k in env if k[0] == 'p']:
                        env.pop(k, None)
                else:
                    fl = set(f for f in flds if f[0] != '*')
                    for k in [k for k in env if k[0] == 'p']:
                        if self.keep_prefixes and k[1].startswith(self.keep_prefixes):
                            continue
                        if self._key_hit(k[1], fl):
                            env.pop(k, None)
                if inl is not None:
                    rv, evs, back, backv, outvars = inl
                    events.extend(evs)
                    if rv is not None:
                        env[('c', id(n))] = rv
                    for pk, pv in back.items():
                        env[('p', pk)] = pv
                    for vid in outvars:
                        env.pop(('v', vid), None)
                    for vid, vv in backv.items():
                        env[('v', vid)] = vv
                    continue
                for ai, a in enumerate(n.kids[1:]):
                    a = strip(a)
                    if a.k == 'un' and a.op == '&':
                        t = strip(a.kids[0])
                        if t.k == 'ref':
                            tgs = [name] if name in self.m.funcs else (sorted(tg) if (tg and not ext) else None)
                            if not (tgs and all(t2 in self.m.funcs and not self.m.param_written(t2, ai) for t2 in tgs)):
                                env.pop(('v', t.ref), None)
                            ov = self.callvals.get('out:%s#%d:%d' % (name, nth, ai),
                                                   self.callvals.get('out:%s:%d' % (name, ai)))
                            if ov is not None:
                                env[('v', t.ref)] = ov
                        else:
                            c = self.cn.canon(nid, t)
                            if c is not None:
                                for k in [k for k in env if k[0] == 'p' and k[1].startswith(c[0])]:
                                    env.pop(k, None)
                # what the rule says holds after this call (applied last: it also covers objects passed by address)
                post = self.callvals.get('post:%s#%d' % (name, nth), self.callvals.get('post:%s' % name))
                if post:
                    for pk, pv in post.items():
                        env[('p', pk)] = pv
            elif n.k == 'var' and n.kids:
                v = self.ev(n.kids[0], env, nid)
                if v is None:
                    env.pop(('v', n.ref), None)
                else:
                    env[('v', n.ref)] = _wrap(v, n.cty)
                if self.record_sets:
                    events.append(('set', n.name, v, n.line))
            elif n.k == 'bin' and n.op.endswith('=') and n.op not in ('==', '!=', '<=', '>='):
                if n.op == '=':
                    v = self.ev(n.kids[1], env, nid)
                else:
                    a = self.ev(n.kids[0], env, nid)
                    b = self.ev(n.kids[1], env, nid)
                    v = None
                    if a is not None and b is not None:
                        v = binop(n.op[:-1], a, b)
                if v is not None:
                    v = _wrap(v, strip(n.kids[0]).cty if strip(n.kids[0]) is not None else n.cty)
                self._store(n.kids[0], v, env, nid, events, n.line,
                            rhs=(show(strip(n.kids[1])) if n.op == '=' else None))
            elif n.k == 'un' and n.op in ('++', '--', 'post++', 'post--'):
                a = self.ev(n.kids[0], env, nid)
                v = None
                if a is not None:
                    v = _wrap(a + (1 if '+' in n.op else -1), n.kids[0].cty)
                self._store(n.kids[0], v, env, nid, events, n.line)

    # ------------------------------------------------------------ exploration
    def run(self, inputs, events0=None):
        """inputs: {param name or canonical path string: int}. Returns list of Trace."""
        env0 = {}
        self.callvals = {}
        for k, v in inputs.items():
            if k.startswith('call:'):
                self.callvals[k[5:]] = v
                continue
            if k.startswith('out:') or k.startswith('post:'):
                self.callvals[k] = v
                continue
            if k in self.pidx:
                env0[('v', self.pidx[k])] = v
            else:
                env0[('p', k)] = v
        g = self.g
        traces = []
        steps = self._steps if getattr(self, '_steps', None) is not None else [0]
        if self.depth == 0:
            steps = self._steps = [0]
            self._inl_memo = {}
        stack = [(g.entry.id, env0, list(events0 or []), {}, False)]
        seen = set()
        while stack:
            nid, env, events, visits, done = stack.pop()
            while True:
                if not done and g.nodes[nid].kind in ('stmt', 'br', 'sw') and g.nodes[nid].x is not None \
                        and g.nodes[nid].x.k not in ('break', 'cont'):
                    alts = self._exec_all(g.nodes[nid], env, events)
                    if not alts:
                        break
                    for (e2, ev2) in alts[1:]:
                        stack.append((nid, e2, ev2, visits, True))
                    env, events = alts[0]
                done = False
                if g.nodes[nid].kind == 'join' and len(g.nodes[nid].pred) > 1:
                    # merge paths that arrive in the same abstract state with the same observable events
                    ek = tuple((e[0], e[1], str(e[2])) for e in events if e[0] in ('call', 'store', 'set'))
                    key = (nid, frozenset(env.items()), hash(ek))
                    if key in seen:
                        break
                    seen.add(key)
                steps[0] += 1
                if steps[0] > MAX_STEPS:
                    raise AnalysisBroken('peval: step bound exceeded in %s' % self.fname)
                node = g.nodes[nid]
                if node.kind == 'exit':
                    traces.append(Trace(events, None, env))
                    break
                visits = dict(visits)
                visits[nid] = visits.get(nid, 0) + 1
                if visits[nid] > 300:
                    raise AnalysisBroken('peval: loop in %s does not fold (node line %d)' % (self.fname, node.line))
                if node.kind == 'ret':
                    if node.x.kids:
                        # calls inside the return expression
                        class _N(object):
                            pass
                        tmp = _N()
                        tmp.x = node.x.kids[0]
                        tmp.id = node.id
                        for (e2, ev2) in self._exec_all(tmp, env, events):
                            rv = self.ev(node.x.kids[0], e2, node.id)
                            traces.append(Trace(ev2 + [('ret', rv, node.line)], rv, e2))
                    else:
                        traces.append(Trace(events + [('ret', None, node.line)], None, env))
                    break
                if node.kind in ('stmt',):
                    nid = node.succ[0][0] if node.succ else g.exit.id
                    continue
                if node.kind == 'br':
                    v = self.ev(node.x, env, node.id)
                    outs = node.succ
                    if v is not None:
                        outs = [(t, lab) for (t, lab) in node.succ if lab == bool(v)]
                        if not outs:
                            break
                        nid = outs[0][0]
                        continue
                    # undecided loop condition visited repeatedly: stop unrolling, leave the loop with
                    # everything the loop assigns forgotten (sound: the loop may run any number of times)
                    if visits[nid] > 2 and node.loops:
                        lp = g.loops[node.loops[-1]]
                        exits = [(t, lab) for (t, lab) in outs if t not in lp.nodes]
                        if exits:
                            self._havoc_loop(lp, env)
                            outs = exits
                    # undecided: refine env for equality tests against constants on each edge
                    for (t, lab) in outs[1:]:
                        e2 = self._refine(node, lab, dict(env))
                        stack.append((t, e2, events + [('br', node.x, lab, node.line)], visits, False))
                    env = self._refine(node, outs[0][1], env)
                    events = events + [('br', node.x, outs[0][1], node.line)]
                    nid = outs[0][0]
                    continue
                if node.kind == 'sw':
                    v = self.ev(node.x, env, node.id)
                    outs = node.succ
                    if v is not None:
                        sel = [(t, lab) for (t, lab) in outs if isinstance(lab, tuple) and lab[1] == v]
                        if not sel:
                            sel = [(t, lab) for (t, lab) in outs if lab == 'default']
                        outs = sel
                    if not outs:
                        break
                    for (t, lab) in outs[1:]:
                        stack.append((t, dict(env), list(events), visits, False))
                    nid = outs[0][0]
                    continue
                # entry / join
                if not node.succ:
                    traces.append(Trace(events, None, env))
                    break
                nid = node.succ[0][0]
            if len(traces) > MAX_TRACES:
                raise AnalysisBroken('peval: more than %d traces in %s' % (MAX_TRACES, self.fname))
        return traces

    def _havoc_loop(self, lp, env):
        g = self.g
        for nid in lp.nodes:
            node = g.nodes[nid]
            if node.x is None:
                continue
            for n in walk(node.x):
                tgt = None
                if n.k == 'bin' and n.op.endswith('=') and n.op not in ('==', '!=', '<=', '>='):
                    tgt = strip(n.kids[0])
                elif n.k == 'un' and n.op in ('++', '--', 'post++', 'post--'):
                    tgt = strip(n.kids[0])
                elif n.k == 'call':
                    flds, unknown = self.m.call_modset(n)
                    for k in [k for k in env if k[0] == 'p']:
                        if unknown or self._key_hit(k[1], set(flds)):
                            env.pop(k, None)
                if tgt is None:
                    continue
                if tgt.k == 'ref':
                    env.pop(('v', tgt.ref), None)
                else:
                    t = tgt
                    while t is not None and t.k == 'idx':
                        t = strip(t.kids[0])
                    if t is not None and t.k == 'mem':
                        for k in [k for k in env if k[0] == 'p' and self._key_hit(k[1], set([t.field]))]:
                            env.pop(k, None)
                    else:
                        for k in [k for k in env if k[0] == 'p']:
                            env.pop(k, None)

    def _refine(self, node, lab, env):
        """x == c on the true edge / x != c on the false edge binds x"""
        x = strip(node.x)
        if x.k == 'bin' and x.op in ('==', '!='):
            want_eq = (x.op == '==') == (lab is True)
            if want_eq:
                a, b = x.kids
                va = self.ev(a, env, node.id)
                vb = self.ev(b, env, node.id)
                tgt, val = (None, None)
                if va is None and vb is not None:
                    tgt, val = strip(a), vb
                elif vb is None and va is not None:
                    tgt, val = strip(b), va
                if tgt is not None:
                    if tgt.k == 'ref' and tgt.refk in ('VarDecl', 'ParmVarDecl'):
                        env[('v', tgt.ref)] = val
                    elif tgt.k in ('mem', 'idx'):
                        c = self.cn.canon(node.id, tgt)
                        if c is not None:
                            env[('p', c[0])] = val
        return env
