"""Findings, obligations and evidence bookkeeping shared by all rules."""
import json, os, time


class Finding(object):
    def __init__(self, props, rule, func, key, loc, msg, witness=None, note=False):
        self.props = list(props)
        self.rule = rule
        self.func = func
        self.key = key
        self.loc = loc
        self.msg = msg
        self.witness = witness or []
        self.note = note

    def ident(self):
        return (self.rule, self.func, self.key)

    def to_json(self):
        return {'properties': self.props, 'rule': self.rule, 'function': self.func,
                'key': self.key, 'loc': self.loc, 'message': self.msg,
                'witness': self.witness, 'note': self.note}

    def __repr__(self):
        return '%s %s %s [%s] %s: %s' % ('NOTE' if self.note else 'FINDING', '/'.join(self.props),
                                         self.rule, self.func, self.loc, self.msg)


class Ctx(object):
    """Collects what a run examined (per property)."""

    def __init__(self, model):
        self.m = model
        self.findings = []
        self.obligations = {}     # prop -> list of (rule, func, site, how-discharged or None, nontrivial)
        self.instances = {}       # rule -> count
        self.tables = {}          # prop -> {name: table}
        self.exceptions = []      # (rule, symbol, reason)
        self.broken = []          # analysis-broken messages (per prop or global)
        self.controls = []        # positive controls (rule, fired?)

    def ob(self, props, rule, func, site, discharged, nontrivial=True):
        """Record one obligation. discharged: string saying how, or None if violated."""
        for p in props:
            self.obligations.setdefault(p, []).append((rule, func, site, discharged, nontrivial))

    def inst(self, rule, n=1):
        self.instances[rule] = self.instances.get(rule, 0) + n

    def find(self, props, rule, func, key, loc, msg, witness=None, note=False):
        f = Finding(props, rule, func, key, loc, msg, witness, note)
        for g in self.findings:
            if g.ident() == f.ident() and g.note == f.note:
                for p in f.props:
                    if p not in g.props:
                        g.props.append(p)
                return g
        self.findings.append(f)
        return f

    def table(self, prop, name, tbl):
        self.tables.setdefault(prop, {})[name] = tbl

    def exception(self, rule, symbol, reason):
        e = (rule, symbol, reason)
        if e not in self.exceptions:
            self.exceptions.append(e)

    def broke(self, props, msg):
        self.broken.append((list(props), msg))

    def require_min(self, props, rule, found, minimum, what):
        if found < minimum:
            self.broke(props, '%s: matched %d %s, frozen minimum is %d (rule would pass vacuously)'
                       % (rule, found, what, minimum))
