"""Interval analysis for integer locals and canonical memory paths (RF6 domain).

Forward dataflow over the CFG with widening at loop heads, refinement by branch
conditions (var/path vs constant, var vs var, var vs path), masks (& m), modulo,
shifts, unsigned type ranges.  Parameter intervals of internal functions are the
join over their in-tree call sites (bounded depth)."""
from .ir import walk, strip, strip_impl, const_eval, show, int_type, type_range, callee_name, array_extent
from . import flow
from .canon import Canon

INF = float('inf')
TOP = (-INF, INF)


def _clip(iv, cty):
    """result of converting interval iv to integer type cty"""
    tr = type_range(cty)
    if tr is None or iv is None:
        return iv
    lo, hi = iv
    if lo >= tr[0] and hi <= tr[1]:
        return iv
    return tr


def hull(a, b):
    return (min(a[0], b[0]), max(a[1], b[1]))


def _arith(op, a, b):
    (al, ah), (bl, bh) = a, b
    try:
        if op == '+':
            return (al + bl, ah + bh)
        if op == '-':
            return (al - bh, ah - bl)
        if op == '*':
            c = [x * y for x in (al, ah) for y in (bl, bh) if not ((abs(x) == INF and y == 0) or (abs(y) == INF and x == 0))]
            if len(c) < 4:
                c.append(0)
            return (min(c), max(c))
        if op == '/':
            if bl <= 0 <= bh:
                if al >= 0:
                    return (0, ah) if bl >= 0 else TOP
                return TOP
            c = []
            for x in (al, ah):
                for y in (bl, bh):
                    if abs(x) == INF:
                        c.append(x if y > 0 else -x)
                    elif abs(y) == INF:
                        c.append(0)
                    else:
                        q = abs(x) // abs(y)
                        c.append(q if (x >= 0) == (y >= 0) else -q)
            return (min(c), max(c))
        if op == '%':
            if bl > 0 and bh < INF:
                if al >= 0:
                    return (0, min(ah, bh - 1))
                return (-(bh - 1), bh - 1)
            return TOP
        if op == '&':
            if al >= 0 and bl >= 0:
                return (0, min(ah, bh))
            if bl >= 0:
                return (0, bh)
            if al >= 0:
                return (0, ah)
            return TOP
        if op in ('|', '^'):
            if al >= 0 and bl >= 0 and ah < INF and bh < INF:
                n = max(int(ah), int(bh)).bit_length()
                return (0 if op == '^' else max(al, bl), (1 << n) - 1)
            return TOP
        if op == '<<':
            if al >= 0 and bl >= 0 and bh < 64 and ah < INF:
                return (int(al) << int(bl), int(ah) << int(bh))
            return TOP
        if op == '>>':
            if al >= 0 and bl >= 0 and bh < 64:
                return (0 if ah == INF or bh == INF else (int(al) >> int(bh)), ah if ah == INF else (int(ah) >> int(bl)))
            return TOP
    except (OverflowError, ValueError):
        return TOP
    return TOP


class Intervals(object):
    """Result for one function: IN states by node id; eval(x, nid)."""

    def __init__(self, model, fname, param_iv=None, preconds=None, field_inv=None, call_iv=None):
        self.m = model
        self.fname = fname
        self.fn = model.funcs[fname]
        self.g = model.cfg(fname)
        self.cn = Canon(model, fname)
        self.kfield = {}
        self.preconds = preconds or {}      # variable name -> (lo, hi)  (configuration preconditions)
        self.field_inv = field_inv or {}    # (record, field) -> (lo, hi)
        self.call_iv = call_iv              # optional: (call node, [argument intervals]) -> interval of the result
        init = {}
        for i, prm in enumerate(self.fn.params):
            iv = None
            if param_iv and i in param_iv:
                iv = param_iv[i]
            if iv is not None and int_type(prm[2]) is not None:
                tr = type_range(prm[2])
                init[('v', prm[3])] = (max(iv[0], tr[0]), min(iv[1], tr[1]))
        self.init = init
        self.IN, self.OUT = flow.forward(self.g, init, self._tr, self._join, edge=self._edge, widen=self._widen, narrow=3)

    # ---------------------------------------------------------------- keys
    def key_of(self, x, nid):
        x = strip(x)
        if x is None:
            return None
        if x.k == 'ref' and x.refk in ('VarDecl', 'ParmVarDecl') and int_type(x.cty) is not None:
            return ('v', x.ref)
        if x.k in ('mem', 'idx') and int_type(x.cty) is not None:
            c = self.cn.canon(nid, x)
            if c is not None:
                t = x
                while t is not None and t.k == 'idx':
                    t = strip(t.kids[0])
                if t is not None and t.k == 'mem':
                    self.kfield[c[0]] = (t.field, c[1])
                else:
                    self.kfield[c[0]] = (None, c[1])
                return ('p', c[0])
        return None

    # ---------------------------------------------------------------- evaluation
    def ev(self, x, s, nid):
        """interval of integer expression x in state s (None if not an integer)"""
        if x is None:
            return None
        k = x.k
        if k == 'int':
            return (x.val, x.val)
        if k == 'sizeof':
            return (x.val, x.val) if x.val is not None else (0, INF)
        c = const_eval(x, self.m)
        if c is not None and k != 'cast':
            return (c, c)
        if k == 'ref':
            if x.refk == 'EnumConstantDecl':
                v = self.m.enums.get(x.name)
                return (v, v) if v is not None else None
            if int_type(x.cty) is None:
                return None
            iv = s.get(('v', x.ref))
            tr = type_range(x.cty)
            if iv is not None:
                iv = (max(iv[0], tr[0]), min(iv[1], tr[1]))
                if iv[0] > iv[1]:
                    iv = tr
            pc = self.preconds.get(x.name)
            if iv is None:
                iv = tr
            if pc is not None:
                # stated configuration precondition on this variable (tables): intersect
                niv = (max(iv[0], pc[0]), min(iv[1], pc[1]))
                if niv[0] <= niv[1]:
                    iv = niv
            return iv
        if k in ('mem', 'idx') or (k == 'un' and x.op == '*'):
            if int_type(x.cty) is None:
                return None
            tr = type_range(x.cty)
            # constant global table element
            if k == 'idx':
                b = strip(x.kids[0])
                if b.k == 'ref' and b.name in self.m.globals:
                    g = self.m.globals[b.name]
                    if g[2] is not None and g[2].k == 'init' and 'const' in (g[0] or ''):
                        vals = [const_eval(e, self.m) for e in g[2].kids]
                        if vals and all(v is not None for v in vals):
                            return (min(vals), max(vals))
            key = self.key_of(x, nid) if k != 'un' else None
            if key is not None and key in s:
                iv = s[key]
                iv = (max(iv[0], tr[0]), min(iv[1], tr[1]))
                return iv if iv[0] <= iv[1] else tr
            t = strip(x)
            while t is not None and t.k == 'idx':
                t = strip(t.kids[0])
            if t is not None and t.k == 'mem' and t.field in self.field_inv:
                fi = self.field_inv[t.field]
                return (max(tr[0], fi[0]), min(tr[1], fi[1]))
            return tr
        if k == 'cast':
            iv = self.ev(x.kids[0], s, nid)
            if int_type(x.cty) is None:
                return None
            if iv is None:
                return type_range(x.cty)
            return _clip(iv, x.cty)
        if k == 'un':
            iv = self.ev(x.kids[0], s, nid)
            if iv is None:
                return type_range(x.cty)
            if x.op == '-':
                return _clip((-iv[1], -iv[0]), x.cty)
            if x.op == '+':
                return iv
            if x.op == '!':
                return (0, 1)
            if x.op == '~':
                return type_range(x.cty) or TOP
            if x.op in ('++', 'post++', '--', 'post--'):
                return _clip(hull(iv, (iv[0] - 1, iv[1] + 1)), x.cty)
            return type_range(x.cty) or TOP
        if k == 'bin':
            if x.op in ('<', '>', '<=', '>=', '==', '!=', '&&', '||'):
                return (0, 1)
            if x.op == ',':
                return self.ev(x.kids[1], s, nid)
            if x.op == '=':
                return self.ev(x.kids[1], s, nid)
            a = self.ev(x.kids[0], s, nid)
            b = self.ev(x.kids[1], s, nid)
            if a is None or b is None:
                return type_range(x.cty)
            op = x.op[:-1] if (x.op.endswith('=') and x.op not in ('==', '!=', '<=', '>=')) else x.op
            r = _arith(op, a, b)
            return _clip(r, x.cty)
        if k == 'cond':
            a = self.ev(x.kids[1], s, nid)
            b = self.ev(x.kids[2], s, nid)
            if a is None or b is None:
                return type_range(x.cty)
            return hull(a, b)
        if k == 'call':
            tr = type_range(x.cty)
            if self.call_iv is not None and tr is not None:
                r = self.call_iv(x, [self.ev(a, s, nid) for a in x.kids[1:]])
                if r is not None:
                    return (max(r[0], tr[0]), min(r[1], tr[1]))
            return tr
        return type_range(x.cty)

    # ---------------------------------------------------------------- transfer
    def _kill_field(self, s, fld, except_key=None):
        out = None
        for key in list(s.keys()):
            if key[0] == 'p' and key != except_key and self.kfield.get(key[1], (None,))[0] == fld:
                if out is None:
                    out = dict(s)
                out.pop(key, None)
        return out if out is not None else s

    def _kill_var_paths(self, s, vid):
        out = None
        for key in list(s.keys()):
            if key[0] == 'p' and vid in self.kfield.get(key[1], (None, ()))[1]:
                if out is None:
                    out = dict(s)
                out.pop(key, None)
        return out if out is not None else s

    def _assign(self, s, lhs, iv, nid):
        l = strip(lhs)
        if l.k == 'ref' and l.refk in ('VarDecl', 'ParmVarDecl'):
            s = self._kill_var_paths(s, l.ref)
            if int_type(l.cty) is not None:
                s = dict(s)
                if iv is None:
                    s.pop(('v', l.ref), None)
                else:
                    s[('v', l.ref)] = _clip(iv, l.cty)
            return s
        key = self.key_of(l, nid)
        t = l
        while t is not None and t.k == 'idx':
            t = strip(t.kids[0])
        if t is not None and t.k == 'mem':
            s = self._kill_field(s, t.field, except_key=key)
        elif t is not None and t.k == 'un':
            # *p = v : unknown target: forget all memory paths
            s = dict((k, v) for k, v in s.items() if k[0] != 'p')
        if key is not None:
            s = dict(s)
            # array element with variable index: weak (do not track)
            if '[' in key[1] and not key[1].split('[')[-1].split(']')[0].lstrip('-').isdigit():
                s.pop(key, None)
            elif iv is None:
                s.pop(key, None)
            else:
                s[key] = _clip(iv, l.cty)
        return s

    def _tr(self, node, s):
        x = node.x
        if x is None:
            return s
        nid = node.id
        order = []

        def po(n):
            for kk in n.kids:
                if kk is not None:
                    po(kk)
            order.append(n)
        po(x)
        for n in order:
            if n.k == 'call':
                flds, unknown = self.m.call_modset(n)
                if unknown:
                    s = dict((k, v) for k, v in s.items() if k[0] != 'p')
                else:
                    for f in flds:
                        if f[0] != '*':
                            s = self._kill_field(s, f)
                    if ('*', 'deref') in flds:
                        pass
                for a in n.kids[1:]:
                    a = strip(a)
                    if a.k == 'un' and a.op == '&':
                        t = strip(a.kids[0])
                        if t.k == 'ref':
                            s = dict(s)
                            s.pop(('v', t.ref), None)
                            s = self._kill_var_paths(s, t.ref)
                            pc = self.preconds.get(t.name)
                            if pc is not None and int_type(t.cty) is not None:
                                tr = type_range(t.cty)
                                s[('v', t.ref)] = (max(tr[0], pc[0]), min(tr[1], pc[1]))
                        else:
                            tt = t
                            while tt is not None and tt.k == 'idx':
                                tt = strip(tt.kids[0])
                            if tt is not None and tt.k == 'mem':
                                s = self._kill_field(s, tt.field)
            elif n.k == 'var' and n.kids:
                iv = self.ev(n.kids[0], s, nid)
                s = self._kill_var_paths(s, n.ref)
                if int_type(n.cty) is not None:
                    s = dict(s)
                    if iv is None:
                        s.pop(('v', n.ref), None)
                    else:
                        s[('v', n.ref)] = _clip(iv, n.cty)
            elif n.k == 'bin' and n.op.endswith('=') and n.op not in ('==', '!=', '<=', '>='):
                if n.op == '=':
                    iv = self.ev(n.kids[1], s, nid)
                else:
                    a = self.ev(n.kids[0], s, nid)
                    b = self.ev(n.kids[1], s, nid)
                    iv = _arith(n.op[:-1], a, b) if (a is not None and b is not None) else None
                    # compound assignment is computed in the promoted type then converted
                s = self._assign(s, n.kids[0], iv, nid)
            elif n.k == 'un' and n.op in ('++', '--', 'post++', 'post--'):
                a = self.ev(n.kids[0], s, nid)
                iv = None
                if a is not None:
                    d = 1 if '+' in n.op else -1
                    iv = (a[0] + d, a[1] + d)
                s = self._assign(s, n.kids[0], iv, nid)
        return s

    # ---------------------------------------------------------------- refinement
    def _refine_side(self, s, x, nid, lo=None, hi=None):
        """constrain expression x (var/path, possibly under value-preserving casts) to [lo, hi]"""
        x0 = x
        # see through casts that cannot change the value
        while x0 is not None and x0.k == 'cast':
            inner = x0.kids[0]
            iv = self.ev(inner, s, nid)
            tr = type_range(x0.cty)
            if iv is None or tr is None or iv[0] < tr[0] or iv[1] > tr[1]:
                # the cast may wrap: constraint on the cast result does not transfer
                return s
            x0 = inner
        key = self.key_of(x0, nid)
        if key is None:
            return s
        cur = self.ev(x0, s, nid)
        if cur is None:
            return s
        nl = cur[0] if lo is None else max(cur[0], lo)
        nh = cur[1] if hi is None else min(cur[1], hi)
        if nl > nh:
            return None
        s = dict(s)
        s[key] = (nl, nh)
        return s

    def _edge(self, node, lab, s):
        if node.kind == 'sw' and isinstance(lab, tuple) and lab[0] == 'case' and lab[1] is not None:
            # edge into `case v:` - the controlling expression equals v
            iv = self.ev(node.x, s, node.id)
            if iv is not None and (lab[1] < iv[0] or lab[1] > iv[1]):
                return None
            return self._refine_side(s, node.x, node.id, lo=lab[1], hi=lab[1])
        if node.kind != 'br' or lab not in (True, False):
            return s
        x = strip_impl(node.x)
        nid = node.id
        if x.k == 'bin' and x.op in ('<', '>', '<=', '>=', '==', '!='):
            op = x.op
            if lab is False:
                op = {'<': '>=', '>': '<=', '<=': '>', '>=': '<', '==': '!=', '!=': '=='}[op]
            a, b = x.kids
            ia = self.ev(a, s, nid)
            ib = self.ev(b, s, nid)
            if ia is None or ib is None:
                return s
            # comparison is done in the common type; if an operand is converted to unsigned and may be
            # negative, skip refinement
            if op == '<':
                if ia[0] >= ib[1]:
                    return None
                s = self._refine_side(s, a, nid, hi=ib[1] - 1)
                if s is None:
                    return None
                s = self._refine_side(s, b, nid, lo=ia[0] + 1)
            elif op == '<=':
                if ia[0] > ib[1]:
                    return None
                s = self._refine_side(s, a, nid, hi=ib[1])
                if s is None:
                    return None
                s = self._refine_side(s, b, nid, lo=ia[0])
            elif op == '>':
                if ia[1] <= ib[0]:
                    return None
                s = self._refine_side(s, a, nid, lo=ib[0] + 1)
                if s is None:
                    return None
                s = self._refine_side(s, b, nid, hi=ia[1] - 1)
            elif op == '>=':
                if ia[1] < ib[0]:
                    return None
                s = self._refine_side(s, a, nid, lo=ib[0])
                if s is None:
                    return None
                s = self._refine_side(s, b, nid, hi=ia[1])
            elif op == '==':
                lo, hi = max(ia[0], ib[0]), min(ia[1], ib[1])
                if lo > hi:
                    return None
                s = self._refine_side(s, a, nid, lo=lo, hi=hi)
                if s is None:
                    return None
                s = self._refine_side(s, b, nid, lo=lo, hi=hi)
            elif op == '!=':
                if ia[0] == ia[1] == ib[0] == ib[1]:
                    return None
                if ib[0] == ib[1]:
                    if ia[0] == ib[0]:
                        s = self._refine_side(s, a, nid, lo=ia[0] + 1)
                    elif ia[1] == ib[0]:
                        s = self._refine_side(s, a, nid, hi=ia[1] - 1)
                elif ia[0] == ia[1]:
                    if ib[0] == ia[0]:
                        s = self._refine_side(s, b, nid, lo=ib[0] + 1)
                    elif ib[1] == ia[0]:
                        s = self._refine_side(s, b, nid, hi=ib[1] - 1)
            return s
        # truthiness of a plain value
        iv = self.ev(x, s, nid)
        if iv is not None:
            if lab is True and iv == (0, 0):
                return None
            if lab is False and (iv[0] > 0 or iv[1] < 0):
                return None
            if lab is False:
                return self._refine_side(s, x, nid, lo=0, hi=0)
            if lab is True and iv[0] == 0:
                return self._refine_side(s, x, nid, lo=1)
        return s

    # ---------------------------------------------------------------- lattice
    def _join(self, a, b):
        if a == b:
            return a
        out = {}
        for k, va in a.items():
            vb = b.get(k)
            if vb is not None:
                out[k] = hull(va, vb)
        return out

    def _loop_assigned(self, head):
        c = getattr(self, '_la', None)
        if c is None:
            c = self._la = {}
        if head in c:
            return c[head]
        vs = set()
        for lp in self.g.loops:
            if lp.head != head:
                continue
            for nid in lp.nodes:
                nd = self.g.nodes[nid]
                if nd.x is None:
                    continue
                for n in walk(nd.x):
                    t = None
                    if n.k == 'var':
                        vs.add(n.ref)
                    elif n.k == 'bin' and n.op.endswith('=') and n.op not in ('==', '!=', '<=', '>='):
                        t = strip(n.kids[0])
                    elif n.k == 'un' and n.op in ('++', '--', 'post++', 'post--', '&'):
                        t = strip(n.kids[0])
                    if t is not None and t.k == 'ref':
                        vs.add(t.ref)
        c[head] = vs
        return vs

    def _widen(self, old, new, head=None):
        out = {}
        assigned = self._loop_assigned(head) if head is not None else None
        for k, vn in new.items():
            vo = old.get(k)
            if vo is None:
                continue
            if assigned is not None and k[0] == 'v' and k[1] not in assigned:
                out[k] = vn      # not modified in this loop: plain join, converges with the enclosing loop
                continue
            lo = vo[0] if vn[0] >= vo[0] else -INF
            hi = vo[1] if vn[1] <= vo[1] else INF
            out[k] = (lo, hi)
        return out

    # ---------------------------------------------------------------- queries
    def at(self, x, nid):
        s = self.IN.get(nid)
        if s is None:
            return None
        return self.ev(x, s, nid)

    def state_before_sub(self, node, sub):
        """state right before sub-expression `sub` of node is evaluated: IN state (sub-expression level
        effects inside one statement are ignored except for ++/-- handled by the caller)"""
        return self.IN.get(node.id)
