"""Generic intraprocedural engines over the CFG.

* forward(): worklist solver with pluggable transfer / join
* reaching definitions of local variables (may)
* must-facts: branch conditions known to hold (must), killed by stores
* dominators / post-dominators
* must-events before / after a node
"""
from .ir import walk, strip, path, path_vars, show, const_eval, callee_name


# ---------------------------------------------------------------- solver
def forward(g, init, transfer, join, edge=None, widen=None, max_iter=100000, narrow=0):
    """Forward dataflow. States are arbitrary values; None = unreachable.
    transfer(node, state) -> state after node
    edge(node, label, state) -> state on that out-edge (or None = infeasible)
    Returns (IN, OUT) dicts by node id.  IN[n] is the join over incoming edges."""
    IN = {g.entry.id: init}
    OUT = {}
    order = g.rpo()
    pos = dict((n, i) for i, n in enumerate(order))
    work = set([g.entry.id])
    it = 0
    visits = {}
    heads = set(lp.head for lp in g.loops)
    while work:
        it += 1
        if it > max_iter:
            raise RuntimeError('dataflow did not converge in %s' % g.fn.name)
        n = min(work, key=lambda v: pos.get(v, 1 << 30))
        work.discard(n)
        node = g.nodes[n]
        s = IN.get(n)
        if s is None:
            continue
        o = transfer(node, s)
        OUT[n] = o
        for (t, lab) in node.succ:
            so = o
            if edge is not None:
                so = edge(node, lab, o)
            if so is None:
                continue
            old = IN.get(t)
            if old is None:
                new = so
            else:
                new = join(old, so)
                if widen is not None and t in heads:
                    visits[t] = visits.get(t, 0) + 1
                    if visits[t] > 3:
                        new = widen(old, new, t)
            if old is None or new != old:
                IN[t] = new
                work.add(t)
    # descending (narrowing) passes from the post-fixpoint: recompute each IN as the plain join of its
    # incoming edge states; sound because the starting point over-approximates every reachable state
    for _ in range(narrow if widen is not None else 0):
        changed = False
        for n in order:
            node = g.nodes[n]
            if n != g.entry.id:
                acc = None
                for (p_, lab) in node.pred:
                    o = OUT.get(p_)
                    if o is None:
                        continue
                    so = edge(g.nodes[p_], lab, o) if edge is not None else o
                    if so is None:
                        continue
                    acc = so if acc is None else join(acc, so)
                if acc is None:
                    continue
                if acc != IN.get(n):
                    IN[n] = acc
                    changed = True
            s = IN.get(n)
            if s is None:
                continue
            o = transfer(node, s)
            if o != OUT.get(n):
                OUT[n] = o
                changed = True
        if not changed:
            break
    return IN, OUT


# ---------------------------------------------------------------- stores
def assigned_paths(x):
    """Yield (path, rhs X or None, node) for every store in expression/var-decl x
    (assignment operators, ++/--, initialised declarations)."""
    for n in walk(x):
        if n.k == 'var' and n.kids:
            yield ((('v', n.ref, n.name),), n.kids[0], n)
        elif n.k == 'bin' and n.op.endswith('=') and n.op not in ('==', '!=', '<=', '>='):
            yield (path(n.kids[0]), n.kids[1] if n.op == '=' else None, n)
        elif n.k == 'un' and n.op in ('++', '--', 'post++', 'post--'):
            yield (path(n.kids[0]), None, n)


def addr_taken_args(call):
    """Paths whose address is passed to a call (potential out-parameters)."""
    out = []
    for a in call.kids[1:]:
        a = strip(a)
        if a.k == 'un' and a.op == '&':
            p = path(a.kids[0])
            if p is not None:
                out.append(p)
    return out


# ---------------------------------------------------------------- reaching definitions
def reaching_defs(g):
    """May reaching definitions for local variables / params.
    state: dict declid -> frozenset of def ids; def id = node id, or -1 (entry / parameter),
    -2 - k for "modified through address by call at node k" is folded to node id too.
    Returns IN map node id -> dict."""
    def tr(node, s):
        if node.x is None:
            return s
        ns = None
        for (p, rhs, n) in assigned_paths(node.x):
            if p is not None and len(p) == 1 and p[0][0] == 'v':
                if ns is None:
                    ns = dict(s)
                ns[p[0][1]] = frozenset([node.id])
        for c in walk(node.x):
            if c.k == 'call':
                for p in addr_taken_args(c):
                    if p[0][0] == 'v':
                        if ns is None:
                            ns = dict(s)
                        # a call may or may not write: weak update only when partial path,
                        # strong for the whole variable is not justified -> weak
                        ns[p[0][1]] = frozenset(ns.get(p[0][1], frozenset([-1]))) | frozenset([node.id])
        return ns if ns is not None else s

    def jn(a, b):
        if a is b:
            return a
        r = dict(a)
        for k, v in b.items():
            if k in r:
                if r[k] != v:
                    r[k] = r[k] | v
            else:
                r[k] = v | frozenset([-1])
        for k in a:
            if k not in b:
                r[k] = r[k] | frozenset([-1])
        return r
    IN, OUT = forward(g, {}, tr, jn)
    return IN


class Defs(object):
    """Resolve locals to their unique reaching definition."""

    def __init__(self, g):
        self.g = g
        self.rd = reaching_defs(g)

    def unique_def(self, nid, declid):
        """(node, rhs X) when exactly one direct assignment reaches nid, else None."""
        s = self.rd.get(nid)
        if s is None:
            return None
        d = s.get(declid)
        if d is None or len(d) != 1:
            return None
        (dn,) = d
        if dn < 0:
            return None
        node = self.g.nodes[dn]
        for (p, rhs, n) in assigned_paths(node.x):
            if p is not None and len(p) == 1 and p[0][1] == declid:
                if rhs is None:
                    return None
                return (node, rhs)
        return None

    def defs(self, nid, declid):
        s = self.rd.get(nid)
        if s is None:
            return frozenset()
        return s.get(declid, frozenset([-1]))

    def resolve(self, nid, x, depth=4):
        """Follow x through unique reaching definitions of locals: returns the
        defining expression (casts stripped) or x itself."""
        x = strip(x)
        seen = 0
        while x is not None and x.k == 'ref' and x.refk == 'VarDecl' and seen < depth:
            u = self.unique_def(nid, x.ref)
            if u is None:
                break
            node, rhs = u
            nid = node.id
            x = strip(rhs)
            seen += 1
        return x

    def resolve_at(self, nid, x, depth=4):
        """Like resolve but also returns the node id at which the result is evaluated."""
        x = strip(x)
        seen = 0
        while x is not None and x.k == 'ref' and x.refk == 'VarDecl' and seen < depth:
            u = self.unique_def(nid, x.ref)
            if u is None:
                break
            node, rhs = u
            nid = node.id
            x = strip(rhs)
            seen += 1
        return nid, x


# ---------------------------------------------------------------- must facts
class Fact(object):
    """A branch condition known to hold: (expr X, polarity, node id of the branch)."""
    __slots__ = ('x', 'pol', 'nid', 'deps', 'fdeps', 'key')

    def __init__(self, x, pol, nid):
        self.x = x
        self.pol = pol
        self.nid = nid
        deps = set()
        fdeps = set()
        for n in walk(x):
            if n.k == 'ref' and n.refk in ('VarDecl', 'ParmVarDecl'):
                deps.add(n.ref)
            elif n.k == 'mem':
                fdeps.add(n.field)
        self.deps = frozenset(deps)
        self.fdeps = frozenset(fdeps)
        self.key = (nid, pol)

    def __hash__(self):
        return hash(self.key)

    def __eq__(self, o):
        return self.key == o.key

    def __repr__(self):
        return '%s%s@%d' % ('' if self.pol else '!', show(self.x), self.x.line)


def must_facts(g, modset=None):
    """For each node: the set of branch facts that hold on every path reaching it.
    A fact is killed when a variable it reads is assigned, when a field it reads
    is stored to (any base: type-based aliasing), or when a call may modify it
    (modset(call X) -> (fields written, True if unknown)).  The value of a
    fact's *call* sub-expressions is assumed stable only until the next kill of
    its arguments (calls in conditions are the dictionary / size queries)."""
    def kill(s, var=None, field=None, allfields=False):
        out = None
        for f in s:
            dead = False
            if var is not None and var in f.deps:
                dead = True
            elif field is not None and field in f.fdeps:
                dead = True
            elif allfields and f.fdeps:
                dead = True
            if dead:
                if out is None:
                    out = set(s)
                out.discard(f)
        return frozenset(out) if out is not None else s

    def kill_nonptr(s):
        out = None
        for f in s:
            dead = False
            for n in walk(f.x):
                if n.k == 'mem':
                    from .ir import is_pointer as _isp
                    if not _isp(n.cty) and not (n.cty or '').startswith('struct') and '[' not in (n.cty or ''):
                        # the fact reads an integer field: may be overwritten
                        par = None
                        dead = True
            if dead:
                if out is None:
                    out = set(s)
                out.discard(f)
        return frozenset(out) if out is not None else s

    def tr(node, s):
        if node.x is None or not s:
            return s
        # calls first (evaluation precedes the assignment of their result)
        for c in walk(node.x):
            if c.k == 'call':
                for p in addr_taken_args(c):
                    # &v passed: v may be written by the callee (&v->f is handled below as a field write)
                    if len(p) == 1 and p[0][0] == 'v':
                        s = kill(s, var=p[0][1])
                if modset is not None:
                    flds, unknown = modset(c)
                    if unknown:
                        s = kill(s, allfields=True)
                    else:
                        for f in s:
                            pass
                        if flds:
                            out = None
                            for f in s:
                                if f.fdeps & flds:
                                    if out is None:
                                        out = set(s)
                                    out.discard(f)
                            if out is not None:
                                s = frozenset(out)
                # address-of a field passed as argument: the field may be written
                for a in c.kids[1:]:
                    a = strip(a)
                    if a.k == 'un' and a.op == '&':
                        t = strip(a.kids[0])
                        while t is not None and t.k == 'idx':
                            t = strip(t.kids[0])
                        if t is not None and t.k == 'mem':
                            s = kill(s, field=t.field)
        for (p, rhs, n) in assigned_paths(node.x):
            if p is None:
                # store through an unanalysable lvalue: kill everything field based
                s = kill(s, allfields=True)
                continue
            if len(p) == 1 and p[0][0] == 'v':
                s = kill(s, var=p[0][1])
            else:
                lhs = strip(n.kids[0]) if n.k != 'var' else None
                t = lhs
                while t is not None and t.k == 'idx':
                    t = strip(t.kids[0])
                if t is not None and t.k == 'mem':
                    s = kill(s, field=t.field)
                elif t is not None and t.k == 'un' and t.op == '*':
                    # *p = v : may alias a field of matching kind.  A store of an integer through a
                    # data pointer (transfer buffers, out-parameters) is assumed not to overlap the
                    # pointer-valued fields of the stack's own control structures.
                    from .ir import is_pointer as _isp
                    if _isp(t.cty):
                        s = kill(s, allfields=True)
                    else:
                        s = kill_nonptr(s)
                elif t is not None and t.k == 'ref':
                    s = kill(s, var=t.ref)
        return s

    def ed(node, lab, s):
        if node.kind == 'br' and lab in (True, False):
            f = Fact(node.x, lab, node.id)
            # the condition's own side effects (assignment inside condition) kill first: handled in tr
            return s | frozenset([f])
        if node.kind == 'sw' and isinstance(lab, tuple) and lab[0] == 'case' and lab[1] is not None:
            # edge into `case v:` - the controlling expression equals v (a fall-through from the previous case
            # reaches the same join without this fact; the join intersects)
            key = (node.id, lab[1])
            f = _swfacts.get(key)
            if f is None:
                from .front import X
                c = X('int')
                c.val = lab[1]
                c.cty = 'int'
                c.line = node.x.line
                b = X('bin')
                b.op = '=='
                b.kids = [node.x, c]
                b.cty = 'int'
                b.line = node.x.line
                f = _swfacts[key] = Fact(b, True, node.id)
                f.key = (node.id, True, lab[1])
            return s | frozenset([f])
        return s
    _swfacts = {}

    def jn(a, b):
        return a & b
    IN, OUT = forward(g, frozenset(), tr, jn, edge=ed)
    return IN


# ---------------------------------------------------------------- dominators
def dominators(g):
    """dom[n] = set of nodes dominating n (including n). Reachable nodes only."""
    nodes = [n for n in g.rpo()]
    allset = set(nodes)
    dom = dict((n, set(allset)) for n in nodes)
    dom[g.entry.id] = set([g.entry.id])
    changed = True
    while changed:
        changed = False
        for n in nodes:
            if n == g.entry.id:
                continue
            preds = [p for (p, _) in g.nodes[n].pred if p in allset]
            if not preds:
                continue
            new = set.intersection(*(dom[p] for p in preds)) | set([n])
            if new != dom[n]:
                dom[n] = new
                changed = True
    return dom


def postdominators(g):
    """pdom[n] = set of nodes post-dominating n (including n), w.r.t. the exit node."""
    # nodes that can reach exit
    rev = {}
    for n in g.nodes:
        for (t, _) in n.succ:
            rev.setdefault(t, []).append(n.id)
    can = set()
    st = [g.exit.id]
    while st:
        v = st.pop()
        if v in can:
            continue
        can.add(v)
        st.extend(rev.get(v, []))
    nodes = [n for n in reversed(g.rpo()) if n in can]
    allset = set(nodes)
    pd = dict((n, set(allset)) for n in nodes)
    pd[g.exit.id] = set([g.exit.id])
    changed = True
    while changed:
        changed = False
        for n in nodes:
            if n == g.exit.id:
                continue
            succs = [t for (t, _) in g.nodes[n].succ if t in allset]
            if not succs:
                continue
            new = set.intersection(*(pd[t] for t in succs)) | set([n])
            if new != pd[n]:
                pd[n] = new
                changed = True
    return pd


# ---------------------------------------------------------------- reachability
def reach_from(g, start, avoid=(), forward_dir=True, include_start=False):
    """Nodes reachable from `start` (node id or iterable) without passing through `avoid`."""
    avoid = set(avoid)
    if isinstance(start, int):
        start = [start]
    seen = set()
    st = []
    for s in start:
        if include_start:
            st.append(s)
        else:
            nbrs = g.nodes[s].succ if forward_dir else g.nodes[s].pred
            st.extend(t for (t, _) in nbrs)
    while st:
        v = st.pop()
        if v in seen or v in avoid:
            continue
        seen.add(v)
        nbrs = g.nodes[v].succ if forward_dir else g.nodes[v].pred
        st.extend(t for (t, _) in nbrs)
    return seen


def path_between(g, a, b, avoid=()):
    """One CFG path (list of node ids) from a to b avoiding `avoid`, or None (BFS)."""
    avoid = set(avoid)
    prev = {a: None}
    q = [a]
    while q:
        nq = []
        for v in q:
            if v == b and v != a or (v == b and prev[v] is not None):
                out = []
                while v is not None:
                    out.append(v)
                    v = prev[v]
                return out[::-1]
            for (t, _) in g.nodes[v].succ:
                if t in prev or t in avoid:
                    continue
                prev[t] = v
                nq.append(t)
        q = nq
    if b in prev:
        out = []
        v = b
        while v is not None:
            out.append(v)
            v = prev[v]
        return out[::-1]
    return None


def lines_of_path(g, p):
    out = []
    for n in p or []:
        l = g.nodes[n].line
        if l and (not out or out[-1] != l):
            out.append(l)
    return out


# ---------------------------------------------------------------- bounded disjunctive lifting
def lift_disjunctive(transfer, join, edge, K=6):
    """Lift a dict-state analysis to sets of at most K states (trace partitioning light):
    keeps correlations such as "found != 0 <=> slot emptied" across a join.  States are dicts;
    a lifted state is a tuple of frozenset(items)."""
    def freeze(d):
        return frozenset(d.items())

    def thaw(f):
        return dict(f)

    def norm(states):
        uniq = []
        seen = set()
        for st in states:
            if st not in seen:
                seen.add(st)
                uniq.append(st)
        if len(uniq) > K:
            acc = thaw(uniq[0])
            for st in uniq[1:]:
                acc = join(acc, thaw(st))
            return (freeze(acc),)
        return tuple(sorted(uniq, key=lambda f: sorted(map(str, f))))

    def ltr(node, S):
        return norm([freeze(transfer(node, thaw(st))) for st in S])

    def ljoin(A, B):
        return norm(list(A) + list(B))

    def ledge(node, lab, S):
        out = []
        for st in S:
            r = edge(node, lab, thaw(st)) if edge is not None else thaw(st)
            if r is not None:
                out.append(freeze(r))
        if not out:
            return None
        return norm(out)

    def collapse(S):
        """single dict over-approximating the disjunction"""
        if not S:
            return None
        acc = thaw(S[0])
        for st in S[1:]:
            acc = join(acc, thaw(st))
        return acc
    return ltr, ljoin, ledge, collapse, freeze
