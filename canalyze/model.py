"""Whole-library program model: merged TUs, CFGs, call graph with indirect
calls resolved through slot registries, transitive field mod-sets."""
import os
from . import front, cfg as cfgmod, flow
from .ir import walk, strip, callee_name, callee_slot, path, show, const_eval
from .front import AnalysisBroken


class Model(object):
    def __init__(self, defs=(), units=None, extra_files=()):
        self.defs = tuple(defs)
        self.tus = front.parse_all(defs=defs, units=units, extra_files=extra_files)
        self.funcs = {}        # name -> Func
        self.records = {}
        self.enums = {}
        self.enum_of = {}
        self.globals = {}      # name -> (ty, cty, init, file, line, static, unit)
        self.protos = {}
        self.typedefs = {}
        for unit, tu in sorted(self.tus.items()):
            for name, fn in tu.funcs.items():
                if name in self.funcs:
                    other = self.funcs[name]
                    # a weak default may be overridden; two strong/static duplicates are refused
                    raise AnalysisBroken('function %s defined in %s and %s' % (name, other.unit, unit))
                self.funcs[name] = fn
            for k, v in tu.records.items():
                if v and (k not in self.records or len(v) > len(self.records[k])):
                    self.records[k] = v
            self.enums.update(tu.enums)
            self.enum_of.update(tu.enum_of)
            self.typedefs.update(tu.typedefs)
            for k, v in tu.globals.items():
                if k not in self.globals or v[2] is not None:
                    self.globals[k] = v + (unit,)
            for k, v in tu.protos.items():
                self.protos.setdefault(k, v)
            if tu.unmodelled:
                raise AnalysisBroken('unit %s uses constructs the front end does not model: %s'
                                     % (unit, tu.unmodelled[:5]))
        self._cfg = {}
        self._defs = {}
        self._facts = {}
        self._dom = {}
        self._pdom = {}
        self._build_registries()
        self._build_callgraph()
        self._build_modsets()

    # ------------------------------------------------------------ lazily built per-function artefacts
    def cfg(self, name):
        g = self._cfg.get(name)
        if g is None:
            fn = self.funcs.get(name)
            if fn is None:
                raise AnalysisBroken('anchor function %s not found in the library' % name)
            g = cfgmod.build(fn)
            self._cfg[name] = g
        return g

    def defs_of(self, name):
        d = self._defs.get(name)
        if d is None:
            d = flow.Defs(self.cfg(name))
            self._defs[name] = d
        return d

    def facts(self, name):
        f = self._facts.get(name)
        if f is None:
            f = flow.must_facts(self.cfg(name), modset=self.call_modset)
            self._facts[name] = f
        return f

    def dom(self, name):
        d = self._dom.get(name)
        if d is None:
            d = flow.dominators(self.cfg(name))
            self._dom[name] = d
        return d

    def pdom(self, name):
        d = self._pdom.get(name)
        if d is None:
            d = flow.postdominators(self.cfg(name))
            self._pdom[name] = d
        return d

    def is_new_helper(self, name):
        """a function defined in the library that the rule tables were not calibrated against
        (tables/known_funcs.py): typically a helper extracted from a known function"""
        from tables.known_funcs import KNOWN_FUNCS
        return name in self.funcs and name not in KNOWN_FUNCS

    def helper_closure(self, fname):
        """[fname] + the new helpers it calls directly (transitively): their bodies are part of fname's behaviour"""
        out = [fname]
        i = 0
        while i < len(out):
            fn = self.funcs.get(out[i])
            i += 1
            if fn is None:
                continue
            for n in walk(fn.body):
                if n.k == 'call':
                    nm = callee_name(n)
                    if nm is not None and nm not in out and self.is_new_helper(nm):
                        out.append(nm)
        return out

    def field_stores(self, x, field, depth=0):
        """stores to `field` performed by expression x: [(lhs, rhs, assignment node)], including the stores of
        new helpers called directly from x (rhs re-expressed in the caller's terms when it is a helper parameter)"""
        out = []
        for (p, rhs, n) in flow.assigned_paths(x):
            l = strip(n.kids[0]) if n.k != 'var' else None
            if l is not None and l.k == 'mem' and l.field == field:
                out.append((l, rhs, n))
        if depth < 3:
            for c in walk(x):
                if c.k != 'call':
                    continue
                nm = callee_name(c)
                if nm is None or not self.is_new_helper(nm):
                    continue
                fn = self.funcs[nm]
                pmap = dict((prm[3], c.kids[1 + i]) for i, prm in enumerate(fn.params) if i + 1 < len(c.kids))
                for (l, rhs, n) in self.field_stores(fn.body, field, depth + 1):
                    r = strip(rhs) if rhs is not None else None
                    out.append((l, pmap.get(r.ref) if (r is not None and r.k == 'ref') else None, n))
        return out

    def counted_loop(self, fname, lid, at=None):
        """Loop `lid` of fname runs its body once for every i in [0, N): returns (decl id of i, name, N) or None.
        Decided from the flow graph, not the loop keyword: the only exit is the test `i < N` (no break / return),
        i is 0 on entry (unique reaching definition from outside), its only assignment in the loop is one
        increment by 1 that lies on every path back to the head, and - when `at` (a node id) is given - the
        increment is not executed before `at` within an iteration."""
        g = self.cfg(fname)
        lp = g.loops[lid]
        if len(lp.cond_nodes) != 1:
            return None
        c = g.nodes[lp.cond_nodes[0]]
        c0 = strip(c.x)
        if not (c0.k == 'bin' and c0.op in ('<', '!=') and strip(c0.kids[0]).k == 'ref'
                and strip(c0.kids[0]).refk in ('VarDecl', 'ParmVarDecl')):
            return None
        iv = strip(c0.kids[0])
        bound = const_eval(c0.kids[1], self)
        if bound is None or bound <= 0:
            return None
        # exits only through the test
        for nid in lp.nodes:
            for (t, lab) in g.nodes[nid].succ:
                if t not in lp.nodes and nid != c.id:
                    return None
        # assignments to i inside the loop: exactly one increment by one
        incs = []
        for nid in lp.nodes:
            nd = g.nodes[nid]
            if nd.x is None:
                continue
            for n in walk(nd.x):
                tgt = None
                if n.k == 'bin' and n.op.endswith('=') and n.op not in ('==', '!=', '<=', '>='):
                    tgt = strip(n.kids[0])
                elif n.k == 'un' and n.op in ('++', '--', 'post++', 'post--', '&'):
                    tgt = strip(n.kids[0])
                if tgt is None or tgt.k != 'ref' or tgt.ref != iv.ref:
                    continue
                ok = False
                if n.k == 'un' and n.op in ('++', 'post++'):
                    ok = True
                elif n.k == 'bin' and n.op == '+=' and const_eval(n.kids[1], self) == 1:
                    ok = True
                elif n.k == 'bin' and n.op == '=':
                    r = strip(n.kids[1])
                    if r.k == 'bin' and r.op == '+' and strip(r.kids[0]).k == 'ref' and strip(r.kids[0]).ref == iv.ref \
                            and const_eval(r.kids[1], self) == 1:
                        ok = True
                if not ok:
                    return None
                incs.append(nid)
        if len(incs) != 1:
            return None
        inc = incs[0]
        # i == 0 on entry
        dfs = self.defs_of(fname)
        outer = [d for d in dfs.defs(lp.head, iv.ref) if d not in lp.nodes]
        if len(outer) != 1 or outer[0] < 0:
            return None
        val = None
        for (pp, rhs, n) in flow.assigned_paths(g.nodes[outer[0]].x):
            if pp is not None and len(pp) == 1 and pp[0][1] == iv.ref and rhs is not None:
                val = const_eval(rhs, self)
        if val != 0:
            return None

        def reach(src, stop, avoid):
            seen = set()
            st = [src]
            while st:
                a = st.pop()
                if a in seen or a == avoid or a not in lp.nodes:
                    continue
                seen.add(a)
                if a == stop:
                    return True
                if a == lp.head and a != src:
                    continue
                st.extend(t for (t, lab) in g.nodes[a].succ)
            return False
        # every path from the test back to the head passes the increment
        for (t, lab) in c.succ:
            if t in lp.nodes and reach(t, lp.head, inc):
                return None
        if at is not None and at != inc:
            # the increment does not come before `at` in an iteration
            seen = set()
            st = [t for (t, lab) in g.nodes[inc].succ]
            while st:
                a = st.pop()
                if a in seen or a not in lp.nodes or a == lp.head:
                    continue
                seen.add(a)
                if a == at:
                    return None
                st.extend(t for (t, lab) in g.nodes[a].succ)
        return (iv.ref, iv.name, bound)

    def param_written(self, fname, idx, depth=0):
        """May function fname store through its pointer parameter #idx (directly, through a local copy of the
        pointer, or in a callee it hands the pointer to)?  False only when every use is a read."""
        key = (fname, idx)
        memo = self.__dict__.setdefault('_pw', {})
        if key in memo:
            return memo[key]
        fn = self.funcs.get(fname)
        if fn is None or idx >= len(fn.params) or depth > 3:
            return True
        memo[key] = True          # recursion guard: pessimistic
        al = set([fn.params[idx][3]])

        def base_alias(x):
            # the alias a path expression dereferences, else None
            x = strip(x)
            while x is not None:
                if x.k == 'mem':
                    b = strip(x.kids[0])
                    if x.arrow and b.k == 'ref' and b.ref in al:
                        return b
                    x = b
                elif x.k == 'idx':
                    b = strip(x.kids[0])
                    if b.k == 'ref' and b.ref in al:
                        return b
                    x = b
                elif x.k == 'un' and x.op == '*':
                    b = strip(x.kids[0])
                    if b.k == 'ref' and b.ref in al:
                        return b
                    if b.k == 'bin' and b.op in ('+', '-'):
                        b = strip(b.kids[0])
                        if b.k == 'ref' and b.ref in al:
                            return b
                    x = b
                else:
                    return None
            return None

        def is_alias_val(x):
            x = strip(x)
            if x is None:
                return False
            if x.k == 'ref' and x.ref in al:
                return True
            if x.k == 'bin' and x.op in ('+', '-') and (x.cty or '').rstrip().endswith('*'):
                return is_alias_val(x.kids[0])
            return False
        written = False
        for rnd in range(3):
            grew = False
            for n in walk(fn.body):
                if n.k == 'var' and n.kids and is_alias_val(n.kids[0]) and n.ref not in al:
                    al.add(n.ref)
                    grew = True
                elif n.k == 'bin' and n.op == '=' and is_alias_val(n.kids[1]):
                    l = strip(n.kids[0])
                    if l.k == 'ref' and l.refk == 'VarDecl' and l.name not in self.globals:
                        if l.ref not in al:
                            al.add(l.ref)
                            grew = True
                    else:
                        written = True       # the pointer escapes
            if not grew:
                break
        for n in walk(fn.body):
            if written:
                break
            if n.k == 'bin' and n.op.endswith('=') and n.op not in ('==', '!=', '<=', '>='):
                l = strip(n.kids[0])
                if base_alias(l) is not None:
                    written = True
                elif l.k == 'ref' and l.ref in al and not is_alias_val(n.kids[1]) and n.op == '=':
                    pass                      # alias re-pointed elsewhere: later stores go through the new target only
            elif n.k == 'un' and n.op in ('++', '--', 'post++', 'post--'):
                if base_alias(n.kids[0]) is not None:
                    written = True
            elif n.k == 'un' and n.op == '&':
                t = strip(n.kids[0])
                if t.k == 'ref' and t.ref in al:
                    written = True            # address of the pointer variable taken
            elif n.k == 'call':
                nm = callee_name(n)
                for ai, a in enumerate(n.kids[1:]):
                    if is_alias_val(a):
                        if nm is not None and nm in self.funcs:
                            if self.param_written(nm, ai, depth + 1):
                                written = True
                        else:
                            written = True
                    elif any(c.k == 'ref' and c.ref in al for c in walk(a)) and base_alias(a) is None:
                        a0 = strip(a)
                        if not (a0.k in ('mem', 'idx') or (a0.k == 'un' and a0.op == '*')):
                            written = True
        memo[key] = written
        return written

    def extent(self, rec, fld, default=None):
        """configured number of elements of array field rec.fld (follows co_cfg.h of the analysed configuration)"""
        from .ir import array_extent
        for (fn_, ty, cty) in self.records.get(rec, ()):
            if fn_ == fld:
                e = array_extent(cty)
                if e:
                    return e
        if default is None:
            raise AnalysisBroken('anchor array %s.%s not found' % (rec, fld))
        return default

    def need(self, *names):
        for n in names:
            if n not in self.funcs:
                raise AnalysisBroken('anchor function %s not found in the library' % n)

    def enum(self, name):
        if name not in self.enums:
            raise AnalysisBroken('anchor enumerator %s not found' % name)
        return self.enums[name]

    # ------------------------------------------------------------ slot registries
    def _build_registries(self):
        """slot (record, field) -> set of function names stored there by any
        initialiser or assignment in the library; plus functions passed as
        arguments to calls (callback registry by (callee, arg index))."""
        self.slots = {}
        self.cb_args = {}     # (callee, argindex) -> set of function names
        self.addr_taken = set()

        def rec_of(ty):
            if ty is None:
                return None
            t = ty.replace('const ', '').replace('struct ', '').strip()
            t = t.split('[')[0].strip()
            t = t.rstrip('*').strip()
            # typedef alias of struct tag
            return t

        def fill(init, ty):
            rec = rec_of(ty)
            if init is None:
                return
            if init.k == 'init':
                rname = rec
                flds = self.records.get(rname)
                if flds is None:
                    # maybe the struct tag (CO_X_T) : map through typedef alias
                    for tu in self.tus.values():
                        if rname in tu.rec_alias:
                            rname = tu.rec_alias[rname]
                            flds = self.records.get(rname)
                            break
                if flds is not None and not (ty or '').rstrip().endswith(']'):
                    for (fld, sub) in zip(flds, init.kids):
                        s = strip(sub)
                        if s.k == 'ref' and s.refk == 'FunctionDecl':
                            self.slots.setdefault((rname, fld[0]), set()).add(s.name)
                            self.addr_taken.add(s.name)
                        elif s.k == 'init':
                            fill(s, fld[2])
                else:
                    # array: element type
                    et = ty
                    if ty and '[' in ty:
                        et = ty[:ty.index('[')].strip()
                    for sub in init.kids:
                        s = strip(sub)
                        if s.k == 'init':
                            fill(s, et)
        for name, g in self.globals.items():
            fill(g[2], g[1] if g[1] else g[0])
        for fn in self.funcs.values():
            for n in walk(fn.body):
                if n.k == 'bin' and n.op == '=':
                    r = strip(n.kids[1])
                    l = strip(n.kids[0])
                    if r.k == 'ref' and r.refk == 'FunctionDecl' and l.k == 'mem':
                        self.slots.setdefault(l.field, set()).add(r.name)
                        self.addr_taken.add(r.name)
                elif n.k == 'call':
                    cn = callee_name(n)
                    for i, a in enumerate(n.kids[1:]):
                        a = strip(a)
                        if a.k == 'un' and a.op == '&':
                            a = strip(a.kids[0])
                        if a.k == 'ref' and a.refk == 'FunctionDecl':
                            self.cb_args.setdefault((cn, i), set()).add(a.name)
                            self.addr_taken.add(a.name)
                elif n.k == 'var' and n.kids and n.kids[0].k == 'init':
                    fill(n.kids[0], n.cty or n.ty)

    # ------------------------------------------------------------ call graph
    EXTERNAL_SLOTS_PREFIX = ('CO_IF_CAN_DRV', 'CO_IF_TIMER_DRV', 'CO_IF_NVM_DRV')

    def _local_inits(self, fn):
        """declid -> initialiser X for locals that are initialised at declaration and never assigned again"""
        c = getattr(fn, '_linits', None)
        if c is not None:
            return c
        inits = {}
        assigned = set()
        for n in walk(fn.body):
            if n.k == 'var' and n.kids:
                inits[n.ref] = n.kids[0]
            elif n.k == 'bin' and n.op.endswith('=') and n.op not in ('==', '!=', '<=', '>='):
                l = strip(n.kids[0])
                if l.k == 'ref':
                    assigned.add(l.ref)
            elif n.k == 'un' and n.op in ('++', '--', 'post++', 'post--', '&'):
                l = strip(n.kids[0])
                if l.k == 'ref':
                    assigned.add(l.ref)
        c = dict((k, v) for k, v in inits.items() if k not in assigned)
        try:
            fn._linits = c
        except AttributeError:
            pass
        return c

    def global_slot(self, gname, field):
        """function stored in slot `field` of the global struct object gname (exact), or None"""
        g = self.globals.get(gname)
        if g is None or g[2] is None or g[2].k != 'init':
            return None
        rec = (g[1] or g[0] or '').replace('const ', '').replace('struct ', '').strip()
        flds = self.records.get(rec)
        if flds is None:
            for tu in self.tus.values():
                if rec in tu.rec_alias:
                    flds = self.records.get(tu.rec_alias[rec])
                    break
        if flds is None:
            return None
        for (fld, sub) in zip(flds, g[2].kids):
            if fld[0] == field:
                s = strip(sub)
                if s.k == 'ref' and s.refk == 'FunctionDecl':
                    return s.name
                if s.k == 'int' and s.val == 0:
                    return 0
        return None

    def resolve_call(self, c, fn=None):
        """-> (set of in-library callee names or None, external: bool, descr)"""
        cn = callee_name(c)
        if cn is not None:
            if cn in self.funcs:
                return (set([cn]), False, cn)
            return (set(), True, cn)
        slot = callee_slot(c)
        if slot is not None:
            if slot[0] in self.EXTERNAL_SLOTS_PREFIX:
                return (set(), True, '%s.%s' % slot)
            # exact resolution: base is a local pointer initialised with the address of a global object
            f = strip(c.kids[0])
            if f.k == 'mem':
                b = strip(f.kids[0])
                if b.k == 'ref' and b.refk == 'VarDecl':
                    owner = fn if fn is not None else self._owner_of(c)
                    if owner is not None:
                        ini = self._local_inits(owner).get(b.ref)
                        if ini is not None:
                            i0 = strip(ini)
                            if i0.k == 'un' and i0.op == '&':
                                gobj = strip(i0.kids[0])
                                if gobj.k == 'ref' and gobj.name in self.globals:
                                    t = self.global_slot(gobj.name, slot[1])
                                    if t == 0:
                                        return (set(), False, '%s.%s(null)' % (gobj.name, slot[1]))
                                    if t is not None:
                                        if t in self.funcs:
                                            return (set([t]), False, '%s.%s' % (gobj.name, slot[1]))
                                        return (set(), True, t)
            tg = self.slots.get(slot)
            if tg:
                return (set(t for t in tg if t in self.funcs), any(t not in self.funcs for t in tg), '%s.%s' % slot)
            return (set(), True, '%s.%s' % slot)
        # call through a local function pointer variable
        f = strip(c.kids[0])
        if f.k == 'ref' and f.refk in ('VarDecl', 'ParmVarDecl'):
            if 'CO_TMR_FUNC' in (f.ty or ''):
                tg = set(t for t in self.cb_args.get(('COTmrCreate', 3), ()) if t in self.funcs)
                return (tg, True, 'timer-callback:%s' % f.name)
            # application callback handed in through the API: external, assumed not to touch stack state
            return (set(), True, 'fnptr:%s' % f.name)
        return (None, True, 'indirect:%s' % show(f))

    def _owner_of(self, c):
        idx = getattr(self, '_call_owner', None)
        if idx is None:
            idx = {}
            for name, fn in self.funcs.items():
                for n in walk(fn.body):
                    if n.k == 'call':
                        idx[id(n)] = fn
            self._call_owner = idx
        return idx.get(id(c))

    def _build_callgraph(self):
        self.calls = {}     # caller -> list of (call X, set(callees) or None, external, descr)
        self.callers = {}   # callee -> list of (caller, call X)
        for name, fn in self.funcs.items():
            lst = []
            for n in walk(fn.body):
                if n.k == 'call':
                    tg, ext, descr = self.resolve_call(n, fn)
                    lst.append((n, tg, ext, descr))
                    for t in (tg or ()):
                        self.callers.setdefault(t, []).append((name, n))
            self.calls[name] = lst

    def callees(self, name):
        out = set()
        for (n, tg, ext, descr) in self.calls.get(name, ()):
            out |= (tg or set())
        return out

    def reachable_funcs(self, roots, stop=()):
        seen = set()
        st = list(roots)
        while st:
            f = st.pop()
            if f in seen or f in stop or f not in self.funcs:
                continue
            seen.add(f)
            st.extend(self.callees(f))
        return seen

    def call_chain(self, src, dst, stop=()):
        """One call chain src -> ... -> dst (list of names) or None."""
        prev = {src: None}
        q = [src]
        while q:
            nq = []
            for f in q:
                if f == dst:
                    out = []
                    while f is not None:
                        out.append(f)
                        f = prev[f]
                    return out[::-1]
                for t in sorted(self.callees(f)):
                    if t not in prev and t not in stop:
                        prev[t] = f
                        nq.append(t)
            q = nq
        return None

    # ------------------------------------------------------------ mod sets
    def _build_modsets(self):
        direct = {}
        unknown = {}
        for name, fn in self.funcs.items():
            flds = set()
            unk = False
            for n in walk(fn.body):
                tgt = None
                if n.k == 'bin' and n.op.endswith('=') and n.op not in ('==', '!=', '<=', '>='):
                    tgt = strip(n.kids[0])
                elif n.k == 'un' and n.op in ('++', '--', 'post++', 'post--'):
                    tgt = strip(n.kids[0])
                if tgt is not None:
                    t = tgt
                    while t is not None and t.k == 'idx':
                        t = strip(t.kids[0])
                    if t is not None and t.k == 'mem':
                        flds.add(t.field)
                    elif t is not None and t.k == 'un' and t.op == '*':
                        flds.add(('*', 'deref'))
            direct[name] = flds
            unknown[name] = unk
        # address-of field passed to callee: count as a write of that field in the caller
        for name, fn in self.funcs.items():
            for n in walk(fn.body):
                if n.k == 'call':
                    for a in n.kids[1:]:
                        a = strip(a)
                        if a.k == 'un' and a.op == '&':
                            t = strip(a.kids[0])
                            while t is not None and t.k == 'idx':
                                t = strip(t.kids[0])
                            if t is not None and t.k == 'mem':
                                direct[name].add(t.field)
        self.mod = dict((k, set(v)) for k, v in direct.items())
        changed = True
        while changed:
            changed = False
            for name in self.funcs:
                m = self.mod[name]
                before = len(m)
                for t in self.callees(name):
                    m |= self.mod.get(t, set())
                if len(m) != before:
                    changed = True

    def call_modset(self, c):
        tg, ext, descr = self.resolve_call(c)
        if tg is None:
            # unresolvable function pointer (timer callback invocation): unknown
            return (frozenset(), True)
        flds = set()
        for t in tg:
            flds |= self.mod.get(t, set())
        return (frozenset(flds), False)

    # ------------------------------------------------------------ misc
    def rel(self, path):
        if path is None:
            return '?'
        try:
            return os.path.relpath(path, front.REPO)
        except ValueError:
            return path

    def loc(self, fn, x_or_line):
        f = self.funcs[fn] if isinstance(fn, str) else fn
        line = x_or_line if isinstance(x_or_line, int) else x_or_line.line
        return '%s:%d' % (self.rel(f.file), line)

    def call_sites(self, callee, within=None):
        """[(caller name, call X)] for direct calls to `callee` (may be external)."""
        out = []
        for name, lst in self.calls.items():
            if within is not None and name not in within:
                continue
            for (n, tg, ext, descr) in lst:
                if descr == callee or (tg and callee in tg and callee_name(n) == callee):
                    out.append((name, n))
        return out

    def node_of(self, fname, x):
        """CFG node (of function fname) whose expression tree contains IR node x."""
        g = self.cfg(fname)
        idx = getattr(g, '_xindex', None)
        if idx is None:
            idx = {}
            for n in g.nodes:
                if n.x is not None:
                    for m in walk(n.x):
                        idx[id(m)] = n.id
            # statements that were split on a `?:` with effects: the original spine nodes stand for their first copy
            for oid, copies in getattr(g, 'lowered', {}).items():
                for c in copies:
                    if id(c) in idx:
                        idx.setdefault(oid, idx[id(c)])
                        break
            g._xindex = idx
        return idx.get(id(x))
