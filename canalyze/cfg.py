"""Control-flow graph from the structured C99 IR.

Nodes are atomic statements in evaluation order.  Conditions are split on
&&, || and ! into separate branch nodes with True/False labelled edges, so a
"must pass the guard" question is a plain graph question.
"""
from .ir import walk, const_eval, show, strip
from .front import AnalysisBroken


class Node(object):
    __slots__ = ('id', 'kind', 'x', 'succ', 'pred', 'line', 'loops', 'stmt')

    def __init__(self, nid, kind, x=None):
        self.id = nid
        self.kind = kind      # entry exit stmt br ret join sw
        self.x = x
        self.succ = []        # (target id, label)   label: None/True/False/('case',v)/'default'
        self.pred = []        # (source id, label)
        self.line = x.line if x is not None else 0
        self.loops = ()       # ids of enclosing loops (outermost first)
        self.stmt = None      # enclosing source statement (if/while/... X) for br nodes

    def __repr__(self):
        return 'N%d:%s:%s' % (self.id, self.kind, show(self.x) if self.x is not None else '')


class Loop(object):
    __slots__ = ('id', 'kind', 'x', 'head', 'nodes', 'cond_nodes', 'parent', 'line', 'exit', 'cont')

    def __init__(self, lid, kind, x):
        self.id = lid
        self.kind = kind
        self.x = x
        self.head = None
        self.nodes = set()
        self.cond_nodes = []
        self.parent = None
        self.line = x.line
        self.exit = None
        self.cont = None


class CFG(object):
    def __init__(self, fn):
        self.fn = fn
        self.nodes = []
        self.loops = []
        self.entry = self._new('entry')
        self.exit = self._new('exit')
        self._loopstack = []
        self._brk = []     # stack of break targets
        self._cnt = []     # stack of continue targets
        self.unmodelled = []
        end = self._stmt(fn.body, self.entry.id)
        if end is not None:
            self._edge(end, self.exit.id, None)
        for n in self.nodes:
            for (t, lab) in n.succ:
                self.nodes[t].pred.append((n.id, lab))
        self._reach()

    # -- construction helpers
    def _new(self, kind, x=None):
        n = Node(len(self.nodes), kind, x)
        n.loops = tuple(l.id for l in self._loopstack) if hasattr(self, '_loopstack') else ()
        for l in getattr(self, '_loopstack', []):
            l.nodes.add(n.id)
        self.nodes.append(n)
        return n

    def _edge(self, a, b, lab):
        self.nodes[a].succ.append((b, lab))

    def _check_expr(self, x):
        """Refuse expression forms whose evaluation order / conditional
        evaluation the atomic-node model would misrepresent."""
        for n in walk(x):
            if n.k == 'cond' or (n.k == 'bin' and n.op in ('&&', '||')):
                arms = n.kids[1:]
                for a in arms:
                    for m in walk(a):
                        if m.k == 'call' or (m.k == 'bin' and m.op.endswith('=') and m.op not in ('==', '!=', '<=', '>=')) \
                                or (m.k == 'un' and m.op in ('++', '--', 'post++', 'post--')):
                            self.unmodelled.append(('conditional-evaluation-with-effect', n.line))
            if n.k == 'other' and n.op in ('GotoStmt', 'LabelStmt', 'IndirectGotoStmt', 'GCCAsmStmt', 'StmtExpr'):
                self.unmodelled.append((n.op, n.line))

    @staticmethod
    def _has_effect(a):
        for m in walk(a):
            if m.k == 'call' or (m.k == 'bin' and m.op.endswith('=') and m.op not in ('==', '!=', '<=', '>=')) \
                    or (m.k == 'un' and m.op in ('++', '--', 'post++', 'post--')):
                return True
        return False

    @staticmethod
    def _guard_matters(a):
        """the arm subscripts an array or dereferences a pointer: the condition is what makes that safe, so the arm
        must sit on its own branch for the range / non-null analyses"""
        for m in walk(a):
            if m.k == 'idx' or (m.k == 'mem' and m.arrow) or (m.k == 'un' and m.op == '*'):
                return True
        return False

    def _effect_cond(self, x):
        """outermost `c ? a : b` of x with a side effect in an arm (and none in c itself other than calls), else None"""
        st = [x]
        while st:
            n = st.pop()
            if n is None:
                continue
            if n.k == 'cond' and (self._has_effect(n.kids[1]) or self._has_effect(n.kids[2])
                                  or self._guard_matters(n.kids[1]) or self._guard_matters(n.kids[2])):
                return n
            if n.k == 'bin' and n.op in ('&&', '||'):
                continue          # conditionally evaluated operand: left to _check_expr
            st.extend(reversed(n.kids))
        return None

    def _subst(self, x, tgt, repl):
        """copy of x in which the node tgt is replaced by repl (only the spine from x to tgt is copied;
        all other subtrees are shared, so calls and stores in the arms keep their identity)"""
        import copy
        if x is tgt:
            return repl
        if x is None or not any(n is tgt for n in walk(x)):
            return x
        c = copy.copy(x)
        c.kids = [self._subst(k, tgt, repl) for k in x.kids]
        if not hasattr(self, 'lowered'):
            self.lowered = {}
        self.lowered.setdefault(id(x), []).append(c)
        return c

    def _seq(self, x, cur):
        """expression statement"""
        if cur is None:
            return None
        c = self._effect_cond(x)
        if c is not None:
            # `S[c ? a : b]` with effects in an arm  ==>  `if (c) S[a]; else S[b];`
            t, f = self._cond(c.kids[0], cur, x)
            te = self._seq(self._subst(x, c, c.kids[1]), self._join(t))
            fe = self._seq(self._subst(x, c, c.kids[2]), self._join(f))
            outs = [(e, None) for e in (te, fe) if e is not None]
            return self._join(outs) if outs else None
        self._check_expr(x)
        n = self._new('stmt', x)
        self._edge(cur, n.id, None)
        return n.id

    def _cond(self, x, cur, stmt):
        """Build branch nodes for condition x starting after node `cur`.
        Returns (true_outs, false_outs): lists of (node id, label) dangling edges."""
        x0 = x
        x = strip(x) if (x.k == 'cast' and not x.expl) else x
        if x.k == 'un' and x.op == '!':
            t, f = self._cond(x.kids[0], cur, stmt)
            return f, t
        if x.k == 'bin' and x.op == '&&':
            t1, f1 = self._cond(x.kids[0], cur, stmt)
            j = self._join(t1)
            t2, f2 = self._cond(x.kids[1], j, stmt)
            return t2, f1 + f2
        if x.k == 'bin' and x.op == '||':
            t1, f1 = self._cond(x.kids[0], cur, stmt)
            j = self._join(f1)
            t2, f2 = self._cond(x.kids[1], j, stmt)
            return t1 + t2, f2
        # atomic condition (may contain calls / assignments)
        for n in walk(x):
            if n.k == 'cond' or (n.k == 'bin' and n.op in ('&&', '||')):
                self._check_expr(x)
                break
        b = self._new('br', x)
        b.stmt = stmt
        self._edge(cur, b.id, None)
        c = const_eval(x)
        if c is not None:
            if c:
                return [(b.id, True)], []
            return [], [(b.id, False)]
        return [(b.id, True)], [(b.id, False)]

    def _join(self, outs):
        """Merge dangling edges into one join node; returns its id (or None if no edges)."""
        if not outs:
            # unreachable continuation: create an isolated join so building can go on
            j = self._new('join')
            return j.id
        if len(outs) == 1 and outs[0][1] is None:
            return outs[0][0]
        j = self._new('join')
        for (a, lab) in outs:
            self._edge(a, j.id, lab)
        return j.id

    def _stmt(self, x, cur):
        """Build statement x after node cur; return the id of the last node (fall-through) or None."""
        if x is None:
            return cur
        k = x.k
        if cur is None and k not in ('case', 'default', 'compound'):
            # unreachable code after return/break: still build it (isolated)
            cur = self._new('join').id
        if k == 'compound':
            for s in x.kids:
                if cur is None and s.k not in ('case', 'default'):
                    cur = self._new('join').id
                cur = self._stmt(s, cur)
            return cur
        if k == 'null':
            return cur
        if k == 'decl':
            for v in x.kids:
                if v.kids:
                    cur = self._seq(v, cur)
            return cur
        if k == 'ret':
            c = self._effect_cond(x.kids[0]) if x.kids else None
            if c is not None:
                t, f = self._cond(c.kids[0], cur, x)
                self._stmt(self._subst(x, c, c.kids[1]), self._join(t))
                self._stmt(self._subst(x, c, c.kids[2]), self._join(f))
                return None
            n = self._new('ret', x)
            if x.kids:
                self._check_expr(x.kids[0])
            self._edge(cur, n.id, None)
            self._edge(n.id, self.exit.id, None)
            return None
        if k == 'if':
            t, f = self._cond(x.kids[0], cur, x)
            tj = self._join(t)
            tend = self._stmt(x.kids[1], tj)
            if len(x.kids) > 2:
                fj = self._join(f)
                fend = self._stmt(x.kids[2], fj)
                outs = []
                if tend is not None:
                    outs.append((tend, None))
                if fend is not None:
                    outs.append((fend, None))
                if not outs:
                    return None
                return self._join(outs) if len(outs) > 1 else outs[0][0]
            outs = list(f)
            if tend is not None:
                outs.append((tend, None))
            if not outs:
                return None
            return self._join(outs)
        if k in ('while', 'for'):
            if k == 'for':
                init, condvar, cond, inc, body = x.kids
                if condvar is not None:
                    self.unmodelled.append(('for-condvar', x.line))
                if init is not None:
                    cur = self._stmt(init, cur) if init.k == 'decl' else self._seq(init, cur)
            else:
                cond, body = x.kids[0], x.kids[1]
                inc = None
            lp = Loop(len(self.loops), k, x)
            lp.parent = self._loopstack[-1].id if self._loopstack else None
            self.loops.append(lp)
            self._loopstack.append(lp)
            head = self._new('join')
            lp.head = head.id
            self._edge(cur, head.id, None)
            exitj = Node(-1, 'join')   # placeholder, created after the loop nodes
            first_cond = len(self.nodes)
            if cond is not None:
                t, f = self._cond(cond, head.id, x)
            else:
                t, f = [(head.id, None)], []
            lp.cond_nodes = [n.id for n in self.nodes[first_cond:] if n.kind == 'br']
            bj = self._join(t)
            # continue target
            if inc is not None:
                contj = self._new('join')
                cont_target = contj.id
            else:
                cont_target = head.id
            brk_outs = []
            self._brk.append(brk_outs)
            self._cnt.append(cont_target)
            bend = self._stmt(body, bj)
            self._brk.pop()
            self._cnt.pop()
            if inc is not None:
                if bend is not None:
                    self._edge(bend, contj.id, None)
                self._check_expr(inc)
                incn = self._new('stmt', inc)
                self._edge(contj.id, incn.id, None)
                self._edge(incn.id, head.id, 'back')
            else:
                if bend is not None:
                    self._edge(bend, head.id, 'back')
            lp.cont = cont_target
            self._loopstack.pop()
            outs = list(f) + brk_outs
            if not outs:
                return None
            e = self._join(outs)
            lp.exit = e
            return e
        if k == 'do':
            body, cond = x.kids[0], x.kids[1]
            lp = Loop(len(self.loops), k, x)
            lp.parent = self._loopstack[-1].id if self._loopstack else None
            self.loops.append(lp)
            self._loopstack.append(lp)
            head = self._new('join')
            lp.head = head.id
            self._edge(cur, head.id, None)
            contj = self._new('join')
            brk_outs = []
            self._brk.append(brk_outs)
            self._cnt.append(contj.id)
            bend = self._stmt(body, head.id)
            self._brk.pop()
            self._cnt.pop()
            if bend is not None:
                self._edge(bend, contj.id, None)
            first_cond = len(self.nodes)
            t, f = self._cond(cond, contj.id, x)
            lp.cond_nodes = [n.id for n in self.nodes[first_cond:] if n.kind == 'br']
            for (a, lab) in t:
                self._edge(a, head.id, lab if lab is not None else 'back')
            lp.cont = contj.id
            self._loopstack.pop()
            outs = list(f) + brk_outs
            if not outs:
                return None
            e = self._join(outs)
            lp.exit = e
            return e
        if k == 'break':
            if not self._brk:
                self.unmodelled.append(('break-outside', x.line))
                return None
            n = self._new('stmt', x)
            self._edge(cur, n.id, None)
            self._brk[-1].append((n.id, None))
            return None
        if k == 'cont':
            if not self._cnt or self._cnt[-1] is None:
                self.unmodelled.append(('continue-outside', x.line))
                return None
            n = self._new('stmt', x)
            self._edge(cur, n.id, None)
            self._edge(n.id, self._cnt[-1], 'back')
            return None
        if k == 'switch':
            cond, body = x.kids[0], x.kids[-1]
            self._check_expr(cond)
            sw = self._new('sw', cond)
            sw.stmt = x
            self._edge(cur, sw.id, None)
            brk_outs = []
            self._brk.append(brk_outs)
            self._cnt.append(self._cnt[-1] if self._cnt else None)
            self._sw = getattr(self, '_sw', [])
            self._sw.append({'node': sw.id, 'default': False})
            end = self._stmt(body, None)
            info = self._sw.pop()
            self._brk.pop()
            self._cnt.pop()
            outs = list(brk_outs)
            if end is not None:
                outs.append((end, None))
            if not info['default']:
                outs.append((sw.id, 'default'))
            if not outs:
                return None
            return self._join(outs)
        if k in ('case', 'default'):
            if not getattr(self, '_sw', None):
                self.unmodelled.append(('case-outside-switch', x.line))
                return cur
            info = self._sw[-1]
            j = self._new('join')
            if cur is not None:
                self._edge(cur, j.id, None)      # fall-through
            if k == 'case':
                v = const_eval(x.kids[0])
                if v is None:
                    self.unmodelled.append(('non-constant-case', x.line))
                self._edge(info['node'], j.id, ('case', v))
                sub = x.kids[-1] if len(x.kids) > 1 else None
            else:
                info['default'] = True
                self._edge(info['node'], j.id, 'default')
                sub = x.kids[0] if x.kids else None
            return self._stmt(sub, j.id)
        if k == 'other':
            self.unmodelled.append((x.op, x.line))
            return self._seq(x, cur)
        # expression statement
        return self._seq(x, cur)

    # -- reachability pruning
    def _reach(self):
        seen = set()
        st = [self.entry.id]
        while st:
            n = st.pop()
            if n in seen:
                continue
            seen.add(n)
            for (t, _) in self.nodes[n].succ:
                st.append(t)
        self.reachable = seen

    # -- convenience
    def stmt_nodes(self):
        return [n for n in self.nodes if n.id in self.reachable and n.x is not None]

    def rpo(self):
        order = []
        seen = set()

        def dfs(n):
            stack = [(n, iter(self.nodes[n].succ))]
            seen.add(n)
            while stack:
                v, it = stack[-1]
                adv = False
                for (t, _) in it:
                    if t not in seen:
                        seen.add(t)
                        stack.append((t, iter(self.nodes[t].succ)))
                        adv = True
                        break
                if not adv:
                    order.append(v)
                    stack.pop()
        dfs(self.entry.id)
        order.reverse()
        return order


def build(fn):
    g = CFG(fn)
    if g.unmodelled:
        raise AnalysisBroken('function %s (%s) uses constructs the CFG builder does not model: %s'
                             % (fn.name, fn.file, g.unmodelled))
    return g
