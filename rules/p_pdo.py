"""PDO service rules (C12 TPDO, C13 RPDO): gates, inhibit/event discipline, SYNC table separation and
counting shape, transmission-type tables, RPDO dispatch - by folding and must-facts."""
from canalyze.ir import is_pointer, walk, strip, const_eval, show, callee_name
from canalyze import flow
from canalyze.peval import PEval
from rules.p_nmt import _mask_gate, mode_table, MODES, GATE_MODES

OFF = 1 << 31
RTR = 1 << 30


def _run(m, fname, inputs, filt=None, sets=False):
    pe = PEval(m, fname)
    pe.record_sets = sets
    if filt is not None:
        pe.store_filter = filt
    base = {}
    for prm in m.funcs[fname].params:
        if is_pointer(prm[2]):
            base[prm[0]] = 1
    base.update(inputs)
    return pe.run(base)


# ------------------------------------------------------------------ C12
def tpdo_tx_gates(ctx):
    m = ctx.m
    P = ['C12']
    f = 'COTPdoTx'
    m.need(f, 'COTPdoTmrInhibit', 'COTPdoTmrEvent')
    I = 0x02
    E = 0x01
    for allowed in (0x40, 0x3D):
        for ident in (0x181, OFF):
            for flags in (0, I, I | E, E, 4):
                for inhibit in (0, 10):
                    for event in (0, 50):
                        trs = _run(m, f, {'pdo->Node->Nmt.Allowed': allowed, 'pdo->Identifier': ident, 'pdo->Flags': flags,
                                          'pdo->Inhibit': inhibit, 'pdo->Event': event, 'pdo->EvTmr': -1, 'pdo->InTmr': -1,
                                          'pdo->ObjNum': 0, 'call:COTmrCreate': 3},
                                   filt=lambda k, fld: fld in (('CO_TPDO', 'Flags'), ('CO_IF_FRM', 'Identifier'), ('CO_IF_FRM', 'DLC')))
                        site = 'COTPdoTx allowed=%02X id=%X flags=%d inhibit=%d event=%d' % (allowed, ident, flags, inhibit, event)
                        may = bool(allowed & 0x40) and ident != OFF
                        bad = None
                        for t in trs:
                            names = t.call_names()
                            sends = names.count('COIfCanSend')
                            st = {}
                            for e in t.stores():
                                st[e[1]] = e[2]
                            creates = [c for c in t.calls() if c[1] == 'COTmrCreate']
                            if not may:
                                if sends or creates or st:
                                    bad = 'reacts although %s' % ('not OPERATIONAL' if not (allowed & 0x40) else 'the COB-ID is invalid')
                            elif flags & I:
                                if sends or creates:
                                    bad = 'transmits / arms timers while the inhibit time is running'
                                if not (st.get('pdo->Flags', flags) & E):
                                    bad = 'trigger during the inhibit time is not remembered (event flag not set)'
                            else:
                                if sends != 1:
                                    bad = '%d frames sent' % sends
                                want_cb = []
                                if inhibit:
                                    want_cb.append('COTPdoTmrInhibit')
                                if event:
                                    want_cb.append('COTPdoTmrEvent')
                                got_cb = [show(strip(c[4].kids[4])).replace('&', '') for c in creates]
                                if sorted(got_cb) != sorted(want_cb):
                                    bad = 'timers armed: %s, required %s' % (got_cb, want_cb)
                                for c in creates:
                                    cbn = show(strip(c[4].kids[4])).replace('&', '')
                                    if c[2][1] != (inhibit if cbn == 'COTPdoTmrInhibit' else event) or c[2][2] != 0:
                                        bad = '%s armed with start=%s cycle=%s' % (cbn, c[2][1], c[2][2])
                                if inhibit and not (st.get('pdo->Flags', flags) & I):
                                    bad = 'inhibit timer armed but the inhibited flag is not set'
                                if st.get('frm.Identifier') != ident or st.get('frm.DLC') != 0:
                                    bad = 'frame identifier %s / DLC %s' % (st.get('frm.Identifier'), st.get('frm.DLC'))
                        if bad:
                            ctx.ob(P, 'RF2-tpdo-tx', f, site, None)
                            ctx.find(P, 'RF2-tpdo-tx', f, 'tx:%s' % bad.split(':')[0][:50], m.loc(f, m.funcs[f].line), '%s: %s' % (site, bad))
                        else:
                            ctx.ob(P, 'RF2-tpdo-tx', f, site, 'ok')
    # inhibit expiry: sends iff a trigger is pending, clears both flags / the handle
    f = 'COTPdoTmrInhibit'
    for flags in (I, I | E, I | 4, I | E | 4):
        trs = _run(m, f, {'pdo->Flags': flags, 'parg': 1}, filt=lambda k, fld: fld in (('CO_TPDO', 'Flags'), ('CO_TPDO', 'InTmr')))
        site = 'COTPdoTmrInhibit flags=%d' % flags
        bad = None
        for t in trs:
            tx = t.call_names().count('COTPdoTx')
            st = {}
            for e in t.stores():
                st[e[1]] = e[2]
            if tx != (1 if flags & E else 0):
                bad = 'transmits %d times with pending=%d' % (tx, bool(flags & E))
            fl = [v for k, v in st.items() if k.endswith('->Flags')]
            fl = fl[0] if fl else None
            if fl is None or (fl & (I | E)) or (fl & 4) != (flags & 4):
                bad = 'flags become %s' % fl
            if [v for k, v in st.items() if k.endswith('->InTmr')] != [-1]:
                bad = 'inhibit handle not released'
        if bad:
            ctx.ob(P, 'RF2-tpdo-tx', f, site, None)
            ctx.find(P, 'RF2-tpdo-tx', f, 'inhibit:%d' % flags, m.loc(f, m.funcs[f].line), '%s: %s' % (site, bad))
        else:
            ctx.ob(P, 'RF2-tpdo-tx', f, site, 'one deferred transmission iff a trigger was pending')


def sync_tables(ctx):
    """TX and RX tables of the SYNC service share the PDO number as index: every store to a TX table
    field happens under msgType == TX, every store to the RX table under msgType == RX."""
    m = ctx.m
    TXF = set([('CO_SYNC', 'TPdo'), ('CO_SYNC', 'TNum'), ('CO_SYNC', 'TSync')])
    RXF = set([('CO_SYNC', 'RPdo'), ('CO_SYNC', 'RFrm')])
    TX, RX = 1, 2
    for f in ('COSyncAdd', 'COSyncRemove'):
        m.need(f)
        g = m.cfg(f)
        facts = m.facts(f)
        fn = m.funcs[f]
        mt = [p for p in fn.params if p[0] == 'msgType']
        if not mt:
            ctx.broke(['C12', 'C13'], 'p_pdo: parameter msgType of %s vanished' % f)
            continue
        pid = mt[0][3]
        for node in g.nodes:
            if node.x is None or node.id not in g.reachable:
                continue
            for (p, rhs, n) in flow.assigned_paths(node.x):
                l = strip(n.kids[0]) if n.k != 'var' else None
                # the table the store goes into: the innermost table field on the access path
                # (sync->RFrm[num].Identifier is a store into the RX frame table)
                t = l
                hit = None
                while t is not None and t.k in ('idx', 'mem'):
                    if t.k == 'mem' and t.field in (TXF | RXF):
                        hit = t
                        break
                    t = strip(t.kids[0])
                t = hit
                if t is None:
                    continue
                want = TX if t.field in TXF else RX
                props = ['C12'] if t.field in TXF else ['C13']
                ok = False
                for fa in (facts.get(node.id) or ()):
                    x = strip(fa.x)
                    if x.k == 'bin' and x.op == '==' and fa.pol:
                        a, b = strip(x.kids[0]), strip(x.kids[1])
                        for (u, v) in ((a, b), (b, a)):
                            if u.k == 'ref' and u.ref == pid and const_eval(v, m) == want:
                                ok = True
                site = '%s: %s' % (m.loc(f, n), show(n))
                if ok:
                    ctx.ob(props, 'RF2-sync-table', f, site, 'under msgType == %s' % ('TX' if want == TX else 'RX'))
                else:
                    ctx.ob(props + (['C12'] if 'C12' not in props else []), 'RF2-sync-table', f, site, None)
                    ctx.find(['C12', 'C13'], 'RF2-sync-table', f, 'unguarded:%s' % t.field[1], m.loc(f, n),
                             '%s is stored without the guard msgType == %s: registering / removing a PDO of the other '
                             'direction with the same number disturbs this table' % (show(l), 'TX' if want == TX else 'RX'))


def sync_counting(ctx):
    m = ctx.m
    P = ['C12']
    # COSyncUpdate: one increment per recognised SYNC for every registered TPDO
    f = 'COSyncUpdate'
    m.need(f, 'COSyncHandler')
    NT = m.extent('CO_SYNC', 'TPdo')
    NR = m.extent('CO_SYNC', 'RPdo')
    for match in (0, 1):
        inputs = {'frm->Identifier': 0x80, 'sync->CobId': (0x80 if match else 0x81)}
        for i in range(NT):
            inputs['sync->TPdo[%d]' % i] = 1 if i % 2 == 0 else 0
            inputs['sync->TSync[%d]' % i] = 3
        trs = _run(m, f, inputs, filt=lambda k, fld: fld == ('CO_SYNC', 'TSync'))
        bad = None
        for t in trs:
            st = {}
            for e in t.stores():
                st[e[1]] = e[2]
            exp = dict(('sync->TSync[%d]' % i, 4) for i in range(NT) if i % 2 == 0) if match else {}
            if st != exp:
                bad = 'counters after the frame: %s, required %s' % (st, exp)
            if (t.ret is not None and t.ret >= 0) != bool(match):
                bad = 'recognised=%s' % t.ret
        site = 'COSyncUpdate identifier %s' % ('matches' if match else 'differs')
        if bad:
            ctx.ob(P + ['C16'], 'RF1-sync-count', f, site, None)
            ctx.find(P + ['C16'], 'RF1-sync-count', f, 'update:%d' % match, m.loc(f, m.funcs[f].line), '%s: %s' % (site, bad))
        else:
            ctx.ob(P + ['C16'], 'RF1-sync-count', f, site, 'each registered TPDO counter +1 exactly once' if match else 'nothing changes')
    # COSyncHandler: type n sends when the counter reaches n and restarts it; type 0 sends on every SYNC
    f = 'COSyncHandler'
    for tnum in (0, 1, 3):
        for cnt in (1, 2, 3):
            inputs = {}
            for i in range(NT):
                inputs['sync->TPdo[%d]' % i] = 1 if i == 1 else 0
                inputs['sync->TNum[%d]' % i] = tnum
                inputs['sync->TSync[%d]' % i] = cnt
            for i in range(NR):
                inputs['sync->RPdo[%d]' % i] = 0
            trs = _run(m, f, inputs, filt=lambda k, fld: fld == ('CO_SYNC', 'TSync'))
            bad = None
            for t in trs:
                tx = t.call_names().count('COTPdoTx')
                st = {}
                for e in t.stores():
                    st[e[1]] = e[2]
                due = (tnum == 0) or (cnt == tnum)
                if tnum and cnt > tnum:
                    continue      # counter beyond the divisor: not reachable through COSyncUpdate + restart
                if tx != (1 if due else 0):
                    bad = '%d transmissions' % tx
                if tnum and due and st.get('sync->TSync[1]') != 0:
                    bad = 'counter not restarted after the transmission'
                if not due and st:
                    bad = 'counter changed without transmission'
            site = 'COSyncHandler type=%d counter=%d' % (tnum, cnt)
            if bad:
                ctx.ob(P, 'RF1-sync-count', f, site, None)
                ctx.find(P + ['C16'], 'RF1-sync-count', f, 'handler:%d:%d' % (tnum, cnt), m.loc(f, m.funcs[f].line), '%s: %s' % (site, bad))
            else:
                ctx.ob(P, 'RF1-sync-count', f, site, 'sent' if ((tnum == 0) or cnt == tnum) else 'not due')


def type_tables(ctx):
    """transmission type thresholds and flag order in COTPdoReset / CORPdoReset"""
    m = ctx.m
    NONE = m.enum('CO_ERR_NONE')
    S_T, S_R, E_R = 0x04, 0x02, 0x01
    for (f, P, base, sflag) in (('COTPdoReset', ['C12', 'C14'], 0x1800, S_T), ('CORPdoReset', ['C13', 'C14'], 0x1400, S_R)):
        m.need(f)
        # quick tier: boundaries of the transmission-type classes; thorough tier: all 256 types
        for ty in (range(256) if getattr(ctx, 'tier', 'quick') == 'thorough' else (0, 1, 2, 127, 128, 239, 240, 241, 251, 252, 253, 254, 255)):
            for valid in (0, 1):
                for old_sync in (0, 1):
                    cob = (0x181 | RTR) if valid else (OFF | 0x181 | RTR)
                    inputs = {'num': 1, 'call:CODictRdByte': NONE, 'out:CODictRdByte:2': ty, 'call:CODictRdLong': NONE,
                              'out:CODictRdLong:2': cob, 'call:CODictRdWord': NONE, 'out:CODictRdWord:2': 0,
                              'call:COTPdoGetMap': NONE, 'call:CORPdoGetMap': NONE, 'call:COTmrGetTicks': 0,
                              'wp->Flags': (sflag if old_sync else 0), 'wp->Flag': ((sflag | E_R) if old_sync else 0),
                              'wp->EvTmr': -1, 'wp->InTmr': -1}
                    # the same record under its canonical spelling (no local alias for the element)
                    for k_ in ('Flags', 'Flag', 'EvTmr', 'InTmr'):
                        inputs['pdo[num].' + k_] = inputs['wp->' + k_]
                        inputs['pdo[1].' + k_] = inputs['wp->' + k_]       # ... and with the bound index folded (num = 1)
                    trs = _run(m, f, inputs, filt=lambda k, fld: fld in (('CO_TPDO', 'Flags'), ('CO_RPDO', 'Flag'), ('CO_TPDO', 'Event'), ('CO_TPDO', 'Inhibit')))
                    site = '%s type=%d valid=%d previously-synchronous=%d' % (f, ty, valid, old_sync)
                    bad = None
                    if not trs:
                        bad = 'no path'
                    for t in trs:
                        adds = [c for c in t.calls() if c[1] == 'COSyncAdd']
                        rems = [c for c in t.calls() if c[1] == 'COSyncRemove']
                        fl = None
                        cached = set()
                        for e in t.stores():
                            if e[4][1] in ('Event', 'Inhibit'):
                                cached.add(e[4][1])
                            else:
                                fl = e[2]
                        # the cached event / inhibit times are RE-derived on every (re)initialisation of an enabled TPDO: a
                        # TPDO that was event driven and is now synchronous must not keep its old period (COTPdoTx re-arms the
                        # event timer after every transmission while Event > 0)
                        if f == 'COTPdoReset' and valid and cached != set(['Event', 'Inhibit']) and bad is None:
                            bad = 'cached times re-derived: %s only (the others keep the values of the previous configuration)' % sorted(cached)
                        want_sync = valid and ty <= 240
                        if len(adds) != (1 if want_sync else 0):
                            bad = 'registered with the SYNC service %d times (type %d, valid %d)' % (len(adds), ty, valid)
                        if adds and (adds[0][2][1] != 1 or (f == 'COTPdoReset' and adds[0][2][3] != ty)):
                            bad = 'COSyncAdd arguments %s' % adds[0][2][1:]
                        if len(rems) != (1 if old_sync else 0):
                            bad = 'a previously synchronous PDO is removed from the SYNC table %d times' % len(rems)
                        # registration and removal address THIS side's table (TX for TPDOs, RX for RPDOs): with the other
                        # side's flag the PDO of the same number on the other side is (de)registered instead
                        side = 0x01 if f == 'COTPdoReset' else 0x02
                        for c_ in adds + rems:
                            if len(c_[2]) > 2 and c_[2][2] is not None and c_[2][2] != side:
                                bad = '%s addresses SYNC table side %s, required %s (%s)' % (
                                    c_[1], c_[2][2], side, 'CO_SYNC_FLG_TX' if side == 1 else 'CO_SYNC_FLG_RX')
                            if len(c_[2]) > 1 and c_[2][1] is not None and c_[2][1] != 1:
                                bad = '%s is called for PDO number %s, required %d' % (c_[1], c_[2][1], 1)
                        if rems and adds and t.call_names().index('COSyncRemove') > t.call_names().index('COSyncAdd'):
                            bad = 'removal after the new registration'
                        if fl is None or bool(fl & sflag) != bool(want_sync):
                            bad = 'synchronous flag %s for type %d valid %d' % (fl, ty, valid)
                    if bad:
                        ctx.ob(P, 'RF1-pdo-type', f, site, None)
                        ctx.find(P, 'RF1-pdo-type', f, 'type:%s' % bad.split('(')[0][:50].strip(), m.loc(f, m.funcs[f].line), '%s: %s' % (site, bad))
                    else:
                        ctx.ob(P, 'RF1-pdo-type', f, site, 'synchronous iff valid and type <= 240')


# ------------------------------------------------------------------ C13
def rpdo_dispatch(ctx):
    m = ctx.m
    P = ['C13']
    f = 'CORPdoCheck'
    m.need(f, 'CORPdoRx', 'CORPdoWrite')
    for ident in (0x205, 0x206, 0x305):
        inputs = {'frm->Identifier': ident}
        cfg = {0: (1, 0x205), 1: (0, 0x206), 2: (1, 0x305), 3: (0, 0x305)}
        for n in range(4, m.extent('CO_NODE', 'RPdo')):
            cfg[n] = (0, 0x206)          # further channels: disabled
        for n, (en, cid) in cfg.items():
            inputs['pdo[%d].Flag' % n] = en
            inputs['pdo[%d].Identifier' % n] = cid
        trs = _run(m, f, inputs)
        exp = any(en and cid == ident for n, (en, cid) in cfg.items() if n < m.extent('CO_NODE', 'RPdo'))
        bad = None
        for t in trs:
            if (t.ret not in (0, None)) != exp:
                bad = 'match=%s' % t.ret
        site = 'CORPdoCheck identifier %Xh' % ident
        if bad:
            ctx.ob(P, 'RF1-rpdo-check', f, site, None)
            ctx.find(P, 'RF1-rpdo-check', f, 'check:%X' % ident, m.loc(f, m.funcs[f].line),
                     '%s: %s (only enabled RPDOs with an equal identifier may match)' % (site, bad))
        else:
            ctx.ob(P, 'RF1-rpdo-check', f, site, 'matches' if exp else 'no match (disabled or other identifier)')
    # CORPdoRx: asynchronous -> immediate write; synchronous -> buffered; application veto respected
    f = 'CORPdoRx'
    for veto in (0, 1):
        for sync in (0, 2):
            trs = _run(m, f, {'call:COPdoReceive': veto, 'pdo->Flag': 1 | sync})
            bad = None
            for t in trs:
                names = t.call_names()
                w, b = names.count('CORPdoWrite'), names.count('COSyncRx')
                if veto and (w or b):
                    bad = 'frame consumed by the application is still processed'
                if not veto and (w, b) != ((0, 1) if sync else (1, 0)):
                    bad = 'write=%d buffered=%d' % (w, b)
            site = 'CORPdoRx veto=%d synchronous=%d' % (veto, bool(sync))
            if bad:
                ctx.ob(P, 'RF1-rpdo-check', f, site, None)
                ctx.find(P, 'RF1-rpdo-check', f, 'rx:%d:%d' % (veto, sync), m.loc(f, m.funcs[f].line), '%s: %s' % (site, bad))
            else:
                ctx.ob(P, 'RF1-rpdo-check', f, site, 'ok')
    # gate: every path to CORPdoWrite passes a PDO-allowed test (asynchronous: dispatch cascade; synchronous: SYNC handler)
    mt = mode_table(m)
    for (caller, call) in m.call_sites('CORPdoWrite'):
        site = '%s: %s' % (m.loc(caller, call), caller)
        gated = False
        why = ''
        chain_funcs = [caller]
        # walk up to CONodeProcess collecting gates
        cur = caller
        seen = set()
        while cur and cur not in seen:
            seen.add(cur)
            for (fn2, c2) in ([(cur, call)] if cur == caller else m.call_sites(chain_funcs[-2]) if len(chain_funcs) > 1 else []):
                pass
            ups = m.callers.get(cur, [])
            # gate inside `cur` at the call to the previous function of the chain
            prev_call = call if cur == caller else None
            if cur != caller:
                for (nname, c3) in m.callers.get(chain_funcs[chain_funcs.index(cur) - 1], []):
                    if nname == cur:
                        prev_call = c3
            if prev_call is not None:
                nid = m.node_of(cur, prev_call)
                for mk in _mask_gate(m, cur, nid) + _local_mask_gate(m, cur, nid):
                    modes = set(mo for mo in MODES if mt[mo] & mk)
                    if modes == GATE_MODES['PDO']:
                        gated = True
                        why = 'PDO gate (mask %02Xh) in %s' % (mk, cur)
            if gated or len(ups) != 1:
                break
            cur = ups[0][0]
            chain_funcs.append(cur)
        if gated:
            ctx.ob(P, 'RF2-rpdo-gate', caller, site, why)
        else:
            ctx.ob(P, 'RF2-rpdo-gate', caller, site, None)
            ctx.find(P, 'RF2-rpdo-gate', caller, 'no-pdo-gate', m.loc(caller, call),
                     'CORPdoWrite is reached from %s without passing a test of the PDO service bit (call chain %s): in '
                     'PRE-OPERATIONAL a SYNC still rewrites the mapped objects with the buffered frame'
                     % (caller, ' <- '.join(chain_funcs)))
    # pending marker: the synchronous write must depend on state written by COSyncRx and cleared after the write
    f = 'COSyncHandler'
    g = m.cfg(f)
    wrote = set()
    fn_rx = m.funcs.get('COSyncRx')
    rx_fields = set()
    for n in walk(fn_rx.body):
        if n.k == 'bin' and n.op.endswith('=') and n.op not in ('==', '!=', '<=', '>='):
            l = strip(n.kids[0])
            t = l
            while t is not None and t.k == 'idx':
                t = strip(t.kids[0])
            if t is not None and t.k == 'mem':
                rx_fields.add(t.field)
    cond_fields = set()
    for (caller, call) in m.call_sites('CORPdoWrite'):
        if caller != f:
            continue
        nid = m.node_of(f, call)
        for fa in (m.facts(f).get(nid) or ()):
            for n in walk(fa.x):
                if n.k == 'mem':
                    cond_fields.add(n.field)
    marker = (cond_fields & rx_fields) - set([('CO_SYNC', 'RPdo')])
    site = 'COSyncHandler: synchronous RPDO write depends on a reception marker'
    if marker:
        ctx.ob(P, 'RF2-rpdo-pending', f, site, 'controlled by %s written on reception' % sorted(marker))
    else:
        ctx.ob(P, 'RF2-rpdo-pending', f, site, None)
        ctx.find(P, 'RF2-rpdo-pending', f, 'no-pending-marker', m.loc(f, m.funcs[f].line),
                 'the write of a synchronous RPDO on SYNC is not controlled by anything COSyncRx records on reception '
                 '(fields tested: %s; fields written on reception: %s): every SYNC rewrites the mapped objects with the '
                 'last (initially all-zero) buffered frame' % (sorted(cond_fields), sorted(rx_fields)))


def rpdo_layout(ctx):
    """payload distribution: a mapped object after a dummy entry of width w receives the little-endian
    field that starts at byte w (producer CORPdoGetMap / consumer CORPdoWrite agree on dummies)"""
    m = ctx.m
    P = ['C13']
    f = 'CORPdoWrite'
    for w in (0, 1, 2, 3, 4):
        for sz in (1, 2, 4):
            inputs = {'pdo->ObjNum': 2 if w else 1}
            k = 0
            if w:
                inputs['pdo->Map[0]'] = 0
                inputs['pdo->Size[0]'] = w
                k = 1
            inputs['pdo->Map[%d]' % k] = 1
            inputs['pdo->Size[%d]' % k] = sz
            inputs['call:COObjGetSize'] = sz
            for i in range(8):
                inputs['frm->Data[%d]' % i] = 0x10 + i
            trs = _run(m, f, inputs, filt=lambda k_, fld: False, sets=True)
            site = 'CORPdoWrite dummy width %d then %d-byte object' % (w, sz)
            exp = sum((0x10 + w + j) << (8 * j) for j in range(sz))
            bad = None
            for t in trs:
                # up to the first object write (the write itself may, in the over-approximated call graph,
                # reconfigure the PDO, after which the loop bound no longer folds)
                ev = []
                for e in t.events:
                    ev.append(e)
                    if e[0] == 'call' and e[1] == 'COObjWrValue':
                        break
                wr = [e for e in ev if e[0] == 'call' and e[1] == 'COObjWrValue']
                vals = [e[2] for e in ev if e[0] == 'set' and e[1] in ('val08', 'val16', 'val32') and e[2] is not None]
                if len(wr) != 1:
                    bad = '%d object writes' % len(wr)
                elif not vals or vals[-1] != exp:
                    bad = 'object receives %s, required %Xh (bytes %d..%d little-endian)' % (
                        [hex(v) for v in vals[-1:]], exp, w, w + sz - 1)
            if bad:
                ctx.ob(P, 'RF1-rpdo-layout', f, site, None)
                ctx.find(P, 'RF1-rpdo-layout', f, 'layout:%d:%d' % (w, sz), m.loc(f, m.funcs[f].line), '%s: %s' % (site, bad))
            else:
                ctx.ob(P, 'RF1-rpdo-layout', f, site, 'field at byte %d' % w)
    # producer side: CORPdoGetMap stores one slot per entry, dummies as null object with their width
    f = 'CORPdoGetMap'
    NONE = m.enum('CO_ERR_NONE')
    for link in (2, 3, 4, 5, 6, 7, 0x2100):
        bits = 16
        trs = _run(m, f, {'num': 0, 'call:CODictRdByte': NONE, 'out:CODictRdByte:2': 1, 'call:CODictRdLong': NONE,
                          'out:CODictRdLong:2': (link << 16) | bits, 'call:CODictFind': 1},
                   filt=lambda k_, fld: fld is not None and fld[0] == 'CO_RPDO')
        site = 'CORPdoGetMap entry %04Xh/%d bit' % (link, bits)
        bad = None
        for t in trs:
            st = {}
            for e in t.stores():
                st[e[1]] = e[2]
            mp = [v for k_, v in st.items() if k_.endswith('.Map[0]')]
            szs = [v for k_, v in st.items() if k_.endswith('.Size[0]')]
            on = [v for k_, v in st.items() if k_.endswith('.ObjNum')]
            if on != [1] or szs != [2]:
                bad = 'ObjNum %s Size[0] %s' % (on, szs)
            if link <= 7 and mp != [0]:
                bad = 'dummy entry stored as object %s' % mp
            if link > 7 and mp != [1]:
                bad = 'mapped object not stored (%s)' % mp
            finds = t.call_names().count('CODictFind')
            if finds != (0 if link <= 7 else 1):
                bad = 'dictionary lookups: %d' % finds
        if bad:
            ctx.ob(P, 'RF1-rpdo-layout', f, site, None)
            ctx.find(P, 'RF1-rpdo-layout', f, 'map:%X' % link, m.loc(f, m.funcs[f].line), '%s: %s' % (site, bad))
        else:
            ctx.ob(P, 'RF1-rpdo-layout', f, site, 'one slot, width 2')


def _mask_passthrough(m, call, ref):
    """`mask = Helper(..., mask, ...)` where Helper is a stage extracted from the dispatch cascade: it returns the mask it was
    given or 0 (the frame was claimed), i.e. it can only clear service bits, never set one"""
    if call is None or call.k != 'call':
        return False
    nm = callee_name(call)
    if nm is None or not m.is_new_helper(nm):
        return False
    fn = m.funcs[nm]
    idx = [i for i, a in enumerate(call.kids[1:]) if strip(a) is not None and strip(a).k == 'ref' and strip(a).ref == ref]
    prm = set(fn.params[i][3] for i in idx if i < len(fn.params))
    if not prm:
        return False
    for n in walk(fn.body):
        if n.k == 'bin' and n.op.endswith('=') and n.op not in ('==', '!=', '<=', '>='):
            l = strip(n.kids[0])
            if l.k == 'ref' and l.ref in prm and not (n.op == '=' and const_eval(n.kids[1]) == 0):
                return False
        if n.k == 'ret':
            e = strip(n.kids[0]) if n.kids else None
            if e is None or not (const_eval(e) == 0 or (e.k == 'ref' and e.ref in prm)):
                return False
    return True


def _local_mask_gate(m, fname, nid):
    """gates on a local copy of the Allowed mask (CONodeProcess keeps it in `allowed`)"""
    out = []
    d = m.defs_of(fname)
    for f in (m.facts(fname).get(nid) or ()):
        x = strip(f.x)
        if x.k == 'bin' and x.op in ('==', '!=', '>'):
            a, b = x.kids
            for (l, r) in ((a, b), (b, a)):
                ls = strip(l)
                if ls.k == 'bin' and ls.op == '&' and const_eval(r, m) == 0:
                    p, q = ls.kids
                    for (u, v) in ((p, q), (q, p)):
                        mk = const_eval(v, m)
                        us = strip(u)
                        if mk is not None and us.k == 'ref' and us.refk == 'VarDecl':
                            # every reaching definition of the local is the Allowed field or the constant 0
                            okdef = True
                            for dn in d.defs(f.nid, us.ref):
                                if dn < 0:
                                    okdef = False
                                    continue
                                node = m.cfg(fname).nodes[dn]
                                for (pp, rhs, n) in flow.assigned_paths(node.x):
                                    if pp is not None and len(pp) == 1 and pp[0][1] == us.ref:
                                        r0 = strip(rhs) if rhs is not None else None
                                        if not (r0 is not None and ((r0.k == 'mem' and r0.field == ('CO_NMT', 'Allowed')) or const_eval(r0) == 0
                                                                    or _mask_passthrough(m, r0, us.ref))):
                                            okdef = False
                            if okdef and ((x.op in ('!=', '>')) == f.pol):
                                out.append(mk)
    return out


# registration flags: (flag field, bit, sync-table side) - the bit mirrors "this PDO is registered in the SYNC table"
REG_FLAGS = [(('CO_RPDO', 'Flag'), 0x02, 'CO_SYNC_FLG_RX', ['C13', 'C14', 'C16']),
             (('CO_TPDO', 'Flags'), 0x04, 'CO_SYNC_FLG_TX', ['C12', 'C14', 'C16'])]


def sync_registration(ctx):
    """The S bit of a PDO's flag word is the only record of its registration in the SYNC table (COSyncAdd).
    Every store that may clear it must be preceded, on every path, by COSyncRemove for that side or by a test /
    store that shows the bit is already clear - otherwise the stale table entry keeps the PDO synchronous: SYNC
    re-applies an old buffered RPDO frame / transmits a TPDO that is no longer synchronous.
    Constructor-only functions (reachable only from CONodeInit) start from a fresh record and are exempt."""
    m = ctx.m
    from tables import api
    roots = [f for f in m.funcs if (f in api.PUBLIC_API and f != 'CONodeInit')]
    roots += [f for fs in m.slots.values() for f in fs if f in m.funcs]
    roots += [f for f in m.cb_args.get(('COTmrCreate', 3), ()) if f in m.funcs]
    live = m.reachable_funcs(roots)
    nsites = 0
    for (fld, bit, side, props) in REG_FLAGS:
        sidev = m.enum(side) if side in m.enums else None
        for fname in sorted(m.funcs):
            fn = m.funcs[fname]
            g = m.cfg(fname)
            stores = [(nd, l, rhs, n) for nd in g.nodes if nd.x is not None for (l, rhs, n) in m.field_stores(nd.x, fld)]
            if not stores:
                continue

            def clears(n):
                if n.k == 'bin' and n.op == '|=':
                    return False
                c = const_eval(n.kids[1], m) if n.k == 'bin' else None
                if n.k == 'bin' and n.op == '&=':
                    return c is None or (c & bit) == 0
                if n.k == 'bin' and n.op == '=':
                    return c is None or (c & bit) == 0
                return True

            def sets(n):
                c = const_eval(n.kids[1], m) if n.k == 'bin' else None
                if n.k == 'bin' and n.op == '|=':
                    return c is None or (c & bit) != 0
                if n.k == 'bin' and n.op == '=':
                    return c is None or (c & bit) != 0
                return False

            busy = set()

            def tr(node, st):
                if node.x is None:
                    return st
                for c in walk(node.x):
                    if c.k == 'call':
                        nm = callee_name(c)
                        if nm == 'COSyncRemove' and (sidev is None or len(c.kids) < 4 or const_eval(c.kids[3], m) in (None, sidev)):
                            st = True
                        elif nm == 'COSyncAdd':
                            st = False
                        elif nm is not None and m.is_new_helper(nm) and nm not in busy:
                            # a helper extracted from the function (`Detach`: flag test + COSyncRemove): its effect is what its
                            # own body establishes on every path
                            busy.add(nm)
                            try:
                                g2 = m.cfg(nm)
                                IN2, OUT2 = flow.forward(g2, st, tr, lambda a, b: a and b, edge=edge)
                                r2 = IN2.get(g2.exit.id)
                                if r2 is not None:
                                    st = r2
                            finally:
                                busy.discard(nm)
                for (l, rhs, n) in m.field_stores(node.x, fld):
                    if n.k == 'bin' and n.op == '=' and const_eval(n.kids[1], m) is not None and (const_eval(n.kids[1], m) & bit) == 0:
                        st = True
                    elif sets(n):
                        st = False
                return st

            def edge(node, lab, st):
                if node.kind != 'br' or node.x is None:
                    return st
                x = strip(node.x)
                # (F & S) != 0 / == 0 / plain (F & S)
                e0, pol = x, True
                if x.k == 'bin' and x.op in ('==', '!=') and const_eval(x.kids[1], m) == 0:
                    e0, pol = strip(x.kids[0]), (x.op == '!=')
                if e0.k == 'bin' and e0.op == '&':
                    a, b = strip(e0.kids[0]), strip(e0.kids[1])
                    for (p, q) in ((a, b), (b, a)):
                        if p.k == 'mem' and p.field == fld and const_eval(q, m) is not None and (const_eval(q, m) & bit) != 0:
                            bit_set_on = pol      # condition true <=> (some of the tested bits) set
                            if lab != bit_set_on and const_eval(q, m) == bit:
                                return True       # this edge: the bit is clear
                return st
            IN, OUT = flow.forward(g, False, tr, lambda a, b: a and b, edge=edge)
            for (nd, l, rhs, n) in stores:
                if not clears(n):
                    continue
                nsites += 1
                site = '%s: %s' % (m.loc(fname, n), show(n))
                if fname not in live:
                    ctx.ob(props, 'RF2-sync-reg', fname, site, 'constructor only (fresh record)', nontrivial=False)
                    continue
                st = IN.get(nd.id)
                if st is None:
                    continue
                # state just before this store inside the node: replay the node's earlier effects conservatively
                if st:
                    ctx.ob(props, 'RF2-sync-reg', fname, site, 'S bit known clear or COSyncRemove called on every path')
                else:
                    ctx.ob(props, 'RF2-sync-reg', fname, site, None)
                    ctx.find(props, 'RF2-sync-reg', fname, 'flag-cleared-without-remove:%s.%s' % fld, m.loc(fname, n),
                             '%s may clear the "registered in the SYNC table" bit of %s.%s although on some path neither '
                             'COSyncRemove was called nor the bit is known to be clear: the PDO stays in the SYNC table after '
                             'it stopped being synchronous (stale buffered frame applied / TPDO sent on SYNC)' % (show(n), fld[0], fld[1]))
    ctx.inst('PDO.sync-reg.clearing-stores', nsites)
    ctx.require_min(['C12', 'C13', 'C16'], 'RF2-sync-reg', nsites, 3, 'stores that may clear a SYNC registration bit')


def link_table(ctx):
    """object -> TPDO link table (COTPdoMapAdd): a link is a PAIR (object, TPDO number).  Adding (obj, n) takes the
    first free slot whatever the earlier slots hold - in particular when the same object is already linked to ANOTHER
    TPDO (one signal mapped into two event-driven TPDOs: each must be triggered by a change of the object)."""
    m = ctx.m
    f = 'COTPdoMapAdd'
    m.need(f)
    props = ['C12', 'C14']
    OBJ, OTHER = 0x9000, 0x8000
    for (first_obj, first_num, what) in ((OBJ, 0, 'the same object linked to another TPDO'), (OTHER, 2, 'another object linked to the same TPDO'),
                                         (OTHER, 0, 'another object, another TPDO')):
        pe = PEval(m, f)
        pe.record_sets = False
        pe.store_filter = lambda k, fld: fld is not None and fld[0] == 'CO_TPDO_LINK'
        trs = pe.run({'map': 1, 'obj': OBJ, 'num': 2, 'map[0].Obj': first_obj, 'map[0].Num': first_num, 'map[1].Obj': 0})
        site = 'COTPdoMapAdd(obj, 2) with slot 0 = %s' % what
        bad = None
        for t in trs:
            st = dict((e[1], e[2]) for e in t.stores())
            if st != {'map[1].Obj': OBJ, 'map[1].Num': 2}:
                bad = 'stores %s, required the pair (obj, 2) in the first free slot 1' % (st or 'nothing')
        if not trs:
            bad = 'no path'
        if bad:
            ctx.ob(props, 'RF2-tpdo-link', f, site, None)
            ctx.find(props, 'RF2-tpdo-link', f, 'link:%s' % what[:30], m.loc(f, m.funcs[f].line), '%s: %s' % (site, bad))
        else:
            ctx.ob(props, 'RF2-tpdo-link', f, site, 'pair stored in the first free slot')


def run(ctx):
    link_table(ctx)
    sync_registration(ctx)
    tpdo_tx_gates(ctx)
    sync_tables(ctx)
    sync_counting(ctx)
    type_tables(ctx)
    rpdo_dispatch(ctx)
    rpdo_layout(ctx)


def tpdo_layout(ctx):
    """TPDO payload layout: the mapped objects are packed back to back, little endian, each with the width its mapping
    entry says (1, 2, 3 = 24 bit of a 32-bit object, 4 bytes), DLC = sum of the widths, identifier = the TPDO's - decided by
    folding the packing code of COTPdoTx over mapping classes (the values come from bound object reads)."""
    m = ctx.m
    f = 'COTPdoTx'
    m.need(f)
    P = ['C12']
    V = [0x44332211, 0x88776655, 0xCCBBAA99]
    for widths in ((1,), (2,), (4,), (3,), (1, 2), (2, 4), (1, 2, 4), (4, 4), (1, 1, 1), (3, 1), (2, 3), (1, 4, 2)):
        inputs = {'pdo': 1, 'pdo->Node->Nmt.Allowed': 0xFF, 'pdo->Identifier': 0x181, 'pdo->Flags': 0, 'pdo->EvTmr': -1, 'pdo->Inhibit': 0,
                  'pdo->Event': 0, 'pdo->ObjNum': len(widths)}
        for i, w in enumerate(widths):
            inputs['pdo->Size[%d]' % i] = w
            inputs['pdo->Map[%d]' % i] = 0x7000 + i
            inputs['call:COObjGetSize#%d' % i] = 4 if w == 3 else w
            inputs['out:COObjRdValue#%d:2' % i] = V[i] & ((1 << (8 * (4 if w == 3 else w))) - 1)
        pe = PEval(m, f)
        pe.record_sets = False
        pe.store_filter = lambda k, fld: fld is not None and fld[0] == 'CO_IF_FRM'
        pe.keep_prefixes = ('pdo->',)
        trs = pe.run(inputs)
        exp = []
        for i, w in enumerate(widths):
            exp += [(V[i] >> (8 * b)) & 0xFF for b in range(w)]
        site = 'COTPdoTx mapping widths %s' % (widths,)
        bad = None
        if len(trs) != 1:
            bad = '%d paths' % len(trs)
        for t in trs:
            fr = {}
            for e in t.stores():
                fr[e[1]] = e[2]
            got = [fr.get('frm.Data[%d]' % i) for i in range(len(exp))]
            if t.call_names().count('COIfCanSend') != 1:
                bad = 'sends %d frames' % t.call_names().count('COIfCanSend')
            elif fr.get('frm.DLC') != len(exp):
                bad = 'DLC %s, required %d' % (fr.get('frm.DLC'), len(exp))
            elif got != exp:
                bad = 'payload %s, required %s' % ([('%02X' % b) if b is not None else '??' for b in got], ['%02X' % b for b in exp])
            elif fr.get('frm.Identifier') != 0x181:
                bad = 'identifier %s' % fr.get('frm.Identifier')
        if bad:
            ctx.ob(P, 'RF13-tpdo-layout', f, site, None)
            ctx.find(P, 'RF13-tpdo-layout', f, 'layout:%s' % '-'.join(map(str, widths)), m.loc(f, m.funcs[f].line), '%s: %s' % (site, bad))
        else:
            ctx.ob(P, 'RF13-tpdo-layout', f, site, 'packed back to back, little endian')


_run_before_layout = run


def run(ctx):
    _run_before_layout(ctx)
    tpdo_layout(ctx)


def sync_rx_table(ctx):
    """COSyncRx buffers a synchronous RPDO for the next SYNC: the frame goes into the slot of the registered RPDO with the
    same identifier - all eight data bytes, the DLC and the pending marker - WHETHER OR NOT a frame is already pending
    there (the last reception before the SYNC is the one that counts), and a frame for another identifier touches
    nothing."""
    m = ctx.m
    f = 'COSyncRx'
    m.need(f)
    props = ['C13']
    nslots = m.extent('CO_SYNC', 'RPdo', 4)
    for (fid, pend) in ((0x201, 0), (0x201, 0x201), (0x201, 0x7FF), (0x202, 0), (0x202, 0x201)):
        pe = PEval(m, f)
        pe.record_sets = False
        pe.store_filter = lambda k, fld: fld is not None and fld[0] in ('CO_IF_FRM', 'CO_SYNC')
        inp = {'sync': 1, 'frm': 1, 'frm->Identifier': fid, 'frm->DLC': 8, 'sync->RPdo[0]': 1, 'sync->RPdo[0]->Identifier': 0x201,
               'sync->RFrm[0].Identifier': pend}
        for i in range(1, nslots):
            inp['sync->RPdo[%d]' % i] = 0
        trs = pe.run(inp)
        site = 'COSyncRx frame %Xh for a slot registered with 201h, pending marker %Xh' % (fid, pend)
        bad = None
        if not trs:
            bad = 'no path'
        for t in trs:
            st = dict((e[1], e[2]) for e in t.stores())
            if fid == 0x201:
                missing = [n for n in range(8) if 'sync->RFrm[0].Data[%d]' % n not in st]
                if missing:
                    bad = 'data bytes %s of the received frame are not buffered%s' % (missing, ' although the identifier matches (a frame is '
                                                                                      'already pending: the later reception is dropped)' if pend else '')
                elif st.get('sync->RFrm[0].DLC') != 8 or st.get('sync->RFrm[0].Identifier') != 0x201:
                    bad = 'DLC / pending marker after buffering: %s / %s' % (st.get('sync->RFrm[0].DLC'), st.get('sync->RFrm[0].Identifier'))
            elif st:
                bad = 'a frame for another identifier writes %s' % sorted(st)[:3]
        if bad:
            ctx.ob(props, 'RF1-sync-rx', f, site, None)
            ctx.find(props, 'RF1-sync-rx', f, 'rx:%X:%X' % (fid, pend), m.loc(f, m.funcs[f].line), '%s: %s' % (site, bad))
        else:
            ctx.ob(props, 'RF1-sync-rx', f, site, 'buffered completely' if fid == 0x201 else 'ignored')


_run_before_syncrx = run


def run(ctx):
    _run_before_syncrx(ctx)
    sync_rx_table(ctx)


def link_table_rebuilt(ctx):
    """The object -> TPDO link table (which TPDOs a changed object triggers) is REBUILT by every TPDO initialisation: the table
    is cleared before the mappings are walked again.  Without the clear every re-entry into OPERATIONAL adds the links a second
    time, and one change of an object sends the TPDO once per earlier start."""
    m = ctx.m
    f = 'COTPdoInit'
    m.need(f, 'COTPdoMapAdd')
    props = ['C12', 'C09']
    g = m.cfg(f)
    LINK_OBJ = ('CO_TPDO_LINK', 'Obj')

    def reaches(callee, target):
        return callee is not None and (callee == target or target in m.reachable_funcs([callee]))

    def clears_table(fn_name):
        # a loop over the link table that stores a null object into every entry (the helper may have been inlined)
        g2 = m.cfg(fn_name)
        heads = set()
        for lp in g2.loops:
            for nid in lp.nodes:
                nd = g2.nodes[nid]
                if nd.x is not None and any(const_eval(rhs, m) == 0 for (l_, rhs, n_) in m.field_stores(nd.x, LINK_OBJ) if rhs is not None):
                    heads.add(lp.head)
        return heads
    clear = set(nd.id for nd in g.nodes if nd.x is not None and any(
        c.k == 'call' and callee_name(c) in m.funcs and callee_name(c) != 'COTPdoMapAdd' and not reaches(callee_name(c), 'COTPdoMapAdd')
        and clears_table(callee_name(c)) for c in walk(nd.x)))
    clear |= clears_table(f)
    adders = [nd for nd in g.nodes if nd.x is not None and nd.id not in clear and
              any(c.k == 'call' and reaches(callee_name(c), 'COTPdoMapAdd') for c in walk(nd.x))]
    ctx.require_min(props, 'RF2-tpdo-links', len(adders), 1, 'calls in COTPdoInit that (re)build object -> TPDO links')
    r = flow.reach_from(g, g.entry.id, avoid=clear, include_start=True)
    for nd in adders:
        site = '%s: %s' % (m.loc(f, nd.line), show(nd.x)[:60])
        if nd.id in r:
            ctx.ob(props, 'RF2-tpdo-links', f, site, None)
            ctx.find(props, 'RF2-tpdo-links', f, 'links-not-cleared', m.loc(f, nd.line),
                     'COTPdoInit rebuilds the object -> TPDO links (%s) on a path that has not cleared the link table (COTPdoMapClear): every '
                     're-entry into OPERATIONAL adds the links again and one change of a mapped object sends the TPDO several times' % show(nd.x)[:50])
        else:
            ctx.ob(props, 'RF2-tpdo-links', f, site, 'link table cleared first on every path')


_run_before_links = run


def run(ctx):
    _run_before_links(ctx)
    link_table_rebuilt(ctx)
