"""RF4 - lock discipline of the timer lists (C08).
L1 lock/unlock balanced on every path (depth 0 at every return, never 2, never -1).
L2 every store to a list head CO_TMR.{Use,Elapsed,Free,Acts} / link field and every load of a head whose
   value is kept or dereferenced happens inside the critical section (depth 1); static helpers inherit
   the depth of all their call sites.  A load that is only compared with null in a branch is allowed
   outside (the head is re-loaded under the lock before use).
L3 the interrupt-level service never calls lock/unlock and stores only to Use / Elapsed and links of
   the event it moves."""
from canalyze.ir import walk, strip, const_eval, show, callee_name
from canalyze import flow

P = ['C08']
HEADS = set([('CO_TMR', 'Use'), ('CO_TMR', 'Elapsed'), ('CO_TMR', 'Free'), ('CO_TMR', 'Acts')])
# links of *events*: an event is always a member of a shared list (or the free pool).  Links of actions are not
# listed: COTmrProcess works on the action chain of an event it has detached under the lock (private).
LINKS = set([('CO_TMR_TIME', 'Next'), ('CO_TMR_TIME', 'Action'), ('CO_TMR_TIME', 'ActionEnd'),
             ('CO_TMR_TIME', 'Delta')])
ISR = 'COTmrService'
LOCK, UNLOCK = 'COTmrLock', 'COTmrUnlock'
# pool construction before the node runs: the lists are not shared yet
MIN_FUNCS = 6


def _depths(m, fname, entry):
    g = m.cfg(fname)

    def tr(node, s):
        if node.x is None:
            return s
        out = s
        for c in walk(node.x):
            if c.k == 'call':
                n = callee_name(c)
                if n == LOCK:
                    out = frozenset(d + 1 for d in out)
                elif n == UNLOCK:
                    out = frozenset(d - 1 for d in out)
        return out
    IN, OUT = flow.forward(g, frozenset(entry), tr, lambda a, b: a | b)
    return g, IN, OUT


def run(ctx):
    m = ctx.m
    m.need(ISR, 'COTmrCreate', 'COTmrDelete', 'COTmrProcess', 'COTmrInit')
    funcs = sorted(f for f, fn in m.funcs.items() if fn.unit.endswith('co_tmr.c'))
    touching = []
    for f in funcs:
        fn = m.funcs[f]
        if any(n.k == 'mem' and n.field in HEADS for n in walk(fn.body)) or \
                any(callee_name(n) in (LOCK, UNLOCK) for n in walk(fn.body) if n.k == 'call'):
            touching.append(f)
    ctx.inst('RF4.functions', len(touching))
    ctx.require_min(P, 'RF4', len(touching), MIN_FUNCS, 'timer functions touching the shared lists')
    # lock sites outside co_tmr.c are a who-may-call violation
    for (caller, call) in m.call_sites(LOCK) + m.call_sites(UNLOCK):
        if caller not in funcs:
            ctx.find(P, 'RF4-L1', caller, 'foreign-lock', m.loc(caller, call),
                     '%s calls the timer lock outside the timer module' % caller)
    # entry depths: public functions 0; static helpers = union over call sites (fixpoint)
    entry = dict((f, set([0])) for f in touching if not m.funcs[f].static)
    for f in touching:
        if m.funcs[f].static:
            entry[f] = set()
    res = {}
    for _ in range(4):
        changed = False
        for f in touching:
            if not entry[f]:
                continue
            res[f] = _depths(m, f, entry[f])
        for f in touching:
            if not m.funcs[f].static:
                continue
            acc = set()
            for (gname, call) in m.callers.get(f, []):
                if gname in res:
                    g, IN, OUT = res[gname]
                    nid = m.node_of(gname, call)
                    # depth at the call = IN depth adjusted by lock calls earlier in the same statement (none here)
                    if IN.get(nid) is not None:
                        acc |= set(IN[nid])
            if acc != entry[f]:
                entry[f] = acc
                changed = True
        if not changed:
            break
    for f in touching:
        if f not in res:
            continue
        g, IN, OUT = res[f]
        fn = m.funcs[f]
        # ---- L1
        bad = None
        for nid, ds in IN.items():
            node = g.nodes[nid]
            if any(d < 0 or d > 1 for d in ds):
                bad = (node, ds, 'lock depth %s' % sorted(ds))
        if not fn.static and f != ISR:
            for (pred, lab) in g.exit.pred:
                ds = OUT.get(pred)
                if ds is not None and ds != frozenset([0]):
                    bad = (g.nodes[pred], ds, 'returns with lock depth %s' % sorted(ds))
        else:
            for (pred, lab) in g.exit.pred:
                ds = OUT.get(pred)
                if ds is not None and ds != frozenset(entry[f]) and len(entry[f]) == 1:
                    bad = (g.nodes[pred], ds, 'helper changes the lock depth (%s -> %s)' % (sorted(entry[f]), sorted(ds)))
        site = '%s lock balance' % f
        if bad:
            ctx.ob(P, 'RF4-L1', f, site, None)
            ctx.find(P, 'RF4-L1', f, 'unbalanced', m.loc(f, bad[0].line),
                     '%s: %s at line %d - the critical section is not closed (or closed twice) on some path; with lock '
                     'callbacks that mask the tick interrupt this stops the timer service' % (f, bad[2], bad[0].line))
        else:
            ctx.ob(P, 'RF4-L1', f, site, 'depth 0 at every exit, never 2, never -1')
        # ---- L3
        if f == ISR:
            calls = [callee_name(n) for n in walk(fn.body) if n.k == 'call']
            stores = set()
            for n in walk(fn.body):
                if n.k == 'bin' and n.op.endswith('=') and n.op not in ('==', '!=', '<=', '>='):
                    l = strip(n.kids[0])
                    if l.k == 'mem' and (l.field in HEADS or l.field in LINKS):
                        stores.add(l.field)
            okf = set([('CO_TMR', 'Use'), ('CO_TMR', 'Elapsed'), ('CO_TMR_TIME', 'Next')])
            if LOCK in calls or UNLOCK in calls or not stores <= okf:
                ctx.ob(P, 'RF4-L3', f, 'interrupt-level service', None)
                ctx.find(P, 'RF4-L3', f, 'isr-discipline', m.loc(f, fn.line),
                         'the tick service (interrupt context) %s' % ('calls the task-level lock' if (LOCK in calls or UNLOCK in calls)
                                                                        else 'stores to %s' % sorted(stores - okf)))
            else:
                ctx.ob(P, 'RF4-L3', f, 'interrupt-level service', 'no lock calls; moves only the head event (stores: %s)' % sorted(s[1] for s in stores))
            continue
        # ---- L2
        if f == 'COTmrClear':
            continue
        for node in g.nodes:
            if node.x is None or node.id not in g.reachable or IN.get(node.id) is None:
                continue
            # depth while the statement executes: lock/unlock are statements of their own in this code base
            ds = IN[node.id]
            cmp_only = set()
            if node.kind == 'br':
                x = strip(node.x)
                if x.k == 'bin' and x.op in ('==', '!='):
                    a, b = x.kids
                    for (l, r) in ((a, b), (b, a)):
                        if const_eval(r) == 0 and strip(l).k == 'mem':
                            cmp_only.add(id(strip(l)))
                elif x.k == 'mem':
                    cmp_only.add(id(x))
            lhs_ids = {}
            for n in walk(node.x):
                if n.k == 'bin' and n.op.endswith('=') and n.op not in ('==', '!=', '<=', '>='):
                    l = strip(n.kids[0])
                    if l.k == 'mem':
                        lhs_ids[id(l)] = n
                elif n.k == 'un' and n.op in ('++', '--', 'post++', 'post--'):
                    l = strip(n.kids[0])
                    if l.k == 'mem':
                        lhs_ids[id(l)] = n
            for n in walk(node.x):
                if n.k != 'mem':
                    continue
                is_store = id(n) in lhs_ids
                if n.field in HEADS or (is_store and n.field in LINKS):
                    site = '%s: %s %s' % (m.loc(f, n), 'store to' if is_store else 'load of', show(n))
                    if id(n) in cmp_only and not is_store:
                        ctx.ob(P, 'RF4-L2', f, site, 'null comparison only (re-loaded under the lock before use)', nontrivial=False)
                        continue
                    if ds == frozenset([1]):
                        ctx.ob(P, 'RF4-L2', f, site, 'inside the critical section')
                    else:
                        ctx.ob(P, 'RF4-L2', f, site, None)
                        ctx.find(P, 'RF4-L2', f, 'unlocked:%s:%s' % ('store' if is_store else 'load', n.field[1]),
                                 m.loc(f, n),
                                 '%s of shared timer list field %s at lock depth %s: the tick interrupt may change the '
                                 'list between this access and the locked update' %
                                 ('store to' if is_store else 'load (value kept / dereferenced)', show(n), sorted(ds)))
