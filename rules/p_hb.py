"""Heartbeat producer (C10 a, b) and consumer (C11 b, d, e and the last-state ownership rule)."""
from canalyze.ir import is_pointer, walk, strip, const_eval, show, callee_name
from canalyze import flow
from canalyze.peval import PEval


def _run(m, fname, inputs, filt=None, sets=False):
    pe = PEval(m, fname)
    pe.record_sets = sets
    if filt is not None:
        pe.store_filter = filt
    base = {}
    for prm in m.funcs[fname].params:
        if is_pointer(prm[2]):
            base[prm[0]] = 1
    base.update(inputs)
    return pe.run(base)


def _rep(ctx, props, rule, f, site, bad):
    m = ctx.m
    if bad:
        ctx.ob(props, rule, f, site, None)
        ctx.find(props, rule, f, bad.split(',')[0].split('(')[0][:55].strip(), m.loc(f, m.funcs[f].line), '%s: %s' % (site, bad))
    else:
        ctx.ob(props, rule, f, site, 'ok')


def producer(ctx):
    m = ctx.m
    P = ['C10']
    NONE = m.enum('CO_ERR_NONE')
    # frame shape and gate
    f = 'CONmtHbProdSend'
    m.need(f, 'COTNmtHbProdWrite', 'COTNmtHbProdInit')
    for mode in ('CO_PREOP', 'CO_OPERATIONAL', 'CO_STOP'):
        code = {'CO_PREOP': 127, 'CO_OPERATIONAL': 5, 'CO_STOP': 4}[mode]
        trs = _run(m, f, {'nmt->Allowed': 1, 'nmt->Mode': m.enum(mode), 'nmt->Node->NodeId': 9, 'call:CONmtModeEncode': code},
                   filt=lambda k, fld: fld is not None and fld[0] == 'CO_IF_FRM')
        bad = None
        for t in trs:
            fr = dict((e[1], e[2]) for e in t.stores())
            enc = [c[2][0] for c in t.calls() if c[1] == 'CONmtModeEncode']
            if t.call_names().count('COIfCanSend') != 1:
                bad = 'sends %d frames' % t.call_names().count('COIfCanSend')
            elif fr.get('frm.Identifier') != 0x700 + 9 or fr.get('frm.DLC') != 1 or fr.get('frm.Data[0]') != code:
                bad = 'frame %s, required id 700h+node-id, DLC 1, state byte %d' % (fr, code)
            elif enc != [m.enum(mode)]:
                bad = 'encodes mode %s instead of the current mode' % enc
        _rep(ctx, P, 'RF1-hb-frame', f, 'heartbeat frame in %s' % mode, bad)
    # (b) write / init: delete first if running, cyclic action with start = cycle = ticks(value, 1 ms), zero stops
    for f, via in (('COTNmtHbProdWrite', 'write'), ('COTNmtHbProdInit', 'init')):
        for cyc in (0, 100, 1, 0xFFFF, None):
            for running in (0, 1):
                inputs = {'obj->Key': 0x10170000, 'size': 2, 'node->Nmt.Tmr': (3 if running else -1),
                          'call:COTmrDelete': 0, 'call:COTmrGetTicks': 100, 'call:COTmrCreate': 5,
                          'call:COTInt16Read': NONE, 'call:COTInt16Write': NONE}
                if cyc is not None:
                    inputs['*buffer'] = cyc
                    inputs['out:COTInt16Read:2'] = cyc
                trs = _run(m, f, inputs, filt=lambda k, fld: fld == ('CO_NMT', 'Tmr'))
                site = '%s value=%s running=%d' % (f, 'any' if cyc is None else cyc, running)
                if cyc is None:
                    # value left unbound: every path either arms the producer or stops it - no third outcome
                    bad = None
                    for t in trs:
                        cr = [c for c in t.calls() if c[1] == 'COTmrCreate']
                        dl = [c for c in t.calls() if c[1] == 'COTmrDelete']
                        last = [e[2] for e in t.stores()][-1:]
                        if len(dl) != running:
                            bad = 'running action deleted %d times on a path' % len(dl)
                        elif cr and (len(cr) != 1 or cr[0][2][1:3] != [100, 100] or last != [5]):
                            bad = 'a path arms the producer with %s (handle %s)' % ([c[2][1:3] for c in cr], last)
                        elif not cr and last != [-1] and t.ret in (NONE, None):
                            bad = 'a path accepts the value but neither arms nor stops the producer (handle %s)' % last
                    if not trs:
                        bad = 'no path'
                    _rep(ctx, P, 'RF2-hb-prod', f, site, bad)
                    continue
                bad = None
                for t in trs:
                    names = [n for n in t.call_names() if n in ('COTmrDelete', 'COTmrCreate', 'COTmrGetTicks')]
                    cr = [c for c in t.calls() if c[1] == 'COTmrCreate']
                    gt = [c for c in t.calls() if c[1] == 'COTmrGetTicks']
                    dl = [c for c in t.calls() if c[1] == 'COTmrDelete']
                    last = [e[2] for e in t.stores()][-1:]
                    if len(dl) != running or (dl and dl[0][2][1] != 3):
                        bad = 'running action deleted %d times' % len(dl)
                    elif cyc:
                        if len(cr) != 1 or cr[0][2][1:3] != [100, 100]:
                            bad = 'action created with start/cycle %s, required both = ticks of the heartbeat time' % ([c[2][1:3] for c in cr],)
                        elif show(strip(cr[0][4].kids[4])).replace('&', '') != 'CONmtHbProdSend':
                            bad = 'callback %s' % show(strip(cr[0][4].kids[4]))
                        elif not gt or gt[0][2][1] != cyc or gt[0][2][2] != 1000:
                            bad = 'ticks computed from (%s, unit %s), required (%d, 1 ms)' % ([c[2][1] for c in gt], [c[2][2] for c in gt], cyc)
                        elif names.index('COTmrCreate') < (names.index('COTmrDelete') if dl else -1):
                            bad = 'new action created before the old one is deleted'
                        elif last != [5]:
                            bad = 'handle after the write %s' % last
                    else:
                        if cr:
                            bad = 'heartbeat time 0 still creates an action'
                        elif last != [-1]:
                            bad = 'handle after stopping %s' % last
                _rep(ctx, P, 'RF2-hb-prod', f, site, bad)
    # delete failure surfaces and keeps the object
    f = 'COTNmtHbProdWrite'
    trs = _run(m, f, {'obj->Key': 0x10170000, 'size': 2, '*buffer': 50, 'node->Nmt.Tmr': 3, 'call:COTmrDelete': -1})
    bad = None
    for t in trs:
        if t.ret in (NONE, None) or any(n.endswith('Write') and n != f for n in t.call_names()):
            bad = 'failed delete: returns %s, object written %s' % (t.ret, [n for n in t.call_names() if n.endswith('Write')])
    _rep(ctx, P, 'RF2-hb-prod', f, 'COTmrDelete failure', bad)


def consumer(ctx):
    m = ctx.m
    P = ['C11']
    NONE = m.enum('CO_ERR_NONE')
    INCOMP = m.enum('CO_ERR_OBJ_INCOMPATIBLE')
    # (b) activation table: refused iff another/any entry monitors the node and time > 0
    f = 'CONmtHbConsActivate'
    m.need(f, 'CONmtHbConsCheck', 'CONmtHbConsMonitor', 'COTNmtHbConsWrite')
    g = m.cfg(f)
    # refusal path stores nothing: every path returning INCOMPATIBLE has no store to the entry / chain
    pe = PEval(m, f)
    pe.record_sets = False
    pe.store_filter = lambda k, fld: fld is not None and fld[0] in ('CO_HBCONS', 'CO_NMT')
    # duplicate refusal for every node id class (0 and 127 are ordinary ids for this stack): another chain member
    # monitors the same node and the time is non-zero => refused; otherwise accepted
    for nid_ in (0, 1, 5, 127):
        for time in (0, 100):
            for dup in (0, 1):
                trs = pe.run({'hbc': 1, 'time': time, 'nodeid': nid_, 'hbc->Node->Nmt.HbCons': 1, 'act->NodeId': nid_ if dup else (nid_ ^ 1),
                              'act->Next': 0, 'hbc->Tmr': -1, 'call:COTmrDelete': 0})
                site = 'activate node=%d time=%d while another entry monitors %s' % (nid_, time, 'the same node' if dup else 'another node')
                bad = None
                for t in trs:
                    refused = (t.ret == INCOMP)
                    if dup and time and not refused:
                        bad = 'accepted although another entry already monitors node %d' % nid_
                    if (not dup or not time) and refused:
                        bad = 'refused although no other entry monitors node %d with a running time' % nid_
                if not trs:
                    bad = 'no path'
                _rep(ctx, P, 'RF2-hbc-activate', f, site, bad)
    for time in (0, 100):
        trs = pe.run({'hbc': 1, 'time': time, 'nodeid': 5})
        for t in trs:
            refused = (t.ret == INCOMP)
            st = [e for e in t.stores()]
            if refused and (st or time == 0):
                ctx.find(P, 'RF2-hbc-activate', f, 'refusal-stores', m.loc(f, m.funcs[f].line),
                         'a refused activation (0604 0043h) has stored %s' % [(e[1], e[2]) for e in st][:4])
                ctx.ob(P, 'RF2-hbc-activate', f, 'refusal path time=%d' % time, None)
            elif refused:
                ctx.ob(P, 'RF2-hbc-activate', f, 'refusal path time=%d' % time, 'nothing stored')
            else:
                # accepted: entry gets exactly the written configuration, counter and state reset, handle released
                d = {}
                for e in st:
                    d[e[1]] = e[2]
                bad = None
                if d.get('hbc->Time') != time or d.get('hbc->NodeId') != 5 or d.get('hbc->Event') != 0 or d.get('hbc->Tmr') != -1 \
                        or d.get('hbc->State') != m.enum('CO_INVALID'):
                    bad = 'entry after activation %s' % dict((k, v) for k, v in d.items() if k.startswith('hbc->'))
                linked = [e for e in st if e[1].endswith('HbCons') and e[5] == 'hbc']
                if time > 0 and not linked:
                    bad = 'entry with time > 0 is not linked into the chain'
                if time == 0 and linked:
                    bad = 'entry with time 0 is linked into the chain'
                if t.ret not in (NONE, m.enum('CO_ERR_TMR_DELETE')):
                    bad = 'returns %s' % t.ret
                _rep(ctx, P, 'RF2-hbc-activate', f, 'accepted path time=%d (%d stores)' % (time, len(st)), bad)
    # the duplicate search compares the node id of every chain member
    # (d) event counter saturates, read clears; change callback iff state differs
    f = 'CONmtHbConsMonitor'
    for ev in (0, 254, 255):
        trs = _run(m, f, {'hbc->Event': ev, 'hbc->Time': 100, 'hbc->NodeId': 5, 'call:COTmrGetTicks': 100, 'call:COTmrCreate': 2},
                   filt=lambda k, fld: fld is not None and fld[0] == 'CO_HBCONS')
        bad = None
        for t in trs:
            d = dict((e[1].split('->')[-1], e[2]) for e in t.stores())
            cb = [c for c in t.calls() if c[1] == 'CONmtHbConsEvent']
            cr = [c for c in t.calls() if c[1] == 'COTmrCreate']
            if d.get('Event', ev) != min(ev + 1, 255):
                bad = 'event counter %d becomes %s' % (ev, d.get('Event', ev))
            elif len(cb) != 1 or cb[0][2][1] != 5:
                bad = 'event callback %s' % [c[2][1:] for c in cb]
            elif len(cr) != 1 or cr[0][2][1:3] != [100, 0]:
                bad = 'monitor re-armed with %s, required one-shot of the consumer time' % [c[2][1:3] for c in cr]
            elif t.call_names().index('COTmrCreate') > t.call_names().index('CONmtHbConsEvent'):
                bad = 'the application callback runs before the monitor is re-armed: a callback that re-configures this ' \
                      'entry (back-up node, switch off) is overridden by the re-arm with the old settings'
            extra = set(d) - set(['Event', 'Tmr'])
            if extra:
                bad = 'the timeout handler also writes %s: what the last received heartbeat recorded (state) must survive a ' \
                      'missed heartbeat' % sorted(extra)
        _rep(ctx, P, 'RF2-hbc-monitor', f, 'timeout with counter %d' % ev, bad)
    f = 'CONmtGetHbEvents'
    trs = _run(m, f, {'nodeId': 5, 'nmt->HbCons': 1, 'hbc->NodeId': 5, 'hbc->Event': 7, 'hbc->Next': 0}, filt=lambda k, fld: fld == ('CO_HBCONS', 'Event'))
    bad = None
    for t in trs:
        if t.ret != 7 or [e[2] for e in t.stores()] != [0]:
            bad = 'returns %s, counter stores %s (read must clear)' % (t.ret, [e[2] for e in t.stores()])
    _rep(ctx, P, 'RF2-hbc-monitor', f, 'event counter read', bad)
    f = 'CONmtHbConsCheck'
    for (old, new) in ((5, 5), (5, 127), (0, 4)):
        trs = _run(m, f, {'frm->Identifier': 0x705, 'frm->Data[0]': new, 'nmt->HbCons': 1, 'hbc->NodeId': 5, 'hbc->Tmr': 3, 'hbc->Time': 100,
                          'hbc->State': {5: m.enum('CO_OPERATIONAL'), 127: m.enum('CO_PREOP'), 0: m.enum('CO_INIT'), 4: m.enum('CO_STOP')}[old],
                          'call:CONmtModeDecode': {5: m.enum('CO_OPERATIONAL'), 127: m.enum('CO_PREOP'), 4: m.enum('CO_STOP')}[new],
                          'call:COTmrGetTicks': 100, 'call:COTmrCreate': 6, 'call:COTmrDelete': 0},
                   filt=lambda k, fld: fld is not None and fld[0] == 'CO_HBCONS')
        bad = None
        for t in trs:
            names = t.call_names()
            ch = names.count('CONmtHbConsChange')
            d = dict((e[1].split('->')[-1], e[2]) for e in t.stores())
            cr = [c for c in t.calls() if c[1] == 'COTmrCreate']
            if ch != (1 if old != new else 0):
                bad = 'state-change callback %d times for %d -> %d' % (ch, old, new)
            elif names.index('COTmrDelete') > names.index('COTmrCreate') if ('COTmrDelete' in names and 'COTmrCreate' in names) else False:
                bad = 'monitor re-armed before the running one is deleted'
            elif 'COTmrDelete' not in names or len(cr) != 1 or cr[0][2][1:3] != [100, 0]:
                bad = 're-arm: delete=%s create=%s' % ('COTmrDelete' in names, [c[2][1:3] for c in cr])
            elif t.ret != 5:
                bad = 'returns %s, required the node id (frame claimed)' % t.ret
        _rep(ctx, P, 'RF2-hbc-check', f, 'heartbeat state %d after %d' % (new, old), bad)
    # identifier filter, exhaustive over the 11-bit range plus extended identifiers whose low bits look like a
    # heartbeat: the frame belongs to the monitored node iff identifier == 700h + node id
    for node_ in (5, 0, 127):
        wrong = []
        idents = list(range(0x800)) + [0x10000700 + node_, 0x1ABC0700 + node_, 0x00000F00 + node_, 0x20000700 + node_, 0x00010700 + node_]
        for ident in idents:
            trs = _run(m, f, {'frm->Identifier': ident, 'frm->Data[0]': 5, 'nmt->HbCons': 1, 'hbc->NodeId': node_, 'hbc->Next': 0,
                              'hbc->Tmr': -1, 'hbc->Time': 100, 'call:CONmtModeDecode': m.enum('CO_OPERATIONAL'),
                              'call:COTmrGetTicks': 100, 'call:COTmrCreate': 6})
            exp = (ident == 0x700 + node_)
            for t in trs:
                hit = (t.ret is not None and t.ret >= 0) or 'COTmrCreate' in t.call_names()
                if hit != exp or t.ret is None:
                    wrong.append(ident)
                    break
        site = 'identifier filter, monitored node %d (%d identifiers)' % (node_, len(idents))
        bad = None
        if wrong:
            bad = 'identifiers %s are %s as heartbeat of node %d' % (
                ', '.join('%Xh' % i for i in wrong[:6]), 'not accepted' if wrong[0] == 0x700 + node_ else 'accepted', node_)
        # a frame the consumer claims wrongly never reaches the RPDO decoder / the application: C09 (claim discipline), C13
        _rep(ctx, P + ['C09', 'C13'], 'RF2-hbc-check', f, site, bad)
    # last-state ownership: CO_HBCONS.State is written only from a received frame or reset together with the configuration
    for fname, fn in sorted(m.funcs.items()):
        for n in walk(fn.body):
            if n.k == 'bin' and n.op.endswith('=') and n.op not in ('==', '!=', '<=', '>='):
                l = strip(n.kids[0])
                if l.k == 'mem' and l.field == ('CO_HBCONS', 'State'):
                    site = '%s: %s' % (m.loc(fname, n), show(n))
                    cfg_writer = any(x.k == 'bin' and x.op == '=' and strip(x.kids[0]).k == 'mem' and
                                     strip(x.kids[0]).field == ('CO_HBCONS', 'NodeId') for x in walk(fn.body))
                    from_frame = False
                    r = strip(n.kids[1])
                    if r.k == 'ref' and r.refk == 'VarDecl':
                        d = m.defs_of(fname)
                        nid = m.node_of(fname, n)
                        u = d.unique_def(nid, r.ref)
                        if u is not None and any(x.k == 'mem' and x.field == ('CO_IF_FRM', 'Data') for x in walk(u[1])):
                            from_frame = True
                    if from_frame or cfg_writer:
                        ctx.ob(P, 'RF2-hbc-state', fname, site, 'from the received frame' if from_frame else 'reset together with the configuration')
                    else:
                        ctx.ob(P, 'RF2-hbc-state', fname, site, None)
                        ctx.find(P, 'RF2-hbc-state', fname, 'foreign-state-writer', m.loc(fname, n),
                                 '%s overwrites the last received heartbeat state outside reception / (re)configuration: the '
                                 'next identical heartbeat is then reported as a state change and CONmtLastHbState lies' % fname)


def consumer_entry_codec(ctx):
    """1016h:n is one 32-bit value: bits 0..15 heartbeat time, bits 16..23 node id (CiA 301).  The write hands exactly these
    two fields to the activation, the read composes exactly them; entries of another size are refused / not written."""
    m = ctx.m
    P = ['C11']
    NONE = m.enum('CO_ERR_NONE')
    wr, rd = 'COTNmtHbConsWrite', 'COTNmtHbConsRead'
    m.need(wr, rd)
    for value in (0x00051234, 0x007F0001, 0x0000FFFF, 0x00FF0000, 0x12345678, 0x00000000):
        trs = _run(m, wr, {'obj->Key': 0x10160100, 'obj->Data': 1, '*buffer': value, 'size': 4, 'call:CONmtHbConsActivate': NONE})
        bad = None
        for t in trs:
            ac = [c for c in t.calls() if c[1] == 'CONmtHbConsActivate']
            if len(ac) != 1 or ac[0][2][1:3] != [value & 0xFFFF, (value >> 16) & 0xFF]:
                bad = 'activation called with (time, node) = %s, required (%d, %d)' % ([c[2][1:3] for c in ac], value & 0xFFFF, (value >> 16) & 0xFF)
            elif t.ret != NONE:
                bad = 'returns %s' % t.ret
        if not trs:
            bad = 'no path'
        _rep(ctx, P, 'RF13-hbc-entry', wr, '1016h:01 write %08Xh' % value, bad)
    for size in (1, 2, 8):
        trs = _run(m, wr, {'obj->Key': 0x10160100, 'obj->Data': 1, '*buffer': 0x00051234, 'size': size})
        bad = None
        for t in trs:
            if 'CONmtHbConsActivate' in t.call_names() or t.ret in (NONE, None):
                bad = 'entry written with size %d: activation %s, returns %s' % (size, 'CONmtHbConsActivate' in t.call_names(), t.ret)
        _rep(ctx, P, 'RF13-hbc-entry', wr, '1016h:01 write with size %d is refused' % size, bad)
    for (time, node_) in ((0x1234, 5), (0xFFFF, 0x7F), (1, 0), (0, 0xFF)):
        trs = _run(m, rd, {'obj->Key': 0x10160100, 'obj->Data': 1, 'hbc->Time': time, 'hbc->NodeId': node_, 'size': 4},
                   filt=lambda k, fld: True)
        bad = None
        for t in trs:
            outs = [e[2] for e in t.stores() if e[1].startswith('*')]
            if outs[-1:] != [time | (node_ << 16)] or t.ret != NONE:
                bad = 'reads %s, required %08Xh' % ([hex(o) if o is not None else None for o in outs], time | (node_ << 16))
        if not trs:
            bad = 'no path'
        _rep(ctx, P, 'RF13-hbc-entry', rd, '1016h:01 read of (time %d, node %d)' % (time, node_), bad)


def run(ctx):
    producer(ctx)
    consumer(ctx)
    consumer_entry_codec(ctx)
