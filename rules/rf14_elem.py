"""RF14 - element consistency of service-record arrays.
Several services keep one record per instance in an array (SDO servers srv[n], SDO clients csdo[n], TPDOs /
RPDOs pdo[num]) and hand the array base to their functions together with an index.  In a function that
subscripts such a base pointer, a plain `base->field` access (or passing the bare base to a callee that treats
it as ONE record) silently means element 0: with a single instance configured the two coincide, so no test
sees the difference, with more instances the state of instance 0 decides what happens to instance n.
Rule: in every function that subscripts a pointer variable P, P is dereferenced only through a subscript -
except for fields that hold the same value in every element (the `Node` back-pointer, stored identically for
all elements by the record initialisers)."""
from canalyze.ir import walk, strip, show, callee_name

# per-element record -> properties whose text speaks about that service
RECORD_PROPS = {
    'CO_SDO': ['C02', 'C03', 'C04', 'C05'],
    'CO_CSDO': ['C19'],
    'CO_TPDO': ['C12', 'C14'],
    'CO_RPDO': ['C13', 'C14'],
}
# fields with the same value in every element of the array
SHARED_FIELDS = set(['Node'])
# frozen exceptions: (function, kind, detail) -> reason
EXC = {
    ('COCSdoReset', 'field', 'State'):
        'latent upstream defect, not a violation of a listed property: COCSdoReset(csdo, num, node) tests csdo->State '
        '(client 0) instead of csdo[num].State; the function is reachable only from COCSdoInit at node construction, '
        'where element 0 has just been reset, so the wrong element is never BUSY; it becomes live if the reset path '
        'ever calls COCSdoInit with CO_CSDO_N > 1',
    ('COCSdoReset', 'arg', 'COCSdoAbort'):
        'same site as (COCSdoReset, field, State): the abort is issued for client 0; unreachable for num > 0 because '
        'client 0 is INVALID by then',
}
MIN_FUNCS = 8


def _subscripted(fn):
    out = {}
    for n in walk(fn.body):
        if n.k == 'idx':
            b = strip(n.kids[0])
            if b.k == 'ref' and b.refk in ('ParmVarDecl', 'VarDecl') and (b.cty or '').rstrip().endswith('*'):
                out.setdefault(b.ref, b)
    return out


def _rec_of(cty):
    t = (cty or '').replace('struct ', '').replace('const ', '').replace('*', '').strip()
    return t[:-2] if t.endswith('_T') else t


def run(ctx):
    m = ctx.m
    nf = 0
    allp = sorted(set(p for v in RECORD_PROPS.values() for p in v))
    for fname, fn in sorted(m.funcs.items()):
        sub = _subscripted(fn)
        if not sub:
            continue
        hit = False
        for n in walk(fn.body):
            if n.k == 'mem' and n.arrow:
                b = strip(n.kids[0])
                if b.k == 'ref' and b.ref in sub:
                    rec = n.field[0]
                    props = RECORD_PROPS.get(rec)
                    if props is None:
                        continue
                    hit = True
                    site = '%s: %s' % (m.loc(fname, n), show(n))
                    if n.name in SHARED_FIELDS:
                        ctx.ob(props, 'RF14', fname, site, 'field shared by all elements', nontrivial=False)
                        continue
                    ek = (fname, 'field', n.name)
                    if ek in EXC:
                        ctx.exception('RF14', '%s:%s' % (fname, n.name), EXC[ek])
                        ctx.ob(props, 'RF14', fname, site, 'exception: ' + EXC[ek][:80], nontrivial=False)
                        continue
                    ctx.ob(props, 'RF14', fname, site, None)
                    ctx.find(props, 'RF14', fname, 'element0:%s.%s' % n.field, m.loc(fname, n),
                             '%s subscripts the record array `%s` elsewhere but reads/writes %s of element 0 here: with more '
                             'than one configured instance the state of instance 0 decides what happens to instance n'
                             % (fname, b.name, show(n)))
            elif n.k == 'call':
                nm = callee_name(n)
                g = m.funcs.get(nm) if nm else None
                if g is None:
                    continue
                gsub = _subscripted(g)
                for i, a in enumerate(n.kids[1:]):
                    a0 = strip(a)
                    if a0.k == 'ref' and a0.ref in sub and i < len(g.params):
                        rec = _rec_of(g.params[i][2])
                        props = RECORD_PROPS.get(rec)
                        if props is None:
                            continue
                        hit = True
                        site = '%s: %s' % (m.loc(fname, n), show(n)[:70])
                        if g.params[i][3] in gsub:
                            ctx.ob(props, 'RF14', fname, site, '%s subscripts the base itself' % nm, nontrivial=False)
                            continue
                        ek = (fname, 'arg', nm)
                        if ek in EXC:
                            ctx.exception('RF14', '%s:%s' % (fname, nm), EXC[ek])
                            ctx.ob(props, 'RF14', fname, site, 'exception: ' + EXC[ek][:80], nontrivial=False)
                            continue
                        ctx.ob(props, 'RF14', fname, site, None)
                        ctx.find(props, 'RF14', fname, 'element0-arg:%s' % nm, m.loc(fname, n),
                                 '%s subscripts the record array `%s` elsewhere but hands the bare base (element 0) to %s, '
                                 'which works on one record' % (fname, a0.name, nm))
        if hit:
            nf += 1
    ctx.inst('RF14.functions', nf)
    ctx.require_min(allp, 'RF14', nf, MIN_FUNCS, 'functions that subscript a service-record array')
