"""RF14 - element consistency of service-record arrays.
Several services keep one record per instance in an array (SDO servers srv[n], SDO clients csdo[n], TPDOs /
RPDOs pdo[num]) and hand the array base to their functions together with an index.  In a function that
subscripts such a base pointer, a plain `base->field` access (or passing the bare base to a callee that treats
it as ONE record) silently means element 0: with a single instance configured the two coincide, so no test
sees the difference, with more instances the state of instance 0 decides what happens to instance n.
Rule: in every function that subscripts a pointer variable P, P is dereferenced only through a subscript -
except for fields that hold the same value in every element (the `Node` back-pointer, stored identically for
all elements by the record initialisers)."""
from canalyze.ir import walk, strip, show, callee_name, const_eval
from canalyze import flow

# per-element record -> properties whose text speaks about that service
RECORD_PROPS = {
    'CO_SDO': ['C02', 'C03', 'C04', 'C05'],
    'CO_CSDO': ['C19'],
    'CO_TPDO': ['C12', 'C14'],
    'CO_RPDO': ['C13', 'C14'],
}
# fields with the same value in every element of the array
SHARED_FIELDS = set(['Node'])
# frozen exceptions: (function, kind, detail) -> reason
EXC = {
    ('COCSdoReset', 'field', 'State'):
        'latent upstream defect, not a violation of a listed property: COCSdoReset(csdo, num, node) tests csdo->State '
        '(client 0) instead of csdo[num].State; the function is reachable only from COCSdoInit at node construction, '
        'where element 0 has just been reset, so the wrong element is never BUSY; it becomes live if the reset path '
        'ever calls COCSdoInit with CO_CSDO_N > 1',
    ('COCSdoReset', 'arg', 'COCSdoAbort'):
        'same site as (COCSdoReset, field, State): the abort is issued for client 0; unreachable for num > 0 because '
        'client 0 is INVALID by then',
}
MIN_FUNCS = 8


def _subscripted(fn):
    out = {}
    for n in walk(fn.body):
        if n.k == 'idx':
            b = strip(n.kids[0])
            if b.k == 'ref' and b.refk in ('ParmVarDecl', 'VarDecl') and (b.cty or '').rstrip().endswith('*'):
                out.setdefault(b.ref, b)
    return out


def _rec_of(cty):
    t = (cty or '').replace('struct ', '').replace('const ', '').replace('*', '').strip()
    return t[:-2] if t.endswith('_T') else t


def run(ctx):
    m = ctx.m
    nf = 0
    allp = sorted(set(p for v in RECORD_PROPS.values() for p in v))
    for fname, fn in sorted(m.funcs.items()):
        sub = _subscripted(fn)
        if not sub:
            continue
        hit = False
        for n in walk(fn.body):
            if n.k == 'mem' and n.arrow:
                b = strip(n.kids[0])
                if b.k == 'ref' and b.ref in sub:
                    rec = n.field[0]
                    props = RECORD_PROPS.get(rec)
                    if props is None:
                        continue
                    hit = True
                    site = '%s: %s' % (m.loc(fname, n), show(n))
                    if n.name in SHARED_FIELDS:
                        ctx.ob(props, 'RF14', fname, site, 'field shared by all elements', nontrivial=False)
                        continue
                    ek = (fname, 'field', n.name)
                    if ek in EXC:
                        ctx.exception('RF14', '%s:%s' % (fname, n.name), EXC[ek])
                        ctx.ob(props, 'RF14', fname, site, 'exception: ' + EXC[ek][:80], nontrivial=False)
                        continue
                    ctx.ob(props, 'RF14', fname, site, None)
                    ctx.find(props, 'RF14', fname, 'element0:%s.%s' % n.field, m.loc(fname, n),
                             '%s subscripts the record array `%s` elsewhere but reads/writes %s of element 0 here: with more '
                             'than one configured instance the state of instance 0 decides what happens to instance n'
                             % (fname, b.name, show(n)))
            elif n.k == 'call':
                nm = callee_name(n)
                g = m.funcs.get(nm) if nm else None
                if g is None:
                    continue
                gsub = _subscripted(g)
                for i, a in enumerate(n.kids[1:]):
                    a0 = strip(a)
                    if a0.k == 'ref' and a0.ref in sub and i < len(g.params):
                        rec = _rec_of(g.params[i][2])
                        props = RECORD_PROPS.get(rec)
                        if props is None:
                            continue
                        hit = True
                        site = '%s: %s' % (m.loc(fname, n), show(n)[:70])
                        if g.params[i][3] in gsub:
                            ctx.ob(props, 'RF14', fname, site, '%s subscripts the base itself' % nm, nontrivial=False)
                            continue
                        ek = (fname, 'arg', nm)
                        if ek in EXC:
                            ctx.exception('RF14', '%s:%s' % (fname, nm), EXC[ek])
                            ctx.ob(props, 'RF14', fname, site, 'exception: ' + EXC[ek][:80], nontrivial=False)
                            continue
                        ctx.ob(props, 'RF14', fname, site, None)
                        ctx.find(props, 'RF14', fname, 'element0-arg:%s' % nm, m.loc(fname, n),
                                 '%s subscripts the record array `%s` elsewhere but hands the bare base (element 0) to %s, '
                                 'which works on one record' % (fname, a0.name, nm))
        if hit:
            nf += 1
    base_vs_element(ctx)
    ctx.inst('RF14.functions', nf)
    ctx.require_min(allp, 'RF14', nf, MIN_FUNCS, 'functions that subscript a service-record array')


def _element_pointer(x):
    """x is `&A[e]` or `A + e` with e not the constant 0: a pointer to ONE element"""
    x = strip(x)
    if x is None:
        return None
    if x.k == 'un' and x.op == '&':
        t = strip(x.kids[0])
        if t.k == 'idx' and const_eval(t.kids[1]) != 0:
            return t
    if x.k == 'bin' and x.op == '+':
        a, b = strip(x.kids[0]), strip(x.kids[1])
        if (a.cty or '').rstrip().endswith('*') and const_eval(b) != 0:
            return x
    return None


def base_vs_element(ctx):
    """RF14b - the converse: a callee that subscripts its record-array parameter with an index of its own
    (`CORPdoReset(pdo, num)` works on `pdo[num]`) must be handed the array BASE.  Handing it a pointer to one element
    (`&node->RPdo[num]`, directly or through a local) applies the index twice: channel k is taken for channel 2k -
    invisible for element 0, which is all the tests configure."""
    m = ctx.m
    n_sites = 0
    allp = sorted(set(p for v in RECORD_PROPS.values() for p in v))
    for fname, fn in sorted(m.funcs.items()):
        g = None
        defs = None
        for n in walk(fn.body):
            if n.k != 'call':
                continue
            nm = callee_name(n)
            cal = m.funcs.get(nm) if nm else None
            if cal is None:
                continue
            csub = _subscripted(cal)
            for i, a in enumerate(n.kids[1:]):
                if i >= len(cal.params) or cal.params[i][3] not in csub:
                    continue
                rec = _rec_of(cal.params[i][2])
                props = RECORD_PROPS.get(rec)
                if props is None:
                    continue
                # does the callee index with something else than the constant 0?
                idx_nonzero = any(x.k == 'idx' and strip(x.kids[0]).k == 'ref' and strip(x.kids[0]).ref == cal.params[i][3]
                                  and const_eval(x.kids[1]) != 0 for x in walk(cal.body))
                if not idx_nonzero:
                    continue
                n_sites += 1
                site = '%s: %s' % (m.loc(fname, n), show(n)[:70])
                elem = _element_pointer(a)
                a0 = strip(a)
                if elem is None and a0 is not None and a0.k == 'ref' and a0.refk == 'VarDecl':
                    if g is None:
                        g = m.cfg(fname)
                        defs = m.defs_of(fname)
                    nid = m.node_of(fname, n)
                    if nid is not None:
                        for dn in defs.defs(nid, a0.ref):
                            if dn is None or dn < 0:
                                continue
                            for (p_, rhs, asg) in flow.assigned_paths(g.nodes[dn].x):
                                if p_ is not None and len(p_) == 1 and p_[0][1] == a0.ref and rhs is not None:
                                    e2 = _element_pointer(rhs)
                                    if e2 is not None:
                                        elem = e2
                if elem is None:
                    ctx.ob(props, 'RF14', fname, site, 'array base handed to %s, which subscripts it' % nm, nontrivial=False)
                else:
                    ctx.ob(props, 'RF14', fname, site, None)
                    ctx.find(props, 'RF14', fname, 'element-as-base:%s' % nm, m.loc(fname, n),
                             '%s hands %s a pointer to ONE element (%s) although %s subscripts that parameter with its own index: '
                             'the index is applied twice (channel k is taken for channel 2k; invisible for element 0)'
                             % (fname, nm, show(elem)[:60], nm))
    ctx.inst('RF14.base-argument-sites', n_sites)
    ctx.require_min(allp, 'RF14', n_sites, 10, 'calls that hand a record array to a subscripting callee')
