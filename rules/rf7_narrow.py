"""RF7 - lossy conversion on a length path.
Transfer lengths, sizes, offsets and byte counts are 32-bit quantities (SDO transfers of up to 4 GiB, domains,
user buffers).  Every conversion of a value computed from one of them to a narrower integer type must be proven
lossless by the interval pass (a clamp `if (n > 7) n = 7` before the conversion, a loop bound ...) - otherwise a
transfer whose remaining length is a multiple of 256 (or 65536) plus a little is cut short, acknowledged as
complete, or refused.  The four byte stores of a little-endian serialisation (`(uint8_t)(v >> 8k)`, k = 0..3 on one
line: CO_SET_LONG) are lossless together and exempt; a single `(uint8_t)v` store is not.
History: the pinned tree had three such defects (dictionary buffer accessors, client download segment width, client
expedited upload buffer test); two seeded changes re-introduce the pattern on the server side."""
from canalyze.ir import walk, strip, show, int_type, type_range, const_eval
from rules.rf6_index import Engine

# (record, field) -> properties whose text speaks about that transfer
LENGTH_FIELDS = {
    ('CO_SDO_SEG', 'Size'): ['C02', 'C03'], ('CO_SDO_SEG', 'Num'): ['C02', 'C03'],
    ('CO_SDO_BLK', 'Size'): ['C02', 'C03'], ('CO_SDO_BLK', 'Len'): ['C02', 'C03'], ('CO_SDO_BUF', 'Num'): ['C02', 'C03'],
    ('CO_CSDO_TRANSFER', 'Size'): ['C19'], ('CO_CSDO_TRANSFER', 'Buf_Idx'): ['C19'],
    ('CO_OBJ_DOM', 'Size'): ['C06'], ('CO_OBJ_DOM', 'Offset'): ['C06'], ('CO_OBJ_STR', 'Offset'): ['C06'],
    ('CO_PARA', 'Size'): ['C17'], ('CO_PARA', 'Offset'): ['C17'],
}
LENGTH_PARAMS = ('size', 'len', 'width', 'length')
# per translation unit: properties for length parameters
UNIT_PROPS = {'co_ssdo.c': ['C02', 'C03'], 'co_csdo.c': ['C19'], 'co_dict.c': ['C06'], 'co_obj.c': ['C06'], 'co_domain.c': ['C06'],
              'co_string.c': ['C06'], 'co_para_store.c': ['C17'], 'co_para_restore.c': ['C17'], 'co_if_nvm.c': ['C17']}
MIN_SITES = 10
# Exceptions whose reason is itself checked on every run: (function, source text) -> (reason, checker)
EXC = {
    ('COCSdoUploadExpedited', 'csdo->Tfer.Size'):
        'the handler runs only for Tfer.Type == CO_CSDO_TRANSFER_UPLOAD (response table, rule RF1-csdo-response), and '
        'COCSdoRequestUpload selects that type exactly for size <= 4 (checked here by folding it over size classes): the '
        'value fits in 8 bits',
}


def _upload_type_invariant(m):
    """COCSdoRequestUpload stores Type == UPLOAD (expedited) iff size <= 4 and stores Size = size"""
    from canalyze.peval import PEval
    EXP = m.enum('CO_CSDO_TRANSFER_UPLOAD')
    IDLE = m.enum('CO_CSDO_STATE_IDLE')
    for size in (1, 4, 5, 255, 256, 260, 70000):
        pe = PEval(m, 'COCSdoRequestUpload')
        pe.record_sets = False
        pe.store_filter = lambda k, fld: fld in (('CO_CSDO_TRANSFER', 'Type'), ('CO_CSDO_TRANSFER', 'Size'))
        trs = pe.run({'csdo': 1, 'buf': 1, 'callback': 1, 'size': size, 'key': 0x20000100, 'timeout': 100, 'csdo->State': IDLE,
                      'call:COTmrGetTicks': 10, 'call:COTmrCreate': 1})
        ok = False
        for t in trs:
            ty = [e[2] for e in t.stores() if e[4] == ('CO_CSDO_TRANSFER', 'Type')]
            sz = [e[2] for e in t.stores() if e[4] == ('CO_CSDO_TRANSFER', 'Size')]
            if ty:
                if (ty[-1] == EXP) != (size <= 4) or sz[-1:] != [size]:
                    return 'size %d: type %s size stored %s' % (size, ty, sz)
                ok = True
        if not ok:
            return 'size %d: no accepting path found' % size
    return None


def _lenish(m, f, x, src):
    props = []
    for y in walk(src):
        if y.k == 'mem' and y.field in LENGTH_FIELDS:
            props += LENGTH_FIELDS[y.field]
        elif y.k == 'ref' and y.refk == 'ParmVarDecl' and y.name in LENGTH_PARAMS and (int_type(y.cty) or (0,))[0] >= 32:
            props += UNIT_PROPS.get(m.funcs[f].unit.split('/')[-1], [])
            props.append('C01')
    if not props:
        nid = m.node_of(f, x)
        if nid is not None:
            dfs = m.defs_of(f)
            for y in walk(src):
                if y.k == 'ref' and y.refk == 'VarDecl':
                    u = dfs.unique_def(nid, y.ref)
                    if u:
                        for z in walk(u[1]):
                            if z.k == 'mem' and z.field in LENGTH_FIELDS:
                                props += LENGTH_FIELDS[z.field]
                    else:
                        # any definition of the local from a length field
                        for nd in m.cfg(f).nodes:
                            if nd.x is None:
                                continue
                            for n in walk(nd.x):
                                if n.k in ('bin', 'var') and ((n.k == 'var' and n.ref == y.ref and n.kids) or
                                                              (n.k == 'bin' and n.op == '=' and strip(n.kids[0]).k == 'ref'
                                                               and strip(n.kids[0]).ref == y.ref)):
                                    rhs = n.kids[0] if n.k == 'var' else n.kids[1]
                                    for z in walk(rhs):
                                        if z.k == 'mem' and z.field in LENGTH_FIELDS:
                                            props += LENGTH_FIELDS[z.field]
    return sorted(set(props))


def _serialisation_group(fn, x):
    """x = (uint8_t)(v >> 8k) is one of four casts on the same line with shifts 0, 8, 16, 24 of the same source"""
    def shape(c):
        s = strip(c.kids[0])
        sh = 0
        if s.k == 'bin' and s.op == '>>':
            sh = const_eval(s.kids[1])
            s = strip(s.kids[0])
        return show(s), sh
    me = shape(x)
    shifts = set()
    for y in walk(fn.body):
        if y.k == 'cast' and y.line == x.line and int_type(y.cty) == int_type(x.cty) and y.kids and y.kids[0] is not None:
            sy = shape(y)
            if sy[0] == me[0]:
                shifts.add(sy[1])
    return shifts >= set([0, 8, 16, 24])


def run(ctx):
    m = ctx.m
    eng = Engine(m)
    n_sites = 0
    allp = sorted(set(p for v in LENGTH_FIELDS.values() for p in v))
    for f, fn in sorted(m.funcs.items()):
        r = None
        # narrowing happens at casts (explicit or implicit) ...
        sites = []
        for x in walk(fn.body):
            if x.k == 'cast' and x.kids and x.kids[0] is not None:
                tt, st = int_type(x.cty), int_type(x.kids[0].cty)
                if tt and st and tt[0] < st[0]:
                    sites.append((x, x.kids[0], x.cty))
        for (x, src, tcty) in sites:
            props = _lenish(m, f, x, src)
            if not props:
                continue
            n_sites += 1
            site = '%s: %s' % (m.loc(f, x), show(x)[:80])
            if _serialisation_group(fn, x):
                ctx.ob(props, 'RF7', f, site, 'one byte of a complete little-endian serialisation (shifts 0/8/16/24)', nontrivial=False)
                continue
            if r is None:
                r = eng.analyse(f)
            nid = m.node_of(f, x)
            st = r.IN.get(nid) if nid is not None else None
            if st is None:
                continue
            iv = r.ev(src, st, nid)
            tr = type_range(tcty)
            ek = (f, show(strip(src)))
            if not (iv is not None and iv[0] >= tr[0] and iv[1] <= tr[1]) and ek in EXC:
                why_not = _upload_type_invariant(m)
                if why_not is None:
                    ctx.exception('RF7', '%s:%s' % ek, EXC[ek])
                    ctx.ob(props, 'RF7', f, site, 'exception (invariant re-checked): ' + EXC[ek][:90], nontrivial=True)
                    continue
                ctx.note = getattr(ctx, 'note', None)
            if iv is not None and iv[0] >= tr[0] and iv[1] <= tr[1]:
                ctx.ob(props, 'RF7', f, site, 'operand in [%d, %d]: fits' % iv)
            else:
                ctx.ob(props, 'RF7', f, site, None)
                ctx.find(props, 'RF7', f, 'narrowing:%s' % show(strip(src))[:50], m.loc(f, x),
                         'a length / size / offset value is converted to %s although it is only known to lie in [%s, %s]: a '
                         'transfer whose value exceeds the narrow type is cut short, confirmed early or wrongly refused (%s)'
                         % (tcty, iv[0] if iv else '?', iv[1] if iv else '?', show(x)[:70]))
    ctx.inst('RF7.narrowing-sites', n_sites)
    ctx.require_min(allp, 'RF7', n_sites, MIN_SITES, 'narrowing conversions of length quantities')


# ------------------------------------------------------------------ RF7-sign
SIGN_PROPS_BY_UNIT = {'co_emcy': ['C15'], 'co_ssdo.c': ['C02', 'C03', 'C04'], 'co_csdo.c': ['C19'], 'co_pdo': ['C12', 'C13', 'C14'],
                      'co_sync': ['C16'], 'co_dict.c': ['C06'], 'co_obj.c': ['C06'], 'co_integer': ['C06'], 'co_para': ['C17'],
                      'co_lss.c': ['C18'], 'co_nmt.c': ['C09'], 'co_hb': ['C10', 'C11'], 'co_tmr.c': ['C07', 'C08']}
ALL_SIGN_PROPS = sorted(set(p for v in SIGN_PROPS_BY_UNIT.values() for p in v))


def _sign_extending_casts(m):
    """(function, cast node, innermost operand): conversions that turn a stored SIGNED value (variable, field, array
    element) into a WIDER UNSIGNED one - through any chain of implicit promotions"""
    out = []
    for f, fn in sorted(m.funcs.items()):
        seen = set()
        for x in walk(fn.body):
            if x.k != 'cast':
                continue
            a = int_type(x.cty)
            s0 = strip(x)
            b = int_type(s0.cty) if s0 is not None else None
            # stored data only (fields, array elements): a signed local that is widened is usually a small non-negative counter
            if a and b and b[1] and not a[1] and a[0] > b[0] and s0.k in ('mem', 'idx'):
                key = (x.line, show(s0))
                if key in seen:
                    continue
                seen.add(key)
                out.append((f, x, s0))
    return out


def sign_extension(ctx):
    """RF7-sign - codes, identifiers, lengths and data words are unsigned quantities.  A value that is STORED in a signed
    object narrower than the unsigned type it is converted to sign-extends: every value with the top bit set arrives with
    all higher bits set (an emergency code 8130h is recorded as FFFF8130h).  The library has no such conversion; a field or
    local whose type is changed to a signed one (in a header, far from the use) creates one at every widening use."""
    m = ctx.m
    # positive control: the rule's expected count on the library is zero
    from rules.rf16_delta import fixture_model
    fm = fixture_model(ctx)
    fired = any(f == 'CTL_SignExtend' for (f, x, s0) in _sign_extending_casts(fm))
    ctx.controls.append({'rule': 'RF7-sign', 'fixture': 'fixtures/controls.c:CTL_SignExtend', 'expected_finding': 'sign-extension', 'fired': fired})
    if not fired:
        ctx.broke(ALL_SIGN_PROPS, 'RF7-sign: positive control CTL_SignExtend did not fire')
    n_casts = sum(1 for fn in m.funcs.values() for x in walk(fn.body) if x.k == 'cast' and int_type(x.cty) is not None)
    ctx.inst('RF7-sign.integer-casts-scanned', n_casts)
    hits = _sign_extending_casts(m)
    for (f, x, s0) in hits:
        unit = m.funcs[f].unit.split('/')[-1]
        props = None
        for k, v in SIGN_PROPS_BY_UNIT.items():
            if k in unit:
                props = v
        props = props or ['C01']
        site = '%s: %s' % (m.loc(f, x), show(x)[:60])
        ctx.ob(props, 'RF7-sign', f, site, None)
        ctx.find(props, 'RF7-sign', f, 'sign-extension:%s' % show(s0)[:40], m.loc(f, x),
                 '%s converts the signed %s `%s` into the wider unsigned type %s: values with the top bit set sign-extend (8130h '
                 'becomes FFFF8130h)' % (f, s0.cty, show(s0), x.cty))
    if not hits:
        ctx.ob(ALL_SIGN_PROPS, 'RF7-sign', '(library)', 'no stored signed value is widened into an unsigned one (%d integer casts scanned)' % n_casts,
               'none found; positive control fired', nontrivial=False)
    ctx.require_min(ALL_SIGN_PROPS, 'RF7-sign', n_casts, 200, 'integer casts scanned')


_run_rf7 = run


def run(ctx):
    _run_rf7(ctx)
    sign_extension(ctx)
