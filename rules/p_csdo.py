"""SDO client rules (C19): finalise once, busy refusal before any field is written, per-frame refresh,
response table, toggle discipline, user-buffer bound (relational), timeout abort."""
from canalyze.ir import is_pointer, walk, strip, const_eval, show, callee_name
from canalyze import flow
from canalyze.peval import PEval
from canalyze.canon import Canon
from rules.p_sdo import _per_request_refresh

P = ['C19']


def _run(m, fname, inputs, filt=None, sets=False):
    pe = PEval(m, fname)
    pe.record_sets = sets
    if filt is not None:
        pe.store_filter = filt
    base = {}
    for prm in m.funcs[fname].params:
        if is_pointer(prm[2]):
            base[prm[0]] = 1
    base.update(inputs)
    return pe.run(base)


def finalize_once(ctx):
    m = ctx.m
    f = 'COCSdoTransferFinalize'
    m.need(f, 'COCSdoRequestUpload', 'COCSdoRequestDownload', 'COCSdoCheck', 'COCSdoResponse')
    BUSY, IDLE, INV = m.enum('CO_CSDO_STATE_BUSY'), m.enum('CO_CSDO_STATE_IDLE'), m.enum('CO_CSDO_STATE_INVALID')
    for st in (BUSY, IDLE, INV):
        for has_cb in (0, 1):
            trs = _run(m, f, {'csdo->State': st, 'csdo->Tfer.Call': has_cb, 'csdo->Tfer.Tmr': -1, 'csdo->Tfer.Abort': 0x05040000,
                              'csdo->Tfer.Idx': 0x2000, 'csdo->Tfer.Sub': 3},
                       filt=lambda k, fld: fld == ('CO_CSDO', 'State'))
            site = 'COCSdoTransferFinalize state=%d callback=%d' % (st, has_cb)
            bad = None
            for t in trs:
                cbs = [c for c in t.calls() if c[1].startswith('*') or c[1].startswith('fnptr') or c[1] == 'call' or 'call' in c[1]]
                cbs = [c for c in t.calls() if callee_name(c[4]) is None]
                stv = [e[2] for e in t.stores()]
                if st == BUSY:
                    if len(cbs) != has_cb:
                        bad = 'completion callback invoked %d times' % len(cbs)
                    if cbs and cbs[0][2][1:] != [0x2000, 3, 0x05040000]:
                        bad = 'callback arguments %s' % (cbs[0][2][1:],)
                    if stv != [IDLE]:
                        bad = 'state after finalisation %s' % stv
                else:
                    if cbs or stv or t.call_names():
                        bad = 'a client that is not busy is finalised again (callback %d, calls %s)' % (len(cbs), t.call_names())
            if bad:
                ctx.ob(P, 'RF2-csdo-final', f, site, None)
                ctx.find(P, 'RF2-csdo-final', f, 'final:%d:%d' % (st, has_cb), m.loc(f, m.funcs[f].line), '%s: %s' % (site, bad))
            else:
                ctx.ob(P, 'RF2-csdo-final', f, site, 'callback once, client idle' if st == BUSY else 'nothing happens')
    # release last: once State = IDLE is stored a new request is accepted (from the completion callback, from a task it
    # wakes): everything finalisation does to the transfer context must be done before - otherwise it wipes the context of
    # the NEW transfer (no callback ever, orphaned timeout action)
    for has_cb in (0, 1):
        pe = PEval(m, f)
        pe.record_sets = False
        pe.store_filter = lambda k, fld: fld is not None and fld[0] in ('CO_CSDO', 'CO_CSDO_TRANSFER')
        trs = pe.run({'csdo': 1, 'csdo->State': BUSY, 'csdo->Tfer.Call': has_cb, 'csdo->Tfer.Tmr': 4, 'call:COTmrDelete': 0})
        bad = None
        for t in trs:
            rel = [i for i, e in enumerate(t.events) if e[0] == 'store' and e[4] == ('CO_CSDO', 'State') and e[2] == IDLE]
            if not rel:
                bad = 'no release'
                continue
            after = [e for e in t.events[rel[0] + 1:] if (e[0] == 'store' and e[4] is not None and e[4][0] == 'CO_CSDO_TRANSFER') or e[0] == 'call']
            if after:
                what = after[0]
                bad = 'after the client was released (State = IDLE) finalisation still %s' % (
                    'stores %s' % what[1] if what[0] == 'store' else 'calls %s' % what[1])
        site = 'COCSdoTransferFinalize releases the client last (callback=%d)' % has_cb
        if bad:
            ctx.ob(P, 'RF2-csdo-final', f, site, None)
            ctx.find(P, 'RF2-csdo-final', f, 'release-not-last', m.loc(f, m.funcs[f].line), '%s: %s' % (site, bad))
        else:
            ctx.ob(P, 'RF2-csdo-final', f, site, 'no store to the transfer context and no call after the release')
    # the completion callback is invoked nowhere else
    for fname, fn in sorted(m.funcs.items()):
        for n in walk(fn.body):
            if n.k == 'call' and callee_name(n) is None:
                f0 = strip(n.kids[0])
                ty = (f0.ty or '') + (f0.cty or '')
                if 'CO_CSDO_CALLBACK' in ty:
                    site = '%s: %s' % (m.loc(fname, n), show(n)[:60])
                    if fname == f:
                        ctx.ob(P, 'RF2-csdo-final', fname, site, 'the single completion site')
                    else:
                        ctx.ob(P, 'RF2-csdo-final', fname, site, None)
                        ctx.find(P, 'RF2-csdo-final', fname, 'second-callback-site', m.loc(fname, n),
                                 '%s invokes the completion callback outside COCSdoTransferFinalize' % fname)


def request_refusal(ctx):
    m = ctx.m
    BUSY, IDLE, INV = m.enum('CO_CSDO_STATE_BUSY'), m.enum('CO_CSDO_STATE_IDLE'), m.enum('CO_CSDO_STATE_INVALID')
    for f in ('COCSdoRequestUpload', 'COCSdoRequestDownload'):
        for st in (BUSY, IDLE, INV):
            for size in (2, 4, 5, 300):
                buf = 'buf' if f.endswith('Upload') else 'buffer'
                trs = _run(m, f, {'csdo->State': st, 'size': size, 'timeout': 100, 'key': 0x20000300, 'csdo->TxId': 0x605,
                                  'call:COTmrGetTicks': 100, 'call:COTmrCreate': 2},
                           filt=lambda k, fld: fld is not None and fld[0] in ('CO_CSDO', 'CO_CSDO_TRANSFER', 'CO_IF_FRM'))
                site = '%s state=%d size=%d' % (f, st, size)
                bad = None
                for t in trs:
                    st_ = [(e[1], e[2]) for e in t.stores() if not e[1].startswith('frm')]
                    sends = t.call_names().count('COIfCanSend')
                    creates = [c for c in t.calls() if c[1] == 'COTmrCreate']
                    if st != IDLE:
                        if st_ or sends or creates or t.ret in (0, None):
                            bad = 'request on a %s client is not refused untouched (stores %s)' % ('busy' if st == BUSY else 'disabled', st_[:3])
                        if st == BUSY and t.ret != m.enum('CO_ERR_SDO_BUSY'):
                            bad = 'busy client returns %s' % t.ret
                    else:
                        d = dict(st_)
                        fr = dict((e[1], e[2]) for e in t.stores() if e[1].startswith('frm'))
                        if d.get('csdo->State') != BUSY or sends != 1 or len(creates) != 1 or t.ret != 0:
                            bad = 'accepted request: state %s sends %d timers %d returns %s' % (d.get('csdo->State'), sends, len(creates), t.ret)
                        elif creates[0][2][1:3] != [100, 0]:
                            bad = 'timeout action armed with %s' % (creates[0][2][1:3],)
                        elif fr.get('frm.Identifier') != 0x605 or fr.get('frm.Data[1]') != 0x00 or fr.get('frm.Data[2]') != 0x20 or fr.get('frm.Data[3]') != 3:
                            bad = 'request frame %s' % fr
                        else:
                            b0 = fr.get('frm.Data[0]')
                            if f.endswith('Upload'):
                                exp0 = 0x40
                            elif size <= 4:
                                exp0 = 0x23 | ((4 - size) << 2)
                            else:
                                exp0 = 0x21
                            if b0 != exp0:
                                bad = 'command byte %s, required %02Xh' % (b0, exp0)
                            if f.endswith('Download') and size > 4:
                                sz = sum((fr.get('frm.Data[%d]' % (4 + j)) or 0) << (8 * j) for j in range(4))
                                if sz != size:
                                    bad = 'announced size %d, required %d' % (sz, size)
                if bad:
                    ctx.ob(P, 'RF2-csdo-request', f, site, None)
                    ctx.find(P, 'RF2-csdo-request', f, 'request:%s' % bad.split('(')[0].split(':')[0][:40].strip(), m.loc(f, m.funcs[f].line), '%s: %s' % (site, bad))
                else:
                    ctx.ob(P, 'RF2-csdo-request', f, site, 'refused untouched' if st != IDLE else 'initiated')


def request_all_or_nothing(ctx):
    """A request on an idle client is all-or-nothing whatever the timer manager answers: a path that returns an error must
    leave the client not BUSY (a client marked busy with no request on the bus and no timeout action is never finalised:
    every later request is refused as busy); a path that returns 0 has sent the request."""
    m = ctx.m
    BUSY, IDLE = m.enum('CO_CSDO_STATE_BUSY'), m.enum('CO_CSDO_STATE_IDLE')
    for f in ('COCSdoRequestUpload', 'COCSdoRequestDownload'):
        for tmr in (2, -1, None):
            inputs = {'csdo->State': IDLE, 'size': 20, 'timeout': 100, 'key': 0x20000300, 'csdo->TxId': 0x605, 'call:COTmrGetTicks': 100}
            if tmr is not None:
                inputs['call:COTmrCreate'] = tmr
            trs = _run(m, f, inputs, filt=lambda k, fld: fld == ('CO_CSDO', 'State'))
            site = '%s on an idle client, timer create %s' % (f, {2: 'succeeds', -1: 'fails', None: 'any result'}[tmr])
            bad = None
            for t in trs:
                last = [e[2] for e in t.stores()][-1:]
                sends = t.call_names().count('COIfCanSend')
                if t.ret not in (0, None) and last == [BUSY]:
                    bad = 'returns error %s but leaves the client BUSY (nothing sent: %s)' % (t.ret, sends == 0)
                elif t.ret == 0 and (last != [BUSY] or sends != 1):
                    bad = 'returns 0 with state %s and %d frames sent' % (last, sends)
            if not trs:
                bad = 'no path'
            if bad:
                ctx.ob(P, 'RF2-csdo-request', f, site, None)
                ctx.find(P, 'RF2-csdo-request', f, 'all-or-nothing:%s' % tmr, m.loc(f, m.funcs[f].line), '%s: %s' % (site, bad))
            else:
                ctx.ob(P, 'RF2-csdo-request', f, site, 'error => not busy; 0 => busy and request sent')


def per_frame_refresh(ctx):
    m = ctx.m
    _per_request_refresh(ctx, P, 'COCSdoCheck', 'CO_CSDO', [
        ('Frm', ('CO_CSDO', 'Frm'), 'param', 'stale-frame', 'the handlers would read a previous frame'),
        ('Abort', ('CO_CSDO_TRANSFER', 'Abort'), 'zero', 'stale-abort-code',
         'an abort code recorded for an earlier (ignored) frame is reported to the application when the transfer completes'),
    ], 'RF12c-csdo')
    # only busy clients with a matching identifier are selected
    f = 'COCSdoCheck'
    BUSY, IDLE = m.enum('CO_CSDO_STATE_BUSY'), m.enum('CO_CSDO_STATE_IDLE')
    from canalyze.ir import array_extent
    ncl = 1
    for (fn_, ty, cty) in m.records.get('CO_NODE', ()):
        if fn_ == 'CSdo':
            ncl = array_extent(cty) or 1
    for st in (BUSY, IDLE):
      for which in range(ncl):
        for ident in (0x585, 0x586):
            inputs = {'frm->Identifier': ident}
            for i in range(ncl):
                # the other clients are busy on other identifiers
                inputs['csdo[%d].RxId' % i] = 0x585 if i == which else 0x5A0 + i
                inputs['csdo[%d].State' % i] = st if i == which else BUSY
                inputs['csdo[%d].TxId' % i] = 0x605 if i == which else 0x620 + i
            trs = _run(m, f, inputs)
            exp = (st == BUSY and ident == 0x585)
            got = set((t.ret not in (0, None)) for t in trs)
            site = 'COCSdoCheck client=%d of %d state=%d identifier=%Xh' % (which, ncl, st, ident)
            if got == set([exp]):
                ctx.ob(P, 'RF12c-csdo', f, site, 'selected' if exp else 'ignored')
            else:
                ctx.ob(P, 'RF12c-csdo', f, site, None)
                ctx.find(P, 'RF12c-csdo', f, 'select:%d:%d:%X' % (which, st, ident), m.loc(f, m.funcs[f].line),
                         '%s: selected=%s, required %s (responses matter only to a busy client with that identifier)' % (site, sorted(got), exp))


def response_table(ctx):
    m = ctx.m
    f = 'COCSdoResponse'
    # the table is written in terms of the handler functions: a handler that no longer exists as a function (inlined,
    # renamed) is a vanished anchor (analysis broken), not a routing violation
    m.need(f, 'COCSdoTransferFinalize', 'COCSdoUploadExpedited', 'COCSdoInitUploadSegmented',
           'COCSdoUploadSegmented', 'COCSdoInitDownloadSegmented', 'COCSdoDownloadSegmented', 'COCSdoAbort')
    # two handlers are mere wrappers around the finalisation; a tree that inlined them into the response function is routed
    # to what they did.  The frozen summary is re-derived whenever the wrapper still exists, so it cannot go stale silently.
    WRAPPERS = {'COCSdoDownloadExpedited': ('COCSdoTransferFinalize',), 'COCSdoFinishDownloadSegmented': ('COCSdoTransferFinalize',)}
    subst = {}
    for w, summ in WRAPPERS.items():
        if w in m.funcs:
            pw = PEval(m, w)
            pw.record_sets = False
            pw.store_filter = lambda k, fld: False
            got = set(tuple(c for c in t.call_names() if c.startswith('COCSdo')) for t in pw.run({'csdo': 1}))
            if got != set([summ]):
                ctx.broke(P, 'RF1-csdo-response: wrapper %s is no longer a plain call of %s (%s): update the routing table' % (w, summ, sorted(got)))
        else:
            subst[w] = summ
    T = dict((n, m.enum(n)) for n in ('CO_CSDO_TRANSFER_NONE', 'CO_CSDO_TRANSFER_UPLOAD', 'CO_CSDO_TRANSFER_DOWNLOAD',
                                      'CO_CSDO_TRANSFER_UPLOAD_SEGMENT', 'CO_CSDO_TRANSFER_DOWNLOAD_SEGMENT'))
    tbl = {}
    n = 0
    for tname, tv in sorted(T.items()):
        if tname.endswith('NONE'):
            continue
        for cmd in range(256):
            for more in (0, 1):
                inputs = {'csdo->Frm->Data[0]': cmd, 'csdo->Tfer.Type': tv, 'csdo->Tfer.Idx': 0x2000, 'csdo->Tfer.Sub': 1,
                          'csdo->Frm->Data[1]': 0x00, 'csdo->Frm->Data[2]': 0x20, 'csdo->Frm->Data[3]': 1,
                          'csdo->Tfer.Size': 20, 'csdo->Tfer.Buf_Idx': (7 if more else 20)}
                trs = _run(m, f, inputs, filt=lambda k, fld: False)
                routes = set(tuple(c for c in t.call_names() if c.startswith('COCSdo')) for t in trs)
                n += 1
                # specification (CiA 301 client side): abort 80h with our multiplexer finalises; then by transfer type
                if cmd == 0x80:
                    exp = set([('COCSdoTransferFinalize',)])
                elif tname.endswith('UPLOAD_SEGMENT'):
                    if cmd == 0x41:
                        exp = set([('COCSdoInitUploadSegmented',)])
                    elif (cmd & 0xE0) == 0x00:
                        exp = set([('COCSdoUploadSegmented',)])
                    else:
                        exp = set([('COCSdoAbort', 'COCSdoTransferFinalize')])
                elif tname.endswith('DOWNLOAD_SEGMENT'):
                    if cmd == 0x60:
                        exp = set([('COCSdoInitDownloadSegmented',)])
                    elif (cmd & 0xE0) == 0x20:
                        exp = set([('COCSdoDownloadSegmented',)]) if more else set([('COCSdoFinishDownloadSegmented',)])
                    else:
                        exp = set([('COCSdoAbort', 'COCSdoTransferFinalize')])
                elif tname.endswith('_DOWNLOAD'):
                    if cmd == 0x60:
                        exp = set([('COCSdoDownloadExpedited',)])
                    else:
                        exp = None      # not constrained here
                else:
                    if (cmd & 0xE0) == 0x40 and (cmd & 0x02):
                        exp = set([('COCSdoUploadExpedited',)])
                    else:
                        exp = None
                key = '%s %02X more=%d' % (tname[17:], cmd, more)
                if exp is not None and subst:
                    exp = set(tuple(y for x in r for y in (subst[x] if x in subst else (x,))) for r in exp)
                if exp is None or routes == exp:
                    ctx.ob(P, 'RF1-csdo-response', f, key, 'route %s' % sorted(routes), nontrivial=exp is not None)
                else:
                    ctx.ob(P, 'RF1-csdo-response', f, key, None)
                    ctx.find(P, 'RF1-csdo-response', f, 'route:%s' % key, m.loc(f, m.funcs[f].line),
                             'server response %02Xh during %s is routed to %s, required %s' % (cmd, tname, sorted(routes), sorted(exp)))
                tbl.setdefault(tname[17:], {}).setdefault(str(sorted(routes)), []).append(cmd)
    ctx.inst('RF1.csdo-response.rows', n)
    ctx.table('C19', 'COCSdoResponse routing (transfer type -> route -> command bytes)',
              dict((k, dict((r, '%d bytes' % len(set(c))) for r, c in v.items())) for k, v in tbl.items()))
    # abort for another multiplexer does not finalise
    trs = _run(m, f, {'csdo->Frm->Data[0]': 0x80, 'csdo->Tfer.Type': T['CO_CSDO_TRANSFER_UPLOAD'], 'csdo->Tfer.Idx': 0x2000,
                      'csdo->Tfer.Sub': 1, 'csdo->Frm->Data[1]': 0x01, 'csdo->Frm->Data[2]': 0x20, 'csdo->Frm->Data[3]': 1},
               filt=lambda k, fld: False)
    if any('COCSdoTransferFinalize' in t.call_names() for t in trs):
        ctx.find(P, 'RF1-csdo-response', f, 'abort-foreign-mux', m.loc(f, m.funcs[f].line),
                 'an abort frame for another multiplexer finalises the running transfer')
        ctx.ob(P, 'RF1-csdo-response', f, 'abort for another multiplexer', None)
    else:
        ctx.ob(P, 'RF1-csdo-response', f, 'abort for another multiplexer', 'does not finalise')


def toggle_and_mux(ctx):
    m = ctx.m
    # segmented handlers: wrong toggle -> abort 0503 0000h + finalise, nothing consumed / emitted; right toggle flips once
    for f, kind in (('COCSdoUploadSegmented', 'up'), ('COCSdoDownloadSegmented', 'down')):
        for tb in (0, 1):
            for ft in (0, 1):
                for last in (0, 1):
                    cmd = (ft << 4) | (last if kind == 'up' else 0) | (0x20 if kind == 'down' else 0)
                    inputs = {'csdo->Frm->Data[0]': cmd, 'csdo->Tfer.TBit': tb, 'csdo->Tfer.Size': 20, 'csdo->Tfer.Buf_Idx': 7,
                              'call:COTmrGetTicks': 100, 'call:COTmrCreate': 1, 'csdo->TxId': 0x605}
                    trs = _run(m, f, inputs, filt=lambda k, fld: fld in (('CO_CSDO_TRANSFER', 'TBit'), ('CO_CSDO_TRANSFER', 'Buf_Idx'), ('CO_CSDO_TRANSFER', 'Buf')))
                    site = '%s expected-toggle=%d frame-toggle=%d last=%d' % (f, tb, ft, last)
                    bad = None
                    for t in trs:
                        names = t.call_names()
                        st = [e for e in t.stores()]
                        tbs = [e[2] for e in st if e[4] == ('CO_CSDO_TRANSFER', 'TBit')]
                        moved = [e for e in st if e[4] != ('CO_CSDO_TRANSFER', 'TBit')]
                        aborts = [c[2][1] for c in t.calls() if c[1] == 'COCSdoAbort']
                        if ft != tb:
                            if aborts != [0x05030000] or 'COCSdoTransferFinalize' not in names or moved or tbs or 'COIfCanSend' in names:
                                bad = 'toggle error: aborts %s, consumed/emitted %d, toggle stores %s' % ([hex(a) for a in aborts], len(moved), tbs)
                        else:
                            if aborts:
                                bad = 'correct toggle aborted'
                            if kind == 'up' and last:
                                if 'COCSdoTransferFinalize' not in names or 'COIfCanSend' in names:
                                    bad = 'last segment does not finalise'
                            else:
                                if tbs != [tb ^ 1]:
                                    bad = 'toggle stored %s, required exactly one flip to %d' % (tbs, tb ^ 1)
                                if names.count('COIfCanSend') != 1:
                                    bad = '%d frames emitted' % names.count('COIfCanSend')
                    if bad:
                        ctx.ob(P, 'RF2-csdo-toggle', f, site, None)
                        ctx.find(P, 'RF2-csdo-toggle', f, 'toggle:%s' % bad.split(':')[0][:40], m.loc(f, m.funcs[f].line), '%s: %s' % (site, bad))
                    else:
                        ctx.ob(P, 'RF2-csdo-toggle', f, site, 'ok')
    # timeout: abort frame with 0504 0000h, then finalise
    f = 'COCSdoTimeout'
    BUSY = m.enum('CO_CSDO_STATE_BUSY')
    trs = _run(m, f, {'parg': 1, 'csdo->State': BUSY}, filt=lambda k, fld: False)
    bad = None
    for t in trs:
        ab = [c[2][1] for c in t.calls() if c[1] == 'COCSdoAbort']
        if ab != [0x05040000] or t.call_names()[-1:] != ['COCSdoTransferFinalize']:
            bad = 'timeout path calls %s (abort codes %s)' % (t.call_names(), [hex(a) for a in ab])
    if bad:
        ctx.ob(P, 'RF2-csdo-toggle', f, 'timeout path', None)
        ctx.find(P, 'RF2-csdo-toggle', f, 'timeout', m.loc(f, m.funcs[f].line), bad)
    else:
        ctx.ob(P, 'RF2-csdo-toggle', f, 'timeout path', 'abort 0504 0000h then finalise')
    f = 'COCSdoAbort'
    for code in (0x05040000, 0x05030000):
        trs = _run(m, f, {'err': code, 'csdo->TxId': 0x605, 'csdo->Tfer.Idx': 0x2000, 'csdo->Tfer.Sub': 2},
                   filt=lambda k, fld: fld is not None and fld[0] == 'CO_IF_FRM')
        bad = None
        for t in trs:
            fr = dict((e[1], e[2]) for e in t.stores())
            sends = t.call_names().count('COIfCanSend')
            if code == 0x05040000:
                exp = {'frm.Identifier': 0x605, 'frm.Data[0]': 0x80, 'frm.Data[1]': 0, 'frm.Data[2]': 0x20, 'frm.Data[3]': 2,
                       'frm.Data[4]': 0, 'frm.Data[5]': 0, 'frm.Data[6]': 0x04, 'frm.Data[7]': 0x05, 'frm.DLC': 8}
                if sends != 1 or any(fr.get(k) != v for k, v in exp.items()):
                    bad = 'timeout abort frame %s (sent %d)' % (fr, sends)
        site = 'COCSdoAbort code %08Xh' % code
        if bad:
            ctx.ob(P, 'RF2-csdo-toggle', f, site, None)
            ctx.find(P, 'RF2-csdo-toggle', f, 'abortframe:%X' % code, m.loc(f, m.funcs[f].line), bad)
        else:
            ctx.ob(P, 'RF2-csdo-toggle', f, site, 'ok')


def buffer_bound(ctx):
    """RF6e: every store into the user buffer Tfer.Buf[e] is dominated by e < Tfer.Size (transitively through
    must-facts a < b, a <= b; a narrowing cast of an unsigned value only lowers it)."""
    m = ctx.m
    n_sites = 0
    for fname in sorted(m.funcs):
        fn = m.funcs[fname]
        if not fn.unit.endswith('co_csdo.c'):
            continue
        g = m.cfg(fname)
        facts = None
        for node in g.nodes:
            if node.x is None or node.id not in g.reachable:
                continue
            for n in walk(node.x):
                if n.k != 'bin' or n.op != '=':
                    continue
                l = strip(n.kids[0])
                if l.k != 'idx':
                    continue
                b = strip(l.kids[0])
                if not (b.k == 'mem' and b.field == ('CO_CSDO_TRANSFER', 'Buf')):
                    continue
                n_sites += 1
                if facts is None:
                    facts = m.facts(fname)
                idx = strip(l.kids[1])
                site = '%s: %s' % (m.loc(fname, n), show(n)[:70])
                ok, how = _bounded(m, facts.get(node.id) or (), idx)
                if ok:
                    ctx.ob(P + ['C01'], 'RF6e', fname, site, how)
                else:
                    ctx.ob(P + ['C01'], 'RF6e', fname, site, None)
                    ctx.find(P + ['C01'], 'RF6e', fname, 'userbuf:%s' % show(idx)[:40], m.loc(fname, n),
                             'store into the user buffer at index %s is not dominated by a test index < Tfer.Size (%s): a '
                             'server that sends more data than announced writes past the buffer the application handed in'
                             % (show(idx), how))
    ctx.inst('RF6e.userbuf-stores', n_sites)
    ctx.require_min(P, 'RF6e', n_sites, 2, 'stores into Tfer.Buf')


def _norm(x):
    """text of an expression with value-preserving integer casts removed"""
    x = strip(x)
    return show(x)


def _bounded(m, facts, idx):
    """is idx < X->Tfer.Size implied by the must-facts (transitive closure over <, <=)?"""
    edges = []       # (a, b, strict)
    for f in facts:
        x = strip(f.x)
        if x.k != 'bin' or x.op not in ('<', '<=', '>', '>='):
            continue
        a, b = x.kids
        op = x.op
        if not f.pol:
            op = {'<': '>=', '<=': '>', '>': '<=', '>=': '<'}[op]
        if op in ('>', '>='):
            a, b = b, a
            op = '<' if op == '>' else '<='
        edges.append((_norm(a), _norm(b), op == '<', a, b))
    target = None
    # nodes: expression texts.  (uint8_t)E <= E for unsigned E
    start = _norm(idx)
    seen = {start: False}
    work = [start]
    while work:
        cur = work.pop()
        for (a, b, strict, xa, xb) in edges:
            if a == cur:
                ns = seen[cur] or strict
                bb = b
                # strip a narrowing cast on the upper side:  v <= (uint8_t)S  ->  v <= S
                sb = strip(xb)
                if bb not in seen or (ns and not seen[bb]):
                    seen[bb] = ns
                    work.append(bb)
    for k, strict in seen.items():
        if k.endswith('Tfer.Size') and strict:
            return (True, 'index < %s through the dominating guards' % k)
    return (False, 'facts relate %s only to %s' % (start, sorted(k for k in seen if k != start)[:4]))


def download_segment_template(ctx):
    """Client download segments (first one after the initiate response, further ones after each acknowledge):
    for every remaining length r the segment carries w = min(r, 7) bytes, announces n = 7 - w unused bytes and
    sets the last-segment bit c exactly when r <= 7; the buffer index advances by w.  Boundary lengths included."""
    m = ctx.m
    for f in ('COCSdoInitDownloadSegmented', 'COCSdoDownloadSegmented'):
        m.need(f)
        for size in (300, 0x10000 + 14):
            for r in (range(1, 300) if getattr(ctx, 'tier', 'quick') == 'thorough' else (1, 2, 6, 7, 8, 9, 13, 14, 15, 21, 255, 256, 257, 262, 263)):
                if r > size:
                    continue
                inputs = {'csdo->Tfer.TBit': 0, 'csdo->Tfer.Size': size, 'csdo->Tfer.Buf_Idx': size - r,
                          'csdo->Tfer.Idx': 0x2000, 'csdo->Tfer.Sub': 1, 'csdo->Frm->Data[0]': 0x20 if f.endswith('DownloadSegmented') and 'Init' not in f else 0x60,
                          'csdo->Frm->Data[1]': 0x00, 'csdo->Frm->Data[2]': 0x20, 'csdo->Frm->Data[3]': 1,
                          'call:COTmrGetTicks': 100, 'call:COTmrCreate': 1, 'call:COTmrDelete': 0, 'csdo->TxId': 0x605}
                pe = PEval(m, f)
                pe.record_sets = False
                pe.keep_prefixes = ('csdo->Tfer.Size', 'csdo->Tfer.Buf_Idx', 'csdo->Tfer.TBit')
                pe.store_filter = lambda k, fld: (fld == ('CO_CSDO_TRANSFER', 'Buf_Idx')) or k == 'frm.Data[0]'
                trs = pe.run(dict([('csdo', 1)] + list(inputs.items())))
                w = min(r, 7)
                c = 1 if r <= 7 else 0
                site = '%s size=%d remaining=%d' % (f, size, r)
                bad = None
                if len(trs) != 1:
                    bad = '%d paths' % len(trs)
                for t in trs:
                    cmd = [e[2] for e in t.stores() if e[1] == 'frm.Data[0]'][-1:]
                    idx = [e[2] for e in t.stores() if e[4] == ('CO_CSDO_TRANSFER', 'Buf_Idx')][-1:]
                    if t.call_names().count('COIfCanSend') != 1:
                        bad = '%d frames sent' % t.call_names().count('COIfCanSend')
                    elif not cmd or cmd[0] is None or (cmd[0] & 0x0F) != (((7 - w) << 1) | c) or (cmd[0] & 0xE0) != 0:
                        bad = 'command byte %s, required n=%d c=%d (low nibble %Xh)' % (
                            hex(cmd[0]) if cmd and cmd[0] is not None else cmd, 7 - w, c, ((7 - w) << 1) | c)
                    elif idx != [size - r + w]:
                        bad = 'buffer index becomes %s, required %d' % (idx, size - r + w)
                if bad:
                    ctx.ob(P, 'RF13-csdo-download', f, site, None)
                    ctx.find(P, 'RF13-csdo-download', f, 'segment:%d' % r, m.loc(f, m.funcs[f].line), '%s: %s' % (site, bad))
                else:
                    ctx.ob(P, 'RF13-csdo-download', f, site, 'w=%d n=%d c=%d' % (w, 7 - w, c))


def run(ctx):
    download_segment_template(ctx)
    finalize_once(ctx)
    request_refusal(ctx)
    request_all_or_nothing(ctx)
    per_frame_refresh(ctx)
    response_table(ctx)
    toggle_and_mux(ctx)
    buffer_bound(ctx)
