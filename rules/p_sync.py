"""SYNC consumer / producer rules (C16): write rules of 1005h/1006h with rollback, cache coherence,
refusal changes nothing, producer gates, cycle -> ticks path."""
from canalyze.ir import is_pointer, walk, strip, const_eval, show, callee_name
from canalyze import flow
from canalyze.peval import PEval

P = ['C16']
ON = 1 << 30
MASK = 0x1FFFFFFF


def _run(m, fname, inputs, filt=None):
    pe = PEval(m, fname)
    pe.record_sets = False
    if filt is not None:
        pe.store_filter = filt
    base = {}
    for prm in m.funcs[fname].params:
        if is_pointer(prm[2]):
            base[prm[0]] = 1
    base.update(inputs)
    return pe.run(base)


def id_write(ctx):
    m = ctx.m
    f = 'COTSyncIdWrite'
    m.need(f, 'COSyncProdActivate', 'COSyncProdDeactivate')
    NONE = m.enum('CO_ERR_NONE')
    RANGE = m.enum('CO_ERR_OBJ_RANGE')
    RES = m.enum('CO_ERR_SYNC_RES')
    for old_on in (0, 1):
        for new_on in (0, 1):
            for same_id in (0, 1):
                for res_err in (0, 1):
                    oid = 0x80 | (ON if old_on else 0)
                    nid = (0x80 if same_id else 0x90) | (ON if new_on else 0)
                    trs = _run(m, f, {'*buffer': nid, 'out:COTInt32Read:2': oid, 'call:COTInt32Write': NONE,
                                      'node->Error': 0,
                                      'post:COSyncProdActivate': {'node->Error': (RES if res_err else 0)}},
                               filt=lambda k, fld: fld == ('CO_SYNC', 'CobId'))
                    site = '1005h old-producing=%d new-producing=%d same-id=%d resolution-error=%d' % (old_on, new_on, same_id, res_err)
                    bad = None
                    for t in trs:
                        names = t.call_names()
                        wr = [c for c in t.calls() if c[1] == 'COTInt32Write']
                        st = [e for e in t.stores()]
                        last = st[-1][2] if st else None
                        act = names.count('COSyncProdActivate')
                        deact = names.count('COSyncProdDeactivate')
                        refuse_id = old_on and not same_id
                        refuse_res = (not old_on) and new_on and res_err
                        if refuse_id:
                            if wr or st or act or deact or t.ret != RANGE:
                                bad = 'CAN-ID change while producing is not refused untouched (returns %s, stores %d)' % (t.ret, len(st))
                        elif refuse_res:
                            if wr or t.ret != RANGE or last != oid:
                                bad = 'unresolvable period: object written=%s, cached id %s (old %Xh), returns %s' % (bool(wr), last, oid, t.ret)
                        else:
                            if len(wr) != 1 or t.ret != NONE:
                                bad = 'legal write: %d object writes, returns %s' % (len(wr), t.ret)
                            if last != nid:
                                bad = 'cached COB-ID is %s after the write, dictionary holds %Xh' % (hex(last) if last is not None else None, nid)
                            if old_on and not new_on and deact != 1:
                                bad = 'producer not stopped when bit 30 is cleared'
                            if (not old_on) and new_on and act != 1:
                                bad = 'producer not started when bit 30 is set'
                            if (not old_on) and new_on and act and st and st[0][2] != nid:
                                bad = 'producer activated before the cached COB-ID is updated'
                    if bad:
                        ctx.ob(P, 'RF2-sync-id', f, site, None)
                        ctx.find(P, 'RF2-sync-id', f, 'idwrite:%s' % bad.split(':')[0][:45], m.loc(f, m.funcs[f].line), '%s: %s' % (site, bad))
                    else:
                        ctx.ob(P, 'RF2-sync-id', f, site, 'ok')


def cycle_write(ctx):
    m = ctx.m
    f = 'COTSyncCycleWrite'
    m.need(f)
    NONE = m.enum('CO_ERR_NONE')
    RANGE = m.enum('CO_ERR_OBJ_RANGE')
    RES = m.enum('CO_ERR_SYNC_RES')
    OTHER = m.enum('CO_ERR_IF_CAN_SEND')       # an unrelated, sticky node error left by an earlier fault
    for producing in (0, 1):
        for res_err in (0, 1, 2):
            for wr_err in (0, 1):
                # res_err == 2: the activation succeeds but node->Error still holds an older, unrelated error
                # (it is sticky until the application polls it): that is not a reason to roll back
                err_after = RES if res_err == 1 else (OTHER if res_err == 2 else 0)
                inputs = {'*buffer': 5000, 'out:COTInt32Read:2': 10000, 'call:COTInt32Write': NONE,
                          'node->Sync.CobId': 0x80 | (ON if producing else 0), 'node->Error': OTHER if res_err == 2 else 0,
                          'post:COSyncProdActivate': {'node->Error': err_after,
                                                      'node->Sync.CobId': 0x80 | (ON if producing else 0)}}
                if wr_err:
                    inputs['call:COTInt32Write#0'] = 0x111
                trs = _run(m, f, inputs, filt=lambda k, fld: fld == ('CO_SYNC', 'Cycle'))
                site = '1006h producing=%d resolution-error=%d object-write-error=%d' % (producing, res_err, wr_err)
                bad = None
                for t in trs:
                    names = t.call_names()
                    writes = [c for c in t.calls() if c[1] == 'COTInt32Write']
                    act = names.count('COSyncProdActivate')
                    if wr_err:
                        if t.ret in (NONE, None) or act:
                            bad = 'object write failed but returns %s / activates' % t.ret
                        continue
                    if act != (1 if producing else 0):
                        bad = 'producer re-timed %d times (producing=%d)' % (act, producing)
                    if producing and res_err == 1:
                        # rollback: old value written back, error returned
                        vals = [c[5].get(2) for c in writes]
                        if len(writes) != 2 or t.ret != RANGE or vals[1] != 10000:
                            bad = 'unresolvable period is not rolled back (values written %s, returns %s)' % (vals, t.ret)
                        st = [e[2] for e in t.stores()]
                        if st[-1:] != [10000]:
                            bad = 'cached cycle after rollback is %s, required the previous value' % st[-1:]
                    else:
                        if len(writes) != 1 or t.ret != NONE:
                            bad = 'legal write: %d object writes, returns %s' % (len(writes), t.ret)
                if bad:
                    ctx.ob(P, 'RF2-sync-cycle', f, site, None)
                    ctx.find(P, 'RF2-sync-cycle', f, 'cycle:%d:%d:%d' % (producing, res_err, wr_err), m.loc(f, m.funcs[f].line), '%s: %s' % (site, bad))
                else:
                    ctx.ob(P, 'RF2-sync-cycle', f, site, 'ok')


def activate(ctx):
    """COSyncProdActivate: bit-30 gate, refusal (missing 1006h / unresolvable period) changes nothing,
    timer created cyclic with start = cycle = ticks(cycle/100, 100us), zero period stops"""
    m = ctx.m
    f = 'COSyncProdActivate'
    NONE = m.enum('CO_ERR_NONE')
    for on in (0, 1):
        for rd_err in (0, 1):
            for (mintime, cycle) in ((10, 500), (10, 1000), (10, 5000), (1, 0), (1, 50)):
                inputs = {'sync->CobId': 0x80 | (ON if on else 0), 'call:CODictRdLong': (0x111 if rd_err else NONE),
                          'sync->Cycle': cycle, 'call:COTmrGetMinTime': mintime, 'sync->Tmr': 2,
                          'call:COTmrDelete': 0, 'call:COTmrGetTicks': 77, 'call:COTmrCreate': 4}
                pe = PEval(m, f)
                pe.record_sets = False
                pe.store_filter = lambda k, fld: fld in (('CO_SYNC', 'Tmr'), ('CO_NODE', 'Error'))
                # the cycle is read through an out-parameter into sync->Cycle: keep the bound value
                trs = pe.run(dict(inputs, **{'sync': 1}))
                site = 'COSyncProdActivate producing=%d 1006h-read-error=%d min=%d00us cycle=%dus' % (on, rd_err, mintime, cycle)
                bad = None
                for t in trs:
                    names = t.call_names()
                    touched = [n for n in names if n in ('COTmrDelete', 'COTmrCreate', 'COSyncProdDeactivate')]
                    tm = [e for e in t.stores() if e[4] == ('CO_SYNC', 'Tmr')]
                    refused = (not on) or rd_err
                    if refused:
                        if touched or tm:
                            bad = 'refused / skipped activation still touches the producer timer (%s)' % touched
                if bad:
                    ctx.ob(P, 'RF2-sync-activate', f, site, None)
                    ctx.find(P, 'RF2-sync-activate', f, 'activate:refusal-touches-timer', m.loc(f, m.funcs[f].line), '%s: %s' % (site, bad))
                else:
                    ctx.ob(P, 'RF2-sync-activate', f, site, 'ok')
    # structural: every path that stores the refusal marker CO_ERR_SYNC_RES has not deleted / created / cleared the timer
    g = m.cfg(f)
    RES = m.enum('CO_ERR_SYNC_RES')
    marks = []
    for node in g.nodes:
        if node.x is None:
            continue
        for (p, rhs, n) in flow.assigned_paths(node.x):
            l = strip(n.kids[0]) if n.k != 'var' else None
            if l is not None and l.k == 'mem' and l.field == ('CO_NODE', 'Error') and rhs is not None and const_eval(rhs, m) == RES:
                marks.append(node.id)
    ctx.require_min(P, 'RF2-sync-activate', len(marks), 1, 'refusal marker stores (CO_ERR_SYNC_RES)')
    eff = set()
    for node in g.nodes:
        if node.x is None:
            continue
        for c in walk(node.x):
            if c.k == 'call' and callee_name(c) in ('COTmrDelete', 'COTmrCreate', 'COSyncProdDeactivate'):
                eff.add(node.id)
        for (p, rhs, n) in flow.assigned_paths(node.x):
            l = strip(n.kids[0]) if n.k != 'var' else None
            if l is not None and l.k == 'mem' and l.field == ('CO_SYNC', 'Tmr'):
                eff.add(node.id)
    for mk in marks:
        back = flow.reach_from(g, mk, forward_dir=False)
        hit = sorted(back & eff)
        site = '%s: refusal marker' % m.loc(f, g.nodes[mk].line)
        if hit:
            ctx.ob(P, 'RF2-sync-activate', f, site, None)
            ctx.find(P, 'RF2-sync-activate', f, 'activate:effect-before-validation', m.loc(f, g.nodes[hit[0]].line),
                     'the producer timer is deleted / changed (line %d) on a path that then refuses the period as not '
                     'resolvable (line %d): the SDO write is answered 0609 0030h and 1006h keeps its value, but production '
                     'has stopped' % (g.nodes[hit[0]].line, g.nodes[mk].line))
        else:
            ctx.ob(P, 'RF2-sync-activate', f, site, 'no timer effect before the resolution check')
    # creation arguments: cyclic, start == cycle, callback COSyncProdSend
    for (caller, call) in m.call_sites('COTmrCreate'):
        if caller != f:
            continue
        a = call.kids
        same = show(strip(a[2])) == show(strip(a[3]))
        cb = show(strip(a[4])).replace('&', '')
        site = '%s: %s' % (m.loc(f, call), show(call)[:70])
        if same and cb == 'COSyncProdSend':
            ctx.ob(P, 'RF2-sync-activate', f, site, 'cyclic action, start = cycle')
        else:
            ctx.ob(P, 'RF2-sync-activate', f, site, None)
            ctx.find(P, 'RF2-sync-activate', f, 'activate:create-args', m.loc(f, call), 'SYNC producer action created with %s' % show(call))


def recognition(ctx):
    """a frame is SYNC iff identifier == CobId & 1FFFFFFFh"""
    m = ctx.m
    f = 'COSyncUpdate'
    EXTB = 1 << 29
    for (cob, ident, exp) in ((0x80, 0x80, True), (0x80 | ON, 0x80, True), (0x80, 0x81, False), (0x180, 0x80, False),
                              (0x80 | ON, 0x80 | ON, False),
                              # 29-bit identifiers: every one of the 29 bits takes part in the comparison
                              (EXTB | 0x12345, 0x12345, True), (EXTB | 0x12345, 0x345, False), (EXTB | 0x12345, 0x54345, False),
                              (EXTB | 0x10000080, 0x80, False), (EXTB | 0x10000080, 0x10000080, True), (0x80, 0x880, False),
                              (EXTB | ON | 0x1FFFFFFF, 0x1FFFFFFF, True), (EXTB | 0x1FFFFFFF, 0x0FFFFFFF, False)):
        inputs = {'frm->Identifier': ident, 'sync->CobId': cob}
        for i in range(m.extent('CO_SYNC', 'TPdo')):
            inputs['sync->TPdo[%d]' % i] = 0
        trs = _run(m, f, inputs)
        got = set((t.ret is not None and t.ret >= 0) for t in trs)
        site = 'COSyncUpdate 1005h=%Xh frame id=%Xh' % (cob, ident)
        if got == set([exp]):
            ctx.ob(P, 'RF1-sync-recognise', f, site, 'SYNC' if exp else 'not SYNC')
        else:
            ctx.ob(P, 'RF1-sync-recognise', f, site, None)
            ctx.find(P, 'RF1-sync-recognise', f, 'recognise:%X:%X' % (cob, ident), m.loc(f, m.funcs[f].line),
                     '%s: recognised=%s, required %s' % (site, sorted(got), exp))
    # producer send: zero-length frame on CobId & mask under the SYNC gate
    f = 'COSyncProdSend'
    for allowed in (0x10, 0x01):
        trs = _run(m, f, {'parg': 1, 'sync->CobId': 0x80 | ON, 'nmt->Allowed': allowed, 'sync->Node->Nmt.Allowed': allowed},
                   filt=lambda k, fld: fld is not None and fld[0] == 'CO_IF_FRM')
        bad = None
        for t in trs:
            sends = t.call_names().count('COIfCanSend')
            st = {}
            for e in t.stores():
                st[e[1]] = e[2]
            if allowed & 0x10:
                if sends != 1 or st.get('frm.Identifier') != 0x80 or st.get('frm.DLC') != 0:
                    bad = 'sends %d, id %s dlc %s' % (sends, st.get('frm.Identifier'), st.get('frm.DLC'))
            elif sends:
                bad = 'sends although SYNC is not allowed'
        site = 'COSyncProdSend allowed=%02X' % allowed
        if bad:
            ctx.ob(P, 'RF1-sync-recognise', f, site, None)
            ctx.find(P, 'RF1-sync-recognise', f, 'prodsend:%d' % allowed, m.loc(f, m.funcs[f].line), '%s: %s' % (site, bad))
        else:
            ctx.ob(P, 'RF1-sync-recognise', f, site, 'ok')


def init_clears_tables(ctx):
    """COSyncInit (node initialisation and every reset communication) leaves every per-PDO slot of the SYNC service empty:
    TX table (pointer, divisor, counter), RX table pointer and the "frame pending" marker of every buffered synchronous
    RPDO - a marker that survives the reset lets the first SYNC after the restart apply a frame received before it."""
    m = ctx.m
    f = 'COSyncInit'
    m.need(f)
    nt, nr = m.extent('CO_SYNC', 'TPdo'), m.extent('CO_SYNC', 'RPdo')
    pe = PEval(m, f)
    pe.record_sets = False
    pe.inline_names = set(['COSyncRemove'])      # a clearing loop written through the removal helper is folded through it
    pe.store_filter = lambda k, fld: True
    trs = pe.run({'sync': 1, 'node': 1})
    want = ['sync->TSync[%d]' % i for i in range(nt)] + ['sync->TPdo[%d]' % i for i in range(nt)] + ['sync->TNum[%d]' % i for i in range(nt)] + \
           ['sync->RPdo[%d]' % i for i in range(nr)] + ['sync->RFrm[%d].Identifier' % i for i in range(nr)]
    bad = None
    for t in trs:
        final = {}
        for e in t.stores():
            final[e[1]] = e[2]
        missing = [k for k in want if final.get(k) != 0]
        if missing:
            bad = 'not cleared: %s' % missing[:6]
    if not trs:
        bad = 'no path'
    site = 'COSyncInit clears %d slots' % len(want)
    props = P + ['C13', 'C20']
    if bad:
        ctx.ob(props, 'RF9-sync-init', f, site, None)
        ctx.find(props, 'RF9-sync-init', f, 'init-clears', m.loc(f, m.funcs[f].line), '%s: %s' % (site, bad))
    else:
        ctx.ob(props, 'RF9-sync-init', f, site, 'every table slot and every pending marker')


def run(ctx):
    init_clears_tables(ctx)
    id_write(ctx)
    cycle_write(ctx)
    activate(ctx)
    recognition(ctx)
