"""Which rule families decide which property; one-line explanations for the evidence."""
import importlib

RULE_MODULES = {
    'RF3': 'rules.rf3_timer',
}


def run_rule(rule, ctx, tier):
    done = getattr(ctx, '_done', None)
    if done is None:
        done = ctx._done = {}
    if rule in done:
        return done[rule]
    mod = importlib.import_module(RULE_MODULES[rule])
    ctx.tier = tier
    done[rule] = mod.run(ctx)
    return done[rule]


PROPERTIES = {
    'C10': {
        'rules': ['RF3'],
        'explanation': 'Static typestate analysis of every timer handle (create/delete/store sites, all CFG paths, '
                       'callee summaries): no armed heartbeat handle is overwritten (H1) and no function leaves a '
                       'handle holding a deleted id (H2, all handles: a stale id is how another service deletes the '
                       'heartbeat action).',
        'not_decided': 'tick-exact heartbeat schedule',
    },
    'C11': {
        'rules': ['RF3'],
        'explanation': 'Timer-handle typestate for CO_HBCONS.Tmr: re-arm deletes first, deactivation deletes, no armed '
                       'handle overwritten on any path.',
        'not_decided': 'timeout timing',
    },
    'C12': {
        'rules': ['RF3'],
        'explanation': 'Timer-handle typestate for CO_TPDO.EvTmr/InTmr and the verified invariant '
                       '"(Flags & I) == 0 <=> InTmr released" (establish / arm / release obligations).',
        'not_decided': 'emission timing multiset',
    },
    'C16': {
        'rules': ['RF3'],
        'explanation': 'Timer-handle typestate for CO_SYNC.Tmr including release before re-initialisation on reset.',
        'not_decided': 'period exactness',
    },
    'C19': {
        'rules': ['RF3'],
        'explanation': 'Timer-handle typestate for CO_CSDO_TRANSFER.Tmr and the verified invariant '
                       '"State != BUSY => Tfer.Tmr released".',
        'not_decided': 'data equality',
    },
    'C20': {
        'rules': ['RF3'],
        'explanation': 'Release-on-reset: every handle overwritten by a re-initialisation called from CONmtReset is '
                       'released first (requirement propagation over call chains).',
        'not_decided': 'trace equivalence',
    },
}
