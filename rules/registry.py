"""Which rule families decide which property; one-line explanations for the evidence."""
import importlib

RULE_MODULES = {
    'RF3': 'rules.rf3_timer',
    'SDO': 'rules.p_sdo',
    'NMT': 'rules.p_nmt',
    'LSS': 'rules.p_lss',
    'PDOCFG': 'rules.p_pdocfg',
    'EMCY': 'rules.p_emcy',
    'PARA': 'rules.p_para',
    'RF5': 'rules.rf5_null',
    'RF6': 'rules.rf6_index',
    'RF4': 'rules.rf4_lock',
    'TMR': 'rules.p_tmr',
    'PDO': 'rules.p_pdo',
    'SYNC': 'rules.p_sync',
    'CSDO': 'rules.p_csdo',
    'DICT': 'rules.p_dict',
    'SDO2': 'rules.p_sdo2',
    'HB': 'rules.p_hb',
    'RESET': 'rules.p_reset',
    'RF14': 'rules.rf14_elem',
    'RF7': 'rules.rf7_narrow',
    'OBJWR': 'rules.p_objwrite',
    'RF16': 'rules.rf16_delta',
    'RF17': 'rules.rf17_copy',
}


def run_rule(rule, ctx, tier):
    done = getattr(ctx, '_done', None)
    if done is None:
        done = ctx._done = {}
    if rule in done:
        return done[rule]
    mod = importlib.import_module(RULE_MODULES[rule])
    # service modules of a service that is compiled out in this configuration have nothing to analyse
    if (rule == 'LSS' and not getattr(ctx.m, 'has_lss', True)) or (rule == 'CSDO' and not getattr(ctx.m, 'has_csdo', True)):
        done[rule] = None
        return None
    ctx.tier = tier
    done[rule] = mod.run(ctx)
    return done[rule]


# Properties whose behaviour rests on another property's clauses: a finding of the foundation property is a finding of
# the dependent one as well (a download cannot leave "exactly the client's bytes" when the dictionary lookup misses the
# object, the dispatcher routes the frame elsewhere or the server is wedged; the heartbeat cannot be exact when the timer
# manager drops actions).  The dependent check runs the foundation's rules too and reports their findings as
# "via <foundation>".
DEPENDS = {
    # a corrupted timer list (an event linked twice, a slot freed while still linked) is memory corruption
    'C01': ['C08'],
    # the sequential timing behaviour rests on the consistency of the timer lists
    'C07': ['C08'],
    'C02': ['C04', 'C05', 'C06'],
    'C03': ['C04', 'C05', 'C06'],
    # an SDO write to a PDO parameter object that is answered with the wrong verdict is a wrong SDO answer
    'C04': ['C06', 'C14'],
    # producer and consumer share the timer pool: a stale action id kept by one of them is how the other one's action gets
    # deleted (seeds C10-16 / C11-16 were each reported by the check of the other)
    'C10': ['C08', 'C11'],
    'C11': ['C08', 'C10'],
    # PDO behaviour rests on the timer manager, on the dictionary, on accepted reconfigurations being carried out
    # (C14) and - for synchronous PDOs - on SYNC being recognised (C16)
    'C12': ['C08', 'C06', 'C14', 'C16'],
    'C13': ['C06', 'C14', 'C16'],
    'C14': ['C06'],
    'C16': ['C08'],
    'C19': ['C08'],
    # "every service returns to the behaviour of a fresh node": the per-service reset / initialisation clauses
    'C20': ['C05', 'C12', 'C13', 'C15', 'C08'],
}


PROPERTIES = {
    'C01': {
        'rules': ['RF6', 'RF5', 'SDO', 'TMR', 'CSDO', 'SDO2', 'RF7', 'PDOCFG', 'EMCY', 'RF17'],
        'technique': 'interval abstract interpretation (widening/narrowing, guard refinement, parameter and field '
                     'invariants) for every constant-extent subscript; non-null dataflow with bounded disjunction for every '
                     'dereference of a nullable location; guard-before-use for SDO continuation handlers',
        'explanation': 'Memory-safety clauses visible in the shape of the code: (1,2) every subscript of a constant-size '
                       'array (frame bytes, PDO/SYNC/EMCY tables, service tables) is proven in range; (3) every dereference '
                       'of a value loaded from a location the library itself nulls (timer lists, SYNC tables, mapping '
                       'slots, dictionary lookups) is non-null on every path; (4) SDO continuation handlers reachable with '
                       'no transfer open test srv->Obj before touching transfer state.'
                       ' Further clauses added later: lossless narrowing of every length / size / offset value (RF7), per-server transfer buffer slices do not overlap, the transfer buffer cursor is defined by the initiator before a continuation uses it, ObjNum is published only for a validated mapping (premise of the Map[]/Size[] subscripts), timer action chain shape (tail pointer), 1003h history read stays inside the ring.',
        'not_decided': 'the whole reachability claim (no sanitizer report on any history): SDO buffer cursor bounds across '
                       'frames, undefined arithmetic, driver-fault sequences',
    },
    'C06': {
        'rules': ['DICT', 'RF7', 'RF17'],
        'technique': 'shape rules over the CFG (init walk, canonical binary-search form with unsigned masked comparisons), '
                     'decision tables of the typed accessors and integer type functions over flag/width classes, '
                     'conversion check on the buffer length path, guard folding of the domain length clip',
        'explanation': 'Init walk: every entry the loop condition tests is initialised exactly once before the single '
                       'advance; CODictFind is in canonical inclusive binary-search form (mid between the bounds, the moved '
                       'bound excludes mid, upper bound moves iff the masked element key is greater, unsigned 32-bit '
                       'comparisons of keys masked with FFFFFF00h on both sides, no signed difference); typed accessors '
                       'query the size with their own width and refuse other widths before access; integer types agree '
                       '(node-id added on read / subtracted on write, width check, TPDO trigger iff asynchronous, mappable '
                       'and changed); buffer length reaches the object layer unconverted; domain access moves '
                       'min(requested, remaining) bytes and a start access resets the offset first.'
                       ' Further clauses: object-layer wrappers forward to the type function on every path whatever the key flags are; stored-value classes (a direct entry holding 0); offset discipline of the streaming types; RF7 on offsets and lengths.',
        'not_decided': 'round-trip of every value and correctness of the search on every concrete dictionary beyond the '
                       'shape argument',
    },
    'C07': {
        'rules': ['RF16', 'TMR'],
        'exhaustive': False,
        'technique': 'abstract interpretation of COTmrInsert / COTmrRemove / COTmrService over a shape window (cursor, two '
                     'successors, fresh event, caller-supplied event) with affine forms for expiry times, sign facts from '
                     'branch conditions and a cursor shift at loop heads (saturated fixpoint, no execution, no solver); '
                     'symbolic per-path result shape of the tick conversions; decision-table extraction for create / '
                     'delete / service; must-facts for the re-arm interval',
        'explanation': 'RF16-expiry: with alpha(head) = COIfTimerDelay() and alpha(next(n)) = alpha(n) + Delta(next(n)), every '
                       'return of COTmrInsert leaves the new event at alpha == dTnew (or joins an event with alpha == dTnew), '
                       'keeps alpha of every pending event, loses none, places the event between alpha <= dTnew and alpha >= '
                       'dTnew, reloads the hardware timer when the head changes, and changes nothing when it refuses; every '
                       'return of COTmrRemove keeps alpha of the remaining events (head removal adds the REMAINING time, '
                       'interior removal the stored delta) and pushes the event on the free list; COTmrService loads the '
                       'timer with the delta of the new head. RF16-rearm: a cyclic action is re-inserted with its own '
                       'CycleTicks, only where that is non-zero. RF16-ticks: COTmrGetTicks is time / (unit / Freq) for Freq <= '
                       'unit and time * (Freq / unit) above, 0 for frequency 0, time widened first (monotonic, exact on whole '
                       'ticks); COTmrGetMinTime returns the same divisor. From the timer tables (TMR): creation fails iff no '
                       'slot is free or both times are zero, first interval = start delay or the period when that is 0, a '
                       'one-shot action is released before its callback, an action due together with a pending event joins '
                       'it (all run in the same step), a confirmed deletion takes the action out of the pending or elapsed '
                       'list.',
        'assumptions': [
            'RF16: within one call of COTmrInsert / COTmrRemove no time passes (COIfTimerDelay() returns one value D; after '
            'COIfTimerReload(x) the remaining time is x); when COTmrService finds the timer elapsed the remaining time is 0',
            'RF16: affine forms are over the integers - 32-bit wrap-around of time sums is not modelled',
            'RF16: list nodes outside the window (before the predecessor, behind the second successor) are reachable only '
            'through the window; a store to one of them is reported, not assumed away',
        ],
        'not_decided': 'the schedule itself (on which tick each callback runs for a given operation history): the clauses above '
                       'are necessary conditions - each one, when broken, shifts, loses or duplicates an expiry for some history - '
                       'not a proof of lockstep agreement with a reference timer; overflow of the 32-bit time sums',
    },
    'C08': {
        'rules': ['RF4', 'RF5', 'TMR', 'RESET', 'RF16'],
        'technique': 'lock-depth dataflow over co_tmr.c (helpers inherit the depth of all call sites); non-null '
                     'dataflow with bounded disjunction over the timer list heads and links',
        'explanation': 'RF4: lock/unlock balanced on every path, every store to a list head or event link and every load of '
                       'a head that is kept or dereferenced happens at lock depth 1, the interrupt-level service takes no '
                       'lock and only moves the head event; RF5 on CO_TMR.{Use,Elapsed,Free,Acts} and the Next/Action links: the delete-while-elapsed clause '
                       'needs COTmrRemove/COTmrDelete/COTmrInsert to tolerate an event that is not in the used list, an '
                       'emptied event in the elapsed list and an exhausted event pool.'
                       ' Further clauses: pool-conservation tables of COTmrCreate / COTmrService / COTmrDelete (search in the pending AND the elapsed list, push in front of the elapsed list), tail-pointer maintenance of the action chains, head-delta provenance and equal-expiry merge (RF15), driver init before the timer lists are emptied.',
        'not_decided': 'interleaving semantics under preemption',
    },
    'C13': {
        'rules': ['RF5', 'RF6', 'PDO', 'RF14', 'HB', 'NMT', 'RF17', 'RF7'],
        'technique': 'decision-table extraction (CORPdoCheck, CORPdoRx, layout with dummy entries), must-facts (NMT gate, pending marker), registration-bit typestate, interval analysis of mapping-table subscripts, non-null dataflow on the synchronous-RPDO table',
        'explanation': 'CORPdoCheck matches only enabled RPDOs with an equal identifier and searches past disabled channels; CORPdoRx: application veto respected, asynchronous written at once, synchronous buffered; synchronous application only in OPERATIONAL and only for a pending frame; payload layout: producer CORPdoGetMap and consumer CORPdoWrite agree on dummy entries (little-endian field starts after the dummy width); SYNC registration typestate; RF6 on CO_RPDO.Map/Size and the SYNC tables; RF5 on Sync.RPdo[i]; element consistency.',
        'not_decided': 'field values written',
        'not_decided': 'values written by user-defined object types',
    },
    'C02': {
        'rules': ['SDO2', 'SDO', 'RF14', 'RF7', 'RF17'],
        'exhaustive': False,
        'technique': 'response-template folding (RF13) of the five download handlers over input classes, toggle / sequence '
                     'guard tables, constant folding of the per-server buffer offset, must-write vs upward-exposed-read '
                     'sets across frames',
        'explanation': 'Download handlers: response command, toggle bit, acknowledged sequence number, next block size and '
                       'the number of bytes flushed to the object are the CiA 301 values for every input class; a wrong '
                       'toggle or an out-of-sequence block segment consumes nothing; strict/non-strict size negotiation per '
                       'initiator and the COSdoGetSize table; servers use disjoint buffer slices of at least 127x7 bytes; '
                       'every transfer field a continuation handler reads is set by its initiator on every successful path.',
        'not_decided': 'object == payload for every size and segmentation (data movement through counters)',
    },
    'C03': {
        'rules': ['SDO2', 'RF14', 'RF7', 'RF17'],
        'exhaustive': False,
        'technique': 'response-template folding (RF13) of the upload handlers, call-graph effect rule, must-write vs '
                     'upward-exposed-read sets across frames',
        'explanation': 'Upload handlers: 43h|n / 41h+size / t<<4|(7-w)<<1|c / C2h+size / C1h|n<<2 templates, announced size '
                       'is the size-query result, toggle guard, block size taken from the initiate and from every '
                       'acknowledge, sequence-number checks; no upload handler reaches a write of the object; transfer '
                       'fields are set by the initiator before a continuation reads them.',
        'not_decided': 'reassembled bytes for every acknowledge pattern (go-back-N arithmetic)',
    },
    'C04': {
        'rules': ['SDO', 'RF14', 'SDO2', 'OBJWR'],
        'exhaustive': True,
        'technique': 'decision-table extraction by constant folding of the dispatcher guards over all 256 command '
                     'bytes x 5 block states, verdict tables, return-path discipline, must-pass-through',
        'explanation': 'RF1: the complete command-byte x block-state routing table of COSdoResponse, the object-lookup, '
                       'length-negotiation and type-error->abort-code tables are extracted by folding the guard '
                       'expressions and compared with CiA 301; RF2: every handler return path is NONE/ABORT/SILENT, '
                       'ABORT paths have composed an abort frame, NONE paths stored the response command, one send per '
                       'result in CONodeProcess, no write after refusal; RF12c: the multiplexer used for lookup is taken '
                       'from the current frame on every path.',
        'not_decided': 'side-effect freedom of user-supplied type functions; response payload values',
    },
    'C05': {
        'rules': ['SDO', 'SDO2', 'RF14', 'OBJWR'],
        'exhaustive': True,
        'technique': 'decision-table extraction, must-store on all paths, guard-before-use dataflow',
        'explanation': 'Necessary conditions for "no history wedges a server": client abort 80h reaches the reset '
                       'routine in all five block states before any state-dependent decoding (extracted table); every '
                       'field the dispatcher consults is reset by COSdoAbortReq and COSdoReset on every path; every '
                       'continuation handler routed to while no transfer is open tests srv->Obj before touching transfer '
                       'state; reset communication re-initialises the servers on every path.',
        'not_decided': 'AG EF idle over the implementation state space (model checking)',
    },
    'C09': {
        'rules': ['NMT', 'HB', 'RF7'],
        'exhaustive': True,
        'technique': 'decision-table extraction (NMT command x target x identifier, mode x service), must-facts at '
                     'every transmission site, who-may-write / who-may-send rules',
        'explanation': 'RF1: CONmtCheck folded over all command specifiers, targets and identifiers; CONmtSetMode over '
                       'all 25 transitions; mode->services derived by folding the dispatch cascade of CONodeProcess with '
                       'each mode mask and compared with CiA 301; RF2: LSS first, at most one claim per frame, leftover '
                       'to the application exactly once without transmission, every COIfCanSend site is in the frozen '
                       'table and dominated by the NMT gate of its service, boot-up frame only from INIT.',
        'not_decided': 'sequencing over command histories beyond what table + single writer imply',
    },
    'C18': {
        'rules': ['LSS', 'NMT', 'RF7'],
        'exhaustive': True,
        'technique': 'decision-table extraction: service table vs CiA 305, every handler folded over its finite input '
                     'classes (step x lookup error x ordering of select/ident, all node ids, all table/index bytes)',
        'explanation': 'RF1: COLssServices rows (specifier, allowed states, handler) against CiA 305, COLssCheck folded '
                       'over 256 specifiers x 3 states; selective/identify step chains: right 1018h sub-index, right '
                       'comparison operator, answer 44h/4Fh exactly on a complete in-order match; node-id 1..127|255, '
                       'bit-timing table 0 with defined rate; RF2: handlers never return 0, positive result implies '
                       'identifier 7E4h; RF9: stored configuration loaded before servers/boot-up on reset.',
        'not_decided': 'sequence semantics beyond the step guards',
    },
    'C14': {
        'rules': ['PDOCFG', 'RF6', 'PDO', 'RF14', 'OBJWR', 'NMT', 'RF7'],
        'exhaustive': True,
        'technique': 'decision-table extraction: each PDO parameter Write function folded over valid bit x count x target '
                     'existence x access flags x new value classes; verdict = stored / refused-with-nothing-stored',
        'explanation': 'RF2/RF1: COTPdoMapWrite, COTPdoNumWrite, COTPdoTypeWrite and COTPdoIdWrite store the value iff the '
                       'CiA 301 preconditions hold (PDO invalid, count zero, target exists/mappable/right access, <= 8 '
                       'entries and <= 8 bytes, no extended id, no RTR for TPDO, no valid->valid), read the valid bit of '
                       'the right communication record, a refused write stores nothing and returns an error; live '
                       're-initialisation only in OPERATIONAL when the valid bit changes, after the store; activation '
                       're-validates byte total and target existence before ObjNum is stored.',
        'not_decided': 'interaction over write sequences beyond what the guards imply; activated PDO behaviour',
    },
    'C15': {
        'rules': ['EMCY', 'OBJWR', 'RESET', 'RF17', 'RF7'],
        'exhaustive': True,
        'technique': 'decision-table extraction over input classes, must-facts at the transmission site',
        'explanation': 'RF2: register update and EMCY frame only on a real transition (set/clear/reset, silent reset '
                       'sends nothing); the send is dominated by the NMT gate and by the valid bit of COB-ID 1014h; RF1: '
                       'frame layout (code low/high, register byte 2, five manufacturer bytes), 1003h:00 write rule, '
                       'history ring position wraps to 1 after the depth and the fill level saturates.',
        'not_decided': 'register/counter consistency over call histories',
    },
    'C17': {
        'rules': ['PARA', 'RF7', 'DICT'],
        'exhaustive': True,
        'technique': 'decision-table extraction over signature values, group counts, failure positions, enable flag and '
                     'driver byte counts',
        'explanation': 'RF2: store/restore executed iff the written value equals the signature, wrong values refused with '
                       'no driver call, callback or store; sub-index 1 fans out over groups 2..N and stops at the first '
                       'error, otherwise exactly the addressed group; enable flag gates driver write / default callback; '
                       'RF8: NVM byte counts compared with the group size and surfaced (store, load at init, both reset '
                       'types), never discarded; each NMT reset reloads the groups of its type.',
        'not_decided': 'crash-point durability and RAM/NVM equality',
    },
    'C10': {
        'rules': ['RF3', 'NMT', 'TMR', 'HB', 'RESET', 'OBJWR', 'RF7'],
        'explanation': 'RF3 for CO_NMT.Tmr and every other handle (H1 no armed handle overwritten, H2 no handle keeps a deleted id, H5 a one-shot callback redefines its own expired handle on every path - a stale id is how another service deletes the heartbeat action); 1017h write rule (delete before create, cyclic with the written period, zero stops, refused write changes nothing); heartbeat frame template (700h+node id, one byte, state byte from the table); NMT gate of the producer; state-byte table both directions; timer action chain shape (RF11) because a dangling tail pointer delays or loses the heartbeat action; RF9a: the producer action is re-established by reset communication (known finding).',
        'not_decided': 'tick-exact heartbeat schedule (timer delta arithmetic, see C07)',
        'technique': 'timer-handle typestate dataflow with callee summaries and requirement propagation; decision-table extraction by partial evaluation of the handlers over input classes; must-facts at transmission sites',
    },
    'C11': {
        'rules': ['RF3', 'HB', 'RF5', 'NMT', 'OBJWR', 'RESET', 'RF7'],
        'explanation': 'RF3 for CO_HBCONS.Tmr (re-arm deletes first, deactivation deletes, no armed handle overwritten, the one-shot monitor redefines its handle); activation table (duplicate node refused, unlink by identity, event counter and last state reset together with the configuration, accepted path stores exactly the configuration); monitor timeout (event counter +1, callback with the node id, one-shot re-arm with the consumer time, last state untouched); frame check (delete-then-create re-arm, change callback iff the state differs, foreign identifiers ignored); last-state ownership (who may write CO_HBCONS.State); state-byte decode table for all defined bytes and a sample of undefined ones; RF5 on the consumer chain.',
        'not_decided': 'timeout timing; interleaving of monitor expiry with reception',
        'technique': 'timer-handle typestate dataflow with callee summaries and requirement propagation; decision-table extraction by partial evaluation of the handlers over input classes; must-facts at transmission sites',
    },
    'C12': {
        'rules': ['RF3', 'RF6', 'PDO', 'RF14', 'PDOCFG', 'OBJWR', 'DICT', 'NMT', 'RF7'],
        'explanation': 'Transmission gates of COTPdoTx by must-facts (NMT, COB-ID valid, inhibit); RF3 H1/H2/H4/H5 for EvTmr/InTmr with the verified invariant (Flags & I) == 0 <=> InTmr released; transmission-type tables of COTPdoReset; SYNC counting (one increment per recognised SYNC for each registered TPDO, type n sends when the counter reaches n and restarts, type 0 every SYNC); TX/RX SYNC-table separation; SYNC registration bit typestate (COSyncAdd / COSyncRemove pairing with the S flag); live event-time write table for every value including 0; RF6 on Map[]/Size[] and the SYNC tables; element consistency of pdo[num].',
        'not_decided': 'emission timing multiset; payload bytes beyond the mapping layout',
        'technique': 'timer-handle typestate dataflow with callee summaries and requirement propagation; decision-table extraction by partial evaluation of the handlers over input classes; must-facts at transmission sites; interval analysis of the mapping tables',
    },
    'C16': {
        'rules': ['RF3', 'SYNC', 'PDO', 'RESET', 'OBJWR', 'NMT', 'RF7'],
        'explanation': '1005h and 1006h write rules with rollback (value based), cache coherence of Sync.CobId / Sync.Cycle with the dictionary, refusal changes nothing, producer started / stopped exactly when bit 30 changes and after the cache is updated; recognition identifier == CobId & 1FFFFFFFh for every DLC; producer send gate and zero-length frame; cycle -> ticks path (cyclic timer, start == cycle); RF3 for CO_SYNC.Tmr; SYNC registration typestate; RF9a/RF3-H1/H3: producer and cached identifier after reset communication (known findings).',
        'not_decided': 'period exactness',
        'technique': 'timer-handle typestate dataflow with callee summaries and requirement propagation; decision-table extraction by partial evaluation of the handlers over input classes; must-facts at transmission sites',
    },
    'C19': {
        'rules': ['RF3', 'CSDO', 'RF14', 'RF7', 'RF17'],
        'explanation': 'Finalise-once shape (callback once, state IDLE, timeout action released: RF3 H1/H2/H4 State != BUSY => Tfer.Tmr released, H5); busy / invalid client refuses a request before any field is written; request frames (command byte, announced size); per-frame refresh and selection of a busy client with the matching identifier (for every configured client); response routing table per transfer type incl. abort for a foreign multiplexer; toggle discipline; download segment templates for every boundary of the remaining length (w = min(r,7), n = 7-w, c iff r <= 7); every store into the user buffer dominated by index < Tfer.Size (RF6e); timeout abort frame 0504 0000h; element consistency of csdo[n].',
        'not_decided': 'payload equality; timing of the timeout',
        'technique': 'timer-handle typestate dataflow with callee summaries and requirement propagation; decision-table extraction by partial evaluation of the handlers over input classes; must-facts at transmission sites; relational must-facts for the user-buffer bound',
    },
    'C20': {
        'rules': ['RF3', 'RESET', 'LSS', 'EMCY', 'SDO', 'PARA', 'SYNC'],
        'explanation': 'RF3-H3: reset communication releases every instance of all seven timer handles (H1: no re-initialisation overwrites an armed handle); RF9a: every activation effect of CONodeInit (timer with callback X, consumer / producer activation, cached identifier, servers / clients enabled) is re-established by CONmtReset; RF9b: every service record initialised by CONodeInit is re-initialised or reset on every reset-communication path; RF9c: the timer pool reset is not reachable from CONmtReset (application timers survive); LSS: stored configuration loaded before servers and boot-up; SDO servers: COSdoReset resets every dispatcher-consulted field (RF12b); EMCY: the silent reset covers every active error number and every class counter. Thirteen known findings (reset-communication cluster).',
        'not_decided': 'trace equivalence with a fresh node',
        'technique': 'typestate release-on-reset with loop summaries over semantically recognised counted loops and list walks; init / reset effect agreement over the exactly resolved call graph; decision tables of the reset paths',
    },
}
