"""RF9 - init / reset agreement (C20; attributed also to the service the effect belongs to).
(a) every activation effect reachable from CONodeInit (timer actions created with callback X, consumer /
    producer activation, cached identifiers loaded, server / client enable) is also reachable from
    CONmtReset - on the reset side only through exactly resolved call edges;
(b) every service record initialised by CONodeInit is re-initialised or reset by CONmtReset on every
    reset-communication path;
(c) the pool reset COTmrInit / COTmrReset is not reachable from CONmtReset (application timers survive)."""
from canalyze.ir import walk, strip, const_eval, show, callee_name
from canalyze.peval import PEval

P = ['C20']
# effects that are re-established later or persist by design (frozen, one reason each)
EXEMPT = {
    'init:COTPdoClear': 'PDOs stay inactive until OPERATIONAL: COTPdoInit/CORPdoInit run from CONmtSetMode(CO_OPERATIONAL)',
    'init:CORPdoClear': 'PDOs stay inactive until OPERATIONAL: COTPdoInit/CORPdoInit run from CONmtSetMode(CO_OPERATIONAL)',
    'init:COEmcyInit': 'emergency state is cleared by COEmcyReset(silent) on reset; the table link persists by design',
    'init:COIfInit': 'driver links persist by design (the CAN driver is reset with COIfCanReset)',
    'init:COTmrInit': 'timer pools persist: application timers must survive (clause c)',
    'init:CODictInit': 'the dictionary persists by design',
    'init:CODictObjInit': 'object initialisers: their activation effects are compared one by one (clause a)',
    'init:COIfCanEnable': 'CAN controller: COIfCanReset on the reset path',
    'init:COLssLoad': None,     # must be present (checked by RF9-lss)
}
# properties whose own text speaks about the behaviour after a reset communication
EFFECT_PROPS = {
    'timer:CONmtHbProdSend': ['C10'], 'call:COSyncProdActivate': ['C16'], 'store:CO_SYNC.CobId': ['C16'],
}


def _effects(m, funcs):
    out = {}
    for f in funcs:
        fn = m.funcs.get(f)
        if fn is None:
            continue
        for n in walk(fn.body):
            if n.k == 'call':
                nm = callee_name(n)
                if nm == 'COTmrCreate' and len(n.kids) > 4:
                    cb = strip(n.kids[4])
                    if cb.k == 'un':
                        cb = strip(cb.kids[0])
                    if cb.k == 'ref':
                        out.setdefault('timer:' + cb.name, f)
                elif nm in ('CONmtHbConsActivate', 'COSyncProdActivate', 'COSdoEnable', 'COCSdoEnable'):
                    out.setdefault('call:' + nm, f)
                # cached identifier loaded through an out-parameter
                for a in n.kids[1:]:
                    a0 = strip(a)
                    if a0.k == 'un' and a0.op == '&':
                        t = strip(a0.kids[0])
                        if t.k == 'mem' and t.field == ('CO_SYNC', 'CobId'):
                            out.setdefault('store:CO_SYNC.CobId', f)
            elif n.k == 'bin' and n.op == '=':
                l = strip(n.kids[0])
                if l.k == 'mem' and l.field == ('CO_SYNC', 'CobId') and const_eval(n.kids[1], m) is None:
                    out.setdefault('store:CO_SYNC.CobId', f)
    return out


def _exact_reach(m, root):
    seen = set()
    st = [root]
    while st:
        f = st.pop()
        if f in seen or f not in m.funcs:
            continue
        seen.add(f)
        for (n, tg, ext, d) in m.calls.get(f, ()):
            if not tg:
                continue
            if callee_name(n) is not None or len(tg) == 1:
                st.extend(tg)
    return seen


# (d) order dependencies (each confirmed by reading what the later function reads / the earlier one establishes)
INIT_ORDER = [
    ('COIfInit', 'COTmrInit', 'the driver init stops the hardware timer: the timer lists are emptied only after no tick can arrive any more '
                              '(re-initialisation of a node whose application timers are still pending)'),
    ('CODictInit', 'COSdoInit', 'COSdoInit enables the servers from 1200h.. (dictionary lookups)'),
    ('CODictInit', 'COCSdoInit', 'COCSdoInit enables the clients from 1280h..'),
    ('CODictInit', 'COEmcyInit', 'COEmcyInit looks up 1001h / 1014h'),
    ('CODictInit', 'CODictObjInit', 'the object initialisers walk the dictionary'),
    ('COTmrInit', 'CODictObjInit', 'type initialisers (1016h, 1017h, 1005h/1006h) create timer actions'),
    ('CONmtInit', 'CODictObjInit', 'CONmtInit drops the heartbeat consumer chain and the producer handle the initialisers establish'),
    ('COSyncInit', 'CODictObjInit', 'COSyncInit zeroes the cached SYNC identifier and producer handle the initialisers establish'),
    ('COLssLoad', 'COSdoInit', 'the stored node id must be in place before node-id relative identifiers are read'),
    ('COLssLoad', 'COCSdoInit', 'the stored node id must be in place before node-id relative identifiers are read'),
]
RESET_ORDER = [
    ('COObjReset', 'COSdoInit', 'reloaded communication parameters must be in RAM before the servers re-read their identifiers'),
    ('COObjReset', 'COSyncInit', 'reloaded communication parameters first'),
    ('COTmrClear', 'CONmtInit', 'stack timers are deleted before the handles are re-initialised'),
    ('COTmrClear', 'COSyncInit', 'stack timers are deleted before the handles are re-initialised'),
    ('COSdoInit', 'CONmtBootup', 'the boot-up frame announces a node whose services are initialised'),
    ('COSyncInit', 'CONmtBootup', 'the boot-up frame announces a node whose services are initialised'),
    ('COEmcyReset', 'CONmtBootup', 'emergencies are cleared before the node announces itself'),
    ('COIfCanReset', 'CONmtBootup', 'a boot-up frame handed to the controller before it is reset is lost'),
]


def order(ctx):
    m = ctx.m
    for (f, table, inputs, last) in (
            ('CONodeInit', INIT_ORDER, {'node': 1, 'spec': 1, 'call:CODictInit': 5, 'call:COLssLoad': 0, 'call:CODictObjInit': 0}, ()),
            ('CONmtReset', RESET_ORDER, {'nmt': 1, 'type': m.enum('CO_RESET_COM'), 'call:CODictFind': 1, 'call:COObjReset': 0,
                                         'call:COLssLoad': 0}, ('CONmtBootup',))):
        pe = PEval(m, f)
        pe.record_sets = False
        pe.store_filter = lambda k, fld: False
        trs = pe.run(inputs)
        for (a, b, why) in table:
            if a not in m.funcs and a not in ('COObjReset',):
                continue          # service compiled out in this configuration
            if (a.startswith('COLss') and not getattr(m, 'has_lss', True)) or (b.startswith('COCSdo') and not getattr(m, 'has_csdo', True)):
                continue
            if b not in m.funcs:
                continue
            site = '%s: %s before %s' % (f, a, b)
            bad = None
            seen_both = False
            for t in trs:
                names = t.call_names()
                if a in names and b in names:
                    seen_both = True
                    ia = names.index(a)
                    ib = (len(names) - 1 - names[::-1].index(b)) if b in last else names.index(b)
                    if ia > ib:
                        bad = '%s runs before %s' % (b, a)
                elif b in names and a not in names and a != 'COObjReset':
                    bad = '%s runs on a path without %s' % (b, a)
            if bad:
                ctx.ob(P, 'RF9d', f, site, None)
                # what is initialised in the wrong order belongs to these services as well
                extra = {'COTmrInit': ['C08'], 'CODictObjInit': ['C10', 'C11', 'C16', 'C06'], 'COSdoInit': ['C05'], 'COCSdoInit': ['C19'], 'COEmcyInit': ['C15'],
                         'COSyncInit': ['C16'], 'CONmtBootup': ['C09']}.get(b, []) + {'COEmcyReset': ['C15']}.get(a, [])
                ctx.find(P + extra, 'RF9d', f, 'order:%s<%s' % (a, b), m.loc(f, m.funcs[f].line), '%s: %s (%s)' % (site, bad, why))
            elif seen_both:
                ctx.ob(P, 'RF9d', f, site, why)
            else:
                ctx.ob(P, 'RF9d', f, site, 'not both on a path (nothing to order)', nontrivial=False)


def run(ctx):
    m = ctx.m
    m.need('CONodeInit', 'CONmtReset', 'COTmrInit')
    order(ctx)
    init_reach = m.reachable_funcs(['CONodeInit'])
    # the initialisation side includes every type initialiser stored in a CO_OBJ_TYPE.Init slot
    init_eff = _effects(m, init_reach)
    reset_reach = _exact_reach(m, 'CONmtReset')
    reset_eff = _effects(m, reset_reach)
    ctx.inst('RF9.init-effects', len(init_eff))
    ctx.require_min(P, 'RF9a', len(init_eff), 5, 'activation effects reachable from CONodeInit')
    ctx.table('C20', 'activation effects (init side -> established in; reset side)',
              {'init': dict((k, v) for k, v in sorted(init_eff.items())), 'reset': sorted(reset_eff)})
    for eff, where in sorted(init_eff.items()):
        props = P + EFFECT_PROPS.get(eff, [])
        site = 'effect %s (established at initialisation in %s)' % (eff, where)
        # effects that only exist after a request (LSS bit-timing switch) are not init effects: they are not in init_reach
        if eff in reset_eff:
            ctx.ob(props, 'RF9a', 'CONmtReset', site, 're-established on reset in %s' % reset_eff[eff])
        else:
            ctx.ob(props, 'RF9a', 'CONmtReset', site, None)
            ctx.find(props, 'RF9a', 'CONmtReset', 'not-reestablished:%s' % eff, m.loc('CONmtReset', m.funcs['CONmtReset'].line),
                     'node initialisation establishes %s (in %s) but nothing on the exactly resolved call graph of CONmtReset '
                     'does: after a reset communication the service does not come back as on a fresh start' % (eff, where))
    # (b) service record initialisers
    pe = PEval(m, 'CONodeInit')
    pe.record_sets = False
    pe.store_filter = lambda k, f: False
    trs = pe.run({'node': 1, 'spec': 1, 'call:CODictInit': 5, 'call:COLssLoad': 0, 'call:CODictObjInit': 0})
    inits = []
    for t in trs:
        for c in t.call_names():
            if c in m.funcs and c not in inits:
                inits.append(c)
    pr = PEval(m, 'CONmtReset')
    pr.record_sets = False
    pr.store_filter = lambda k, f: False
    rtr = pr.run({'nmt': 1, 'type': m.enum('CO_RESET_COM')})
    ctx.inst('RF9.reset-paths', len(rtr))
    for c in inits:
        key = 'init:' + c
        site = 'service initialiser %s' % c
        if key in EXEMPT and EXEMPT[key] is not None:
            ctx.exception('RF9b', c, EXEMPT[key])
            ctx.ob(P, 'RF9b', 'CONmtReset', site, 'exempt: ' + EXEMPT[key], nontrivial=False)
            continue
        # same initialiser, or its reset sibling (COEmcyInit ~ COEmcyReset)
        sib = c[:-4] + 'Reset' if c.endswith('Init') else None
        missing = [t for t in rtr if c not in t.call_names() and (sib is None or sib not in t.call_names())]
        if not missing:
            ctx.ob(P, 'RF9b', 'CONmtReset', site, 'called on every reset-communication path')
        else:
            ctx.ob(P, 'RF9b', 'CONmtReset', site, None)
            ctx.find(P, 'RF9b', 'CONmtReset', 'not-reinitialised:%s' % c, m.loc('CONmtReset', m.funcs['CONmtReset'].line),
                     'CONodeInit initialises the service with %s but CONmtReset has a reset-communication path that neither '
                     'calls it nor a reset sibling: the service record keeps its pre-reset state' % c)
    # (c)
    bad = [f for f in ('COTmrInit', 'COTmrReset') if f in m.reachable_funcs(['CONmtReset'])]
    if bad:
        ctx.ob(P, 'RF9c', 'CONmtReset', 'timer pool survives reset', None)
        ctx.find(P, 'RF9c', 'CONmtReset', 'pool-reset-reachable', m.loc('CONmtReset', m.funcs['CONmtReset'].line),
                 '%s is reachable from CONmtReset: a reset would wipe the application\'s timers' % bad)
    else:
        ctx.ob(P, 'RF9c', 'CONmtReset', 'timer pool survives reset', 'COTmrInit / COTmrReset not reachable from CONmtReset')
