"""SDO server rules: RF1 decision tables (dispatch, object lookup, size negotiation,
error->abort arms), RF2 response discipline, RF12 cross-frame state.
Serves C04, C05 (and clause 4 of C01)."""
from canalyze.ir import walk, strip, const_eval, show, callee_name, Env
from canalyze import flow
from canalyze.peval import PEval
from canalyze.front import AnalysisBroken
from tables import spec

BLK_STATES = ['BLK_IDLE', 'BLK_DOWNLOAD', 'BLK_UPLOAD', 'BLK_REPEAT', 'BLK_DNWAIT']
HANDLERS = ['COSdoDownloadExpedited', 'COSdoUploadExpedited', 'COSdoInitDownloadSegmented',
            'COSdoDownloadSegmented', 'COSdoUploadSegmented', 'COSdoInitDownloadBlock',
            'COSdoDownloadBlock', 'COSdoEndDownloadBlock', 'COSdoInitUploadBlock', 'COSdoUploadBlock',
            'COSdoAckUploadBlock', 'COSdoEndUploadBlock', 'COSdoInitUploadSegmented']
TRANSFER_FIELDS = set([('CO_SDO_SEG', 'Size'), ('CO_SDO_SEG', 'Num'), ('CO_SDO_SEG', 'TBit'),
                       ('CO_SDO_BLK', 'Size'), ('CO_SDO_BLK', 'Len'), ('CO_SDO_BLK', 'SegNum'),
                       ('CO_SDO_BLK', 'SegCnt'), ('CO_SDO_BLK', 'SegOk'), ('CO_SDO_BLK', 'LastValid'),
                       ('CO_SDO_BUF', 'Cur'), ('CO_SDO_BUF', 'Num')])


def _rng(cmds):
    cmds = sorted(cmds)
    out = []
    s = p = cmds[0]
    for v in cmds[1:] + [None]:
        if v is None or v != p + 1:
            out.append('%02X' % s if s == p else '%02X-%02X' % (s, p))
            s = v
        p = v
    return ','.join(out)


def _route_of(trace, abort_cmd):
    """normalise a dispatcher trace to a route tuple"""
    r = []
    for e in trace.calls():
        name, args = e[1], e[2]
        if name == 'COSdoGetObject':
            r.append(('COSdoGetObject', args[1] if len(args) > 1 else None))
        elif name == 'COSdoAbort':
            code = args[1] if len(args) > 1 else None
            r.append('ABORT:CMD' if code == abort_cmd else 'ABORT:%s' % (hex(code) if code is not None else '?'))
        elif name == 'COSdoAbortReq':
            if r and isinstance(r[-1], str) and r[-1].startswith('ABORT:'):
                continue      # abort composed by the dispatcher followed by the state reset
            r.append('COSdoAbortReq')
        elif name in HANDLERS:
            r.append(name)
        elif name is not None and _MODEL[0] is not None and _MODEL[0].is_new_helper(name):
            continue          # a stage extracted from the dispatcher: the evaluator folded through it, its calls follow
        else:
            r.append('?' + str(name))
    return tuple(r)


_MODEL = [None]


# ------------------------------------------------------------------ RF1 (a): dispatch table
def dispatch_table(ctx, props):
    m = ctx.m
    _MODEL[0] = m
    m.need('COSdoResponse', 'COSdoAbortReq', 'COSdoAbort', 'COSdoGetObject')
    pe = PEval(m, 'COSdoResponse')
    abort_cmd = spec.ABORT['CMD']
    table = {}
    grouped = {}
    n_bad = 0
    for st in BLK_STATES:
        sv = m.enum(st)
        for cmd in range(256):
            traces = pe.run({'srv->Frm->Data[0]': cmd, 'srv->Blk.State': sv})
            routes = set(_route_of(t, abort_cmd) for t in traces)
            table[(st, cmd)] = routes
            kind, allowed = spec.sdo_route(st, cmd)
            allowed = set(tuple(a) for a in allowed)
            bad = [r for r in routes if r not in allowed]
            # a MUST row must also actually reach the handler (not only the lookup-failure route)
            missing = False
            if kind == 'MUST':
                full = [a for a in allowed if not (len(a) == 1 and isinstance(a[0], tuple))]
                if full and not any(r in full for r in routes):
                    missing = True
            site = 'state %s cmd %02Xh' % (st, cmd)
            if bad or missing:
                n_bad += 1
                ctx.ob(props, 'RF1-sdo-dispatch', 'COSdoResponse', site, None)
                ctx.find(props, 'RF1-sdo-dispatch', 'COSdoResponse', 'dispatch:%s:%02X' % (st, cmd),
                         m.loc('COSdoResponse', m.funcs['COSdoResponse'].line),
                         'command byte %02Xh in block state %s is routed to %s; CiA 301 requires %s %s'
                         % (cmd, st, sorted(map(str, routes)), kind, sorted(map(str, allowed))))
            else:
                ctx.ob(props, 'RF1-sdo-dispatch', 'COSdoResponse', site,
                       '%s row matched: %s' % (kind, sorted(map(str, routes))[0]))
            grouped.setdefault((st, str(sorted(map(str, routes)))), []).append(cmd)
            # a sub-block that starts while the server waits for "end or next sub-block" (DNWAIT) switches the dispatcher
            # back to DOWNLOAD before the segment is handled: in DNWAIT the end-request pattern C1h|n<<2 is tested first, and
            # segment numbers 65, 69, ... 125 with the c bit set look exactly like it - left in DNWAIT, a later last segment
            # is answered as an end request and its bytes are dropped
            if st == 'BLK_DNWAIT':
                for t in traces:
                    if 'COSdoDownloadBlock' in t.call_names():
                        sts = [e for e in t.stores() if e[4] == ('CO_SDO_BLK', 'State')]
                        okst = bool(sts) and sts[-1][2] == m.enum('BLK_DOWNLOAD')
                        s2 = 'state BLK_DNWAIT cmd %02Xh: next sub-block' % cmd
                        if okst:
                            ctx.ob(props, 'RF1-sdo-dispatch', 'COSdoResponse', s2, 'dispatcher state set to BLK_DOWNLOAD before the segment is handled',
                                   nontrivial=False)
                        else:
                            ctx.ob(props, 'RF1-sdo-dispatch', 'COSdoResponse', s2, None)
                            ctx.find(props, 'RF1-sdo-dispatch', 'COSdoResponse', 'dnwait-not-left', m.loc('COSdoResponse', m.funcs['COSdoResponse'].line),
                                     'a segment that starts the next sub-block in state BLK_DNWAIT (command byte %02Xh) is handed to '
                                     'COSdoDownloadBlock without setting Blk.State to BLK_DOWNLOAD: the following segments are decoded in '
                                     'DNWAIT, where a last segment numbered 65, 69, ... is taken for the end request' % cmd)
    ctx.inst('RF1.sdo-dispatch.rows', len(table))
    out = {}
    for (st, r), cmds in sorted(grouped.items()):
        out.setdefault(st, {})[_rng(cmds)] = r
    for p in props:
        ctx.table(p, 'COSdoResponse dispatch (state -> command bytes -> route)', out)
    # the dispatcher must stay exhaustive: every input has at least one route
    empties = [k for k, v in table.items() if not v]
    if empties:
        ctx.broke(props, 'RF1-sdo-dispatch: no trace for inputs %s' % empties[:5])
    return table


# ------------------------------------------------------------------ RF1 (b): verdict tables
def getobject_table(ctx, props):
    m = ctx.m
    pe = PEval(m, 'COSdoGetObject')
    rows = {}
    A = spec.ABORT
    for mode in (1, 2):
        for sub in (0, 5):
            for found in (0, 1):
                for found0 in (0, 1):
                    for flags in (0, 1, 2, 3):
                        tr = pe.run({'mode': mode, 'srv->Sub': sub, 'srv->Idx': 0x2000,
                                     'call:CODictFind#0': found, 'call:CODictFind#1': found0,
                                     'obj->Key': 0x20000500 | flags})
                        if len(tr) != 1:
                            ctx.broke(props, 'RF1-getobject: %d traces for one input (guards no longer fold)' % len(tr))
                            return
                        t = tr[0]
                        aborts = [e[2][1] for e in t.calls() if e[1] == 'COSdoAbort']
                        sets_obj = any(e[1].endswith('->Obj') for e in t.stores() if e[2] != 0)
                        got = ('ok' if (t.ret == 0 and sets_obj and not aborts) else
                               ('abort', aborts[0] if len(aborts) == 1 else tuple(aborts), t.ret))
                        # specification
                        if found:
                            need = 2 if mode == 1 else 1      # R_ = 0x02, W = 0x01
                            if flags & need:
                                exp = 'ok'
                            else:
                                exp = ('abort', A['RD'] if mode == 1 else A['WR'])
                        else:
                            if sub == 0 or not found0:
                                exp = ('abort', A['OBJ'])
                            else:
                                exp = ('abort', A['SUB'])
                        ok = (got == 'ok' and exp == 'ok') or \
                             (got != 'ok' and exp != 'ok' and got[1] == exp[1] and got[2] not in (0, None))
                        key = 'mode=%d sub=%d found=%d idx-found=%d flags=%d' % (mode, sub, found, found0, flags)
                        rows[key] = str(got)
                        if ok:
                            ctx.ob(props, 'RF1-getobject', 'COSdoGetObject', key, 'verdict %s' % (got,))
                        else:
                            ctx.ob(props, 'RF1-getobject', 'COSdoGetObject', key, None)
                            ctx.find(props, 'RF1-getobject', 'COSdoGetObject', 'verdict:' + key,
                                     m.loc('COSdoGetObject', m.funcs['COSdoGetObject'].line),
                                     'object lookup verdict for [%s] is %s, CiA 301 requires %s'
                                     % (key, got, exp if exp == 'ok' else hex(exp[1])))
    ctx.inst('RF1.getobject.rows', len(rows))
    for p in props:
        ctx.table(p, 'COSdoGetObject verdicts', rows)


def getsize_table(ctx, props):
    m = ctx.m
    pe = PEval(m, 'COSdoGetSize')
    A = spec.ABORT
    rows = {}
    for size in (0, 2, 4, 8):
        for width in (0, 2, 4, 8):
            for strict in (0, 1):
                tr = pe.run({'width': width, 'strict': strict, 'call:COObjGetSize': size})
                if len(tr) != 1:
                    ctx.broke(props, 'RF1-getsize: %d traces for one input' % len(tr))
                    return
                t = tr[0]
                aborts = [e[2][1] for e in t.calls() if e[1] == 'COSdoAbort']
                got = (t.ret, tuple(aborts))
                if size == 0:
                    exp = (0, (A['TOS'],))
                elif width == 0 or width == size:
                    exp = (size, ())
                elif width < size:
                    exp = (0, (A['LEN_SMALL'],)) if strict else (width, ())
                else:
                    exp = (0, (A['LEN_HIGH'],))
                key = 'objsize=%d announced=%d strict=%d' % (size, width, strict)
                rows[key] = 'returns %s aborts %s' % (got[0], [hex(a) for a in got[1]])
                if got == exp:
                    ctx.ob(props, 'RF1-getsize', 'COSdoGetSize', key, rows[key])
                else:
                    ctx.ob(props, 'RF1-getsize', 'COSdoGetSize', key, None)
                    ctx.find(props, 'RF1-getsize', 'COSdoGetSize', 'size:' + key,
                             m.loc('COSdoGetSize', m.funcs['COSdoGetSize'].line),
                             'length negotiation for [%s] gives %s, required: returns %s aborts %s'
                             % (key, rows[key], exp[0], [hex(a) for a in exp[1]]))
    ctx.inst('RF1.getsize.rows', len(rows))
    for p in props:
        ctx.table(p, 'COSdoGetSize', rows)
    # which initiator is strict
    strict_exp = {'COSdoUploadExpedited': 1, 'COSdoDownloadExpedited': 1, 'COSdoInitDownloadSegmented': 1,
                  'COSdoInitUploadBlock': 1, 'COSdoInitDownloadBlock': 0}
    for (caller, call) in m.call_sites('COSdoGetSize'):
        if caller not in strict_exp:
            ctx.broke(props, 'RF1-getsize: new caller %s of COSdoGetSize is not in the frozen strictness table' % caller)
            continue
        v = const_eval(call.kids[3], m) if len(call.kids) > 3 else None
        site = '%s: %s' % (m.loc(caller, call), show(call))
        if v is not None and bool(v) == bool(strict_exp[caller]):
            ctx.ob(props, 'RF1-getsize', caller, site, 'strict=%d as required' % v)
        else:
            ctx.ob(props, 'RF1-getsize', caller, site, None)
            ctx.find(props, 'RF1-getsize', caller, 'strict', m.loc(caller, call),
                     'size negotiation called with strict=%s, required %d (block download may announce less than the '
                     'object size, every other initiator must refuse)' % (v, strict_exp[caller]))


def expedited_error_arms(ctx, props):
    """type error -> abort code of COSdoDownloadExpedited; application code first"""
    m = ctx.m
    pe = PEval(m, 'COSdoDownloadExpedited')
    A = spec.ABORT
    exp_map = {'CO_ERR_OBJ_RANGE': A['RANGE'], 'CO_ERR_OBJ_MAP_TYPE': A['OBJ_MAP'],
               'CO_ERR_OBJ_MAP_LEN': A['OBJ_MAP_N'], 'CO_ERR_OBJ_INCOMPATIBLE': A['PARA_INCOMP']}
    rows = {}
    errs = sorted(k for k in m.enums if k.startswith('CO_ERR_') and m.enum_of.get(k) == m.enum_of.get('CO_ERR_NONE'))
    ABORT_RET = m.enum('CO_ERR_SDO_ABORT')
    for ename in errs:
        ev = m.enums[ename]
        if ev == 0:
            continue
        for user in (0, 0x06090031):
            tr = pe.run({'srv->Frm->Data[0]': 0x2F, 'call:COSdoGetSize': 1, 'call:COObjWrValue': ev,
                         'srv->Abort': user})
            if len(tr) != 1:
                ctx.broke(props, 'RF1-exp-arms: %d traces for one input' % len(tr))
                return
            t = tr[0]
            aborts = [e[2][1] for e in t.calls() if e[1] == 'COSdoAbort']
            if user:
                exp = user
            else:
                exp = exp_map.get(ename, None)
            key = '%s user-code=%s' % (ename, hex(user))
            got = aborts[0] if len(aborts) == 1 else None
            rows[key] = hex(got) if got is not None else str(aborts)
            good = (t.ret == ABORT_RET and got is not None and (got == exp if exp is not None else True))
            if exp is None and got in exp_map.values():
                good = False     # an unlisted error must not be reported with one of the specific codes
            if good:
                ctx.ob(props, 'RF1-exp-arms', 'COSdoDownloadExpedited', key, 'abort %s' % rows[key])
            else:
                ctx.ob(props, 'RF1-exp-arms', 'COSdoDownloadExpedited', key, None)
                ctx.find(props, 'RF1-exp-arms', 'COSdoDownloadExpedited', 'arm:' + key,
                         m.loc('COSdoDownloadExpedited', m.funcs['COSdoDownloadExpedited'].line),
                         'write error %s (application abort code %s) is answered with %s (returns %s); required %s'
                         % (ename, hex(user), rows[key], t.ret, hex(exp) if exp else 'a generic abort code'))
    ctx.inst('RF1.exp-arms.rows', len(rows))
    for p in props:
        ctx.table(p, 'COSdoDownloadExpedited error arms', rows)


# ------------------------------------------------------------------ RF2 (c): exactly one response
def response_discipline(ctx, props, table=None):
    m = ctx.m
    # command bytes (and block state) under which the dispatch table routes to each handler
    routed = {}
    for (st, cmd), routes in (table or {}).items():
        for r in routes:
            for el in r:
                if isinstance(el, str) and el in HANDLERS:
                    routed.setdefault(el, set()).add((st, cmd))
    NONE = m.enum('CO_ERR_NONE')
    ABRT = m.enum('CO_ERR_SDO_ABORT')
    SIL = m.enum('CO_ERR_SDO_SILENT')
    # c1: CONodeProcess sends iff err in {NONE, ABORT}
    pe = PEval(m, 'CONodeProcess')
    for ename in ['CO_ERR_NONE', 'CO_ERR_SDO_ABORT', 'CO_ERR_SDO_SILENT', 'CO_ERR_SDO_WRITE', 'CO_ERR_TYPE_WR']:
        ev = m.enum(ename)
        trs = pe.run({'call:COIfCanRead': 1, 'node->Nmt.Allowed': 0x20, 'call:COLssCheck': 0,
                      'call:COSdoCheck': 1, 'call:COSdoResponse': ev})
        sends = set(sum(1 for e in t.calls() if e[1] == 'COIfCanSend') for t in trs)
        exp = 1 if ev in (NONE, ABRT) else 0
        site = 'CONodeProcess with COSdoResponse result %s' % ename
        if sends == set([exp]):
            ctx.ob(props, 'RF2-sdo-send', 'CONodeProcess', site, '%d response frame(s) sent' % exp)
        else:
            ctx.ob(props, 'RF2-sdo-send', 'CONodeProcess', site, None)
            ctx.find(props, 'RF2-sdo-send', 'CONodeProcess', 'send:' + ename,
                     m.loc('CONodeProcess', m.funcs['CONodeProcess'].line),
                     'for handler result %s the node sends %s response frames, required exactly %d'
                     % (ename, sorted(sends), exp))
    # c5: only the block-upload segment loop sends from inside a handler
    reach = m.reachable_funcs(['COSdoResponse'])
    for f in sorted(reach):
        # SDO server code proper: functions that work on a CO_SDO server record
        if not any('CO_SDO' in (prm[1] or '') and 'CSDO' not in (prm[1] or '') for prm in m.funcs[f].params):
            continue
        for (n, tg, ext, d) in m.calls.get(f, ()):
            if tg and 'COIfCanSend' in tg and callee_name(n) == 'COIfCanSend':
                site = '%s: %s' % (m.loc(f, n), show(n))
                if f == 'COSdoUploadBlock':
                    ctx.ob(props, 'RF2-sdo-send', f, site, 'block upload segments (returns SILENT)')
                else:
                    ctx.ob(props, 'RF2-sdo-send', f, site, None)
                    ctx.find(props, 'RF2-sdo-send', f, 'extra-send', m.loc(f, n),
                             'SDO server handler %s transmits a frame itself; only the block-upload segment loop may '
                             '(every other response is sent once by CONodeProcess)' % f)
    # c2-c4: handler return discipline
    helpers = {
        'COSdoGetSize': [0, 2, 4, 8],
        'COSdoGetObject': [NONE, ABRT],
        'COSdoInitUploadSegmented': [NONE, ABRT],
        'COSdoUploadBlock': [NONE, ABRT, SIL],
        'COSdoDownloadBlock': [NONE, ABRT, SIL],
        'COSdoEndDownloadBlock': [NONE, ABRT],
    }
    fails_imply_abort = {'COSdoGetSize': lambda v: v == 0, 'COSdoGetObject': lambda v: v != NONE,
                         'COSdoInitUploadSegmented': lambda v: v == ABRT, 'COSdoUploadBlock': lambda v: v == ABRT,
                         'COSdoDownloadBlock': lambda v: v == ABRT, 'COSdoEndDownloadBlock': lambda v: v == ABRT}
    nested_ok = {'COSdoInitUploadSegmented': lambda v: v == NONE, 'COSdoUploadBlock': lambda v: v in (NONE, SIL),
                 'COSdoDownloadBlock': lambda v: v in (NONE, SIL), 'COSdoEndDownloadBlock': lambda v: v == NONE}
    import itertools
    n_traces = 0
    for h in HANDLERS:
        if h not in m.funcs:
            ctx.broke(props, 'RF2-sdo-ret: handler %s vanished' % h)
            continue
        pe = PEval(m, h)
        pe.record_sets = False
        pe.store_filter = lambda key, fld: fld == ('CO_IF_FRM', 'Data')
        called = [c for c in helpers if c != h and any(callee_name(n) == c for (n, tg, e, d) in m.calls[h])]
        combos = list(itertools.product(*[helpers[c] for c in called])) if called else [()]
        seen_kinds = set()
        ctxs = sorted(routed.get(h, ())) or [None]
        # one representative per (state, command byte) class is not assumed: all routed bytes are folded
        for combo, rc in itertools.product(combos, ctxs):
            inputs = dict(('call:' + c, v) for c, v in zip(called, combo))
            if rc is not None:
                inputs['srv->Frm->Data[0]'] = rc[1]
                # the dispatcher may change the state before the call (DNWAIT -> DOWNLOAD): leave it unbound
            trs = pe.run(inputs)
            for t in trs:
                n_traces += 1
                names = t.call_names()
                # consistency of bound helper results with what was called (unused bindings are harmless)
                rv = t.ret
                retline = [e for e in t.events if e[0] == 'ret']
                line = retline[-1][2] if retline else m.funcs[h].line
                aborted = 'COSdoAbort' in names
                helper_fail = any(c in names and fails_imply_abort[c](inputs['call:' + c]) for c in called)
                stores_b0 = any(e[1].endswith('Frm->Data[0]') for e in t.stores())
                nested_none = any(c in names and c in nested_ok and nested_ok[c](inputs['call:' + c]) for c in called)
                if rv is None:
                    kind = ('raw', line)
                    if kind in seen_kinds:
                        continue
                    seen_kinds.add(kind)
                    # where does the value come from?
                    src = _return_source(m, h, line)
                    ctx.ob(props, 'RF2-sdo-ret', h, 'return at line %d' % line, None)
                    ctx.find(props, 'RF2-sdo-ret', h, 'raw-return',
                             m.loc(h, line),
                             'handler returns a value that is not one of NONE/ABORT/SILENT (%s): CONodeProcess treats it '
                             'as silent, so the request gets no response' % src)
                    continue
                if rv not in (NONE, ABRT, SIL):
                    ctx.ob(props, 'RF2-sdo-ret', h, 'return at line %d' % line, None)
                    ctx.find(props, 'RF2-sdo-ret', h, 'bad-return:%d' % rv, m.loc(h, line),
                             'handler returns constant %d which is not NONE/ABORT/SILENT' % rv)
                    continue
                if rv == ABRT and not (aborted or helper_fail):
                    kind = ('abort-without-frame', line)
                    if kind in seen_kinds:
                        continue
                    seen_kinds.add(kind)
                    ctx.ob(props, 'RF2-sdo-ret', h, 'ABORT return at line %d' % line, None)
                    ctx.find(props, 'RF2-sdo-ret', h, 'abort-without-frame', m.loc(h, line),
                             'a path returns CO_ERR_SDO_ABORT without composing an abort frame (no COSdoAbort on the '
                             'path; inputs %s): the request frame itself is sent back as "response" and the '
                             'transfer stays open' % dict((k, (hex(v) if k.endswith(']') else v)) for k, v in inputs.items()))
                    continue
                if rv == NONE and not (stores_b0 or nested_none):
                    kind = ('none-without-scs', line)
                    if kind in seen_kinds:
                        continue
                    seen_kinds.add(kind)
                    ctx.ob(props, 'RF2-sdo-ret', h, 'NONE return at line %d' % line, None)
                    ctx.find(props, 'RF2-sdo-ret', h, 'none-without-scs', m.loc(h, line),
                             'a path returns CO_ERR_NONE without storing the response command byte')
                    continue
                kind = (rv, line, aborted, helper_fail)
                if kind not in seen_kinds:
                    seen_kinds.add(kind)
                    ctx.ob(props, 'RF2-sdo-ret', h, 'return %s at line %d' % (
                        {NONE: 'NONE', ABRT: 'ABORT', SIL: 'SILENT'}[rv], line),
                        'abort composed' if rv == ABRT else ('response byte stored' if rv == NONE else 'no response'))
                # (d) refusal changes nothing: no write to the object after the abort was composed,
                #     and none when lookup / size negotiation failed
                wr = [i for i, nme in enumerate(names) if nme in ('COObjWrValue', 'COObjWrBufStart', 'COObjWrBufCont')]
                if wr and helper_fail and h in ('COSdoDownloadExpedited', 'COSdoInitDownloadSegmented',
                                               'COSdoInitDownloadBlock'):
                    first_fail = min(names.index(c) for c in called if c in names and fails_imply_abort[c](inputs['call:' + c]))
                    if any(i > first_fail for i in wr):
                        ctx.find(props, 'RF2-sdo-refuse', h, 'write-after-refusal', m.loc(h, line),
                                 'the object is written although lookup / size negotiation already refused the request')
    ctx.inst('RF2.sdo-ret.traces', n_traces)
    ctx.require_min(props, 'RF2-sdo-ret', n_traces, 40, 'handler traces')


def _return_source(m, h, line):
    g = m.cfg(h)
    d = m.defs_of(h)
    for node in g.nodes:
        if node.kind == 'ret' and node.line == line and node.x.kids:
            r = strip(node.x.kids[0])
            if r.k == 'ref':
                srcs = []
                for dn in d.defs(node.id, r.ref):
                    if dn >= 0:
                        srcs.append('%s (line %d)' % (show(g.nodes[dn].x), g.nodes[dn].line))
                return 'value of `%s` from: %s' % (r.name, '; '.join(srcs))
            return show(r)
    return '?'


# ------------------------------------------------------------------ RF12 (c): named object
def named_object(ctx, props):
    """COSdoCheck: on every path that selects a server for the current frame the per-request fields
    are refreshed: multiplexer Idx/Sub from this frame, frame pointer, application abort code cleared."""
    m = ctx.m
    m.need('COSdoCheck')
    _per_request_refresh(ctx, props, 'COSdoCheck', 'CO_SDO', [
        ('Idx', ('CO_SDO', 'Idx'), 'frame', 'latched-mux:Idx',
         'a request that arrives while a transfer is open is processed with the OLD multiplexer'),
        ('Sub', ('CO_SDO', 'Sub'), 'frame', 'latched-mux:Sub',
         'a request that arrives while a transfer is open is processed with the OLD multiplexer'),
        ('Abort', ('CO_SDO', 'Abort'), 'zero', 'stale-user-abort',
         'an application abort code left by an earlier request is reported for this one'),
        ('Frm', ('CO_SDO', 'Frm'), 'param', 'stale-frame',
         'the handlers would read / answer a previous frame'),
    ], 'RF12c')


def _per_request_refresh(ctx, props, fname, rectag, fields, rule):
    m = ctx.m
    g = m.cfg(fname)
    fn = m.funcs[fname]
    pids = set(p[3] for p in fn.params)
    sel = []
    stores = dict((f[0], set()) for f in fields)
    ret_refs = set()
    for node in g.nodes:
        if node.kind == 'ret' and node.x is not None and node.x.kids:
            rx = strip(node.x.kids[0])
            if rx is not None and rx.k == 'ref' and rx.refk == 'VarDecl':
                ret_refs.add(rx.ref)
    for node in g.nodes:
        if node.x is None or node.id not in g.reachable:
            continue
        for (p, rhs, n) in flow.assigned_paths(node.x):
            l = strip(n.kids[0]) if n.k != 'var' else None
            for (nm, fld, kind, key, why) in fields:
                if l is not None and l.k == 'mem' and l.field == fld and rhs is not None:
                    r = strip(rhs)
                    if kind == 'frame' and _reads_frame(rhs):
                        stores[nm].add(node.id)
                    elif kind == 'zero' and const_eval(rhs, m) == 0:
                        stores[nm].add(node.id)
                    elif kind == 'param' and r.k == 'ref' and r.ref in pids:
                        stores[nm].add(node.id)
            if rhs is not None and p is not None and len(p) == 1:
                r = strip(rhs)
                tgt_ref = p[0][1]
                is_rec_ptr = (n.cty or n.ty or '').find(rectag) >= 0
                # the SELECTION is the store to the variable the function returns (`result = &srv[n]`, or `result = cur` with
                # `cur` a local alias of the element) - an alias taken for convenience before the identifier test is not one
                if is_rec_ptr and (not ret_refs or tgt_ref in ret_refs) and const_eval(rhs, m) != 0 and \
                        ((r.k == 'un' and r.op == '&') or (r.k == 'ref' and r.refk == 'VarDecl' and ret_refs)):
                    sel.append(node.id)
    ctx.inst(rule + '.select-sites.' + fname, len(sel))
    ctx.require_min(props, rule, len(sel), 1, 'selection sites in ' + fname)
    for s_ in sel:
        for (nm, fld, kind, key, why) in fields:
            st = stores[nm]
            reach = flow.reach_from(g, g.entry.id, avoid=st, include_start=True)
            site = '%s: %s (per-request field %s)' % (m.loc(fname, g.nodes[s_].line), show(g.nodes[s_].x), nm)
            if s_ in reach:
                pth = flow.path_between(g, g.entry.id, s_, avoid=st)
                ctx.ob(props, rule, fname, site, None)
                ctx.find(props, rule, fname, key, m.loc(fname, g.nodes[s_].line),
                         'a path selects the record for the received frame without refreshing %s.%s (lines %s): %s'
                         % (fld[0], fld[1], flow.lines_of_path(g, pth), why), witness=flow.lines_of_path(g, pth))
            else:
                ctx.ob(props, rule, fname, site, 'every selecting path refreshes %s first' % nm)


def _reads_frame(rhs):
    if rhs is None:
        return False
    for n in walk(rhs):
        if n.k == 'mem' and n.field == ('CO_IF_FRM', 'Data'):
            return True
    return False


# ------------------------------------------------------------------ RF12 (a)/(b)
def continuation_guard(ctx, props, table):
    """Handlers the dispatch table routes to while no transfer is open and that do not look the
    object up must test srv->Obj before touching transfer state."""
    m = ctx.m
    idle_handlers = set()
    for (st, cmd), routes in table.items():
        if st in ('BLK_IDLE', 'BLK_REPEAT'):
            for r in routes:
                if len(r) == 1 and isinstance(r[0], str) and r[0] in HANDLERS:
                    idle_handlers.add(r[0])
    ctx.inst('RF12a.idle-handlers', len(idle_handlers))
    ctx.require_min(props, 'RF12a', len(idle_handlers), 3, 'continuation handlers reachable without an open transfer')
    for h in sorted(idle_handlers):
        g = m.cfg(h)
        fn = m.funcs[h]
        facts = m.facts(h)
        # handlers that look the object up themselves are initiators
        looks_up = None
        for node in g.nodes:
            if node.x is not None and any(callee_name(c) == 'COSdoGetObject' for c in walk(node.x) if c.k == 'call'):
                looks_up = node.id
        first_bad = None
        n_reads = 0
        dom = m.dom(h)
        # nodes reachable from the entry without passing the non-null edge of a test of srv->Obj
        def guard_edge(node, lab):
            if node.kind != 'br':
                return False
            x = strip(node.x)
            if x.k == 'bin' and x.op in ('==', '!='):
                a, b = x.kids
                for (l, r) in ((a, b), (b, a)):
                    ls = strip(l)
                    if ls.k == 'mem' and ls.field == ('CO_SDO', 'Obj') and const_eval(r) == 0:
                        return lab == (x.op == '!=')
            return False
        unguarded = set()
        st_ = [g.entry.id]
        while st_:
            v = st_.pop()
            if v in unguarded:
                continue
            unguarded.add(v)
            for (t, lab) in g.nodes[v].succ:
                if guard_edge(g.nodes[v], lab):
                    continue
                if looks_up is not None and v == looks_up:
                    continue
                st_.append(t)
        for nid in g.rpo():
            node = g.nodes[nid]
            if node.x is None:
                continue
            plain_lhs = set()
            for n in walk(node.x):
                if n.k == 'bin' and n.op == '=':
                    l = strip(n.kids[0])
                    if l.k == 'mem':
                        plain_lhs.add(id(l))
            touches = [n for n in walk(node.x) if n.k == 'mem' and n.field in TRANSFER_FIELDS and id(n) not in plain_lhs]
            for c in walk(node.x):
                if c.k == 'call' and callee_name(c) not in ('COSdoAbort', 'COSdoAbortReq', None):
                    for a in c.kids[1:]:
                        a0 = strip(a)
                        if a0.k == 'mem' and a0.field == ('CO_SDO', 'Obj'):
                            touches.append(a0)
            if not touches:
                continue
            n_reads += 1
            if nid in unguarded and first_bad is None:
                first_bad = node
        site = '%s (%d statements touching transfer state)' % (h, n_reads)
        if first_bad is None:
            ctx.ob(props, 'RF12a', h, site, 'all dominated by the test srv->Obj != 0 (or by the object lookup)')
        else:
            ctx.ob(props, 'RF12a', h, site, None)
            ctx.find(props, 'RF12a', h, 'no-transfer-guard', m.loc(h, first_bad.line),
                     'handler is dispatched while no transfer is open (Obj == 0) but reads/writes transfer state '
                     '(%s, line %d) without first testing srv->Obj: it continues a transfer that does not exist with '
                     'whatever an earlier one left behind' % (show(first_bad.x), first_bad.line))


def dispatcher_state_reset(ctx, props):
    """every field the dispatcher / latch consults is reset by COSdoAbortReq and COSdoReset on every path"""
    m = ctx.m
    consulted = set()
    for f in ('COSdoResponse', 'COSdoCheck'):
        g = m.cfg(f)
        for node in g.nodes:
            if node.kind in ('br', 'sw') and node.x is not None and node.id in g.reachable:
                for n in walk(node.x):
                    if n.k == 'mem' and n.field[0] in ('CO_SDO', 'CO_SDO_BLK', 'CO_SDO_SEG', 'CO_SDO_BUF') \
                            and n.field not in (('CO_SDO', 'RxId'), ('CO_SDO', 'Frm'), ('CO_SDO', 'Blk'),
                                                ('CO_SDO', 'Seg'), ('CO_SDO', 'Buf')):
                        consulted.add(n.field)
    ctx.inst('RF12b.consulted-fields', len(consulted))
    ctx.require_min(props, 'RF12b', len(consulted), 2, 'fields consulted by the SDO dispatcher')
    idle = {('CO_SDO_BLK', 'State'): m.enum('BLK_IDLE'), ('CO_SDO', 'Obj'): 0}
    for resetter in ('COSdoAbortReq', 'COSdoReset'):
        g = m.cfg(resetter)
        for fld in sorted(consulted):
            stores = set()
            for node in g.nodes:
                if node.x is None:
                    continue
                for (p, rhs, n) in flow.assigned_paths(node.x):
                    l = strip(n.kids[0]) if n.k != 'var' else None
                    if l is not None and l.k == 'mem' and l.field == fld:
                        v = const_eval(rhs, m) if rhs is not None else None
                        if fld in idle and v != idle[fld]:
                            continue
                        stores.add(node.id)
            # every path entry->exit that passes the argument checks stores the field
            reach = flow.reach_from(g, g.entry.id, avoid=stores, include_start=True)
            site = '%s resets %s.%s' % (resetter, fld[0], fld[1])
            # exits reached without the store: allowed only via an ASSERT-style early return (null / range check of a parameter)
            bad = None
            if g.exit.id in reach:
                for (pred, lab) in g.exit.pred:
                    if pred in reach:
                        node = g.nodes[pred]
                        if not _is_param_check_return(m, resetter, node):
                            bad = node
            if bad is None:
                ctx.ob(props, 'RF12b', resetter, site, 'stored on every path to the exit')
            else:
                ctx.ob(props, 'RF12b', resetter, site, None)
                # COSdoReset is what reset communication runs for every server: C20 ("SDO servers idle")
                ctx.find(props + (['C20'] if resetter == 'COSdoReset' else []), 'RF12b', resetter, 'no-reset:%s.%s' % fld, m.loc(resetter, bad.line),
                         '%s can return (line %d) without resetting %s.%s, which the dispatcher consults before the '
                         'command byte: a later request is decoded in a stale state' % (resetter, bad.line, fld[0], fld[1]))


def _is_param_check_return(m, fname, node):
    """node is a return that is control dependent only on tests of parameters (ASSERT_* idiom)"""
    g = m.cfg(fname)
    fn = m.funcs[fname]
    pids = set(p[3] for p in fn.params)
    facts = m.facts(fname).get(node.id)
    if node.kind != 'ret' or not facts:
        return False
    # the innermost fact (largest node id among facts whose branch node immediately leads here)
    for f in facts:
        ok = all((n.k != 'ref' or n.refk != 'VarDecl') for n in walk(f.x))
        ok = ok and all(n.k != 'mem' for n in walk(f.x))
        if not ok:
            return False
    # at least one fact must actually be violated-check polarity; keep simple: all facts are parameter-only
    return True


def abort_closes_state(ctx, props, table):
    """RF12d: a path that closes the transfer (abort composed / Obj := 0) while a block transfer is
    recorded in Blk.State must also return the dispatcher state to idle - otherwise the next request is
    decoded as part of a transfer that no longer exists."""
    m = ctx.m
    IDLE = m.enum('BLK_IDLE')
    # states the dispatcher decodes exactly like BLK_IDLE (no block transfer recorded)
    idle_like = set()
    for st in BLK_STATES:
        if all(table.get((st, c)) == table.get(('BLK_IDLE', c)) for c in range(256)):
            idle_like.add(m.enum(st))
    entry_states = {}
    for (st, cmd), routes in table.items():
        for r in routes:
            for el in r:
                if isinstance(el, str) and el in HANDLERS:
                    entry_states.setdefault(el, set()).add(st)
    # nested handlers inherit the states of their callers
    ch = True
    while ch:
        ch = False
        for h in HANDLERS:
            for (caller, call) in m.callers.get(h, []):
                if caller in entry_states:
                    b = len(entry_states.setdefault(h, set()))
                    entry_states[h] |= entry_states[caller]
                    if len(entry_states[h]) != b:
                        ch = True
    # the dispatcher itself
    entry_states['COSdoResponse'] = set(BLK_STATES)
    n = 0
    for h in sorted(entry_states):
        if h not in m.funcs:
            continue
        pe = PEval(m, h)
        pe.record_sets = False
        pe.store_filter = lambda key, fld: fld in (('CO_SDO', 'Obj'), ('CO_SDO_BLK', 'State'))
        for st in sorted(entry_states[h]):
            sv = m.enum(st)
            trs = pe.run({'srv->Blk.State': sv})
            seen = set()
            for t in trs:
                n += 1
                state = sv
                closed = False
                line = None
                for e in t.events:
                    if e[0] == 'call' and e[1] == 'COSdoAbortReq':
                        state = IDLE
                        closed = True
                    elif e[0] == 'call' and e[1] == 'COSdoAbort':
                        closed = True
                        line = e[3]
                    elif e[0] == 'call' and e[1] in HANDLERS:
                        # nested handler: judged on its own
                        state = None
                        closed = False
                    elif e[0] == 'store' and e[4] == ('CO_SDO', 'Obj') and e[2] == 0:
                        closed = True
                        line = e[3]
                    elif e[0] == 'store' and e[4] == ('CO_SDO', 'Obj') and e[2] != 0:
                        closed = False
                    elif e[0] == 'store' and e[4] == ('CO_SDO_BLK', 'State'):
                        state = e[2]
                if closed and state is not None and state not in idle_like:
                    k = (h, st, line)
                    if k in seen:
                        continue
                    seen.add(k)
                    ctx.ob(props, 'RF12d', h, 'entered in %s, transfer closed at line %s' % (st, line), None)
                    ctx.find(props, 'RF12d', h, 'closed-but-not-idle', m.loc(h, line or m.funcs[h].line),
                             'a path closes the transfer (abort / Obj := 0 at line %s) but leaves Blk.State = %s: the '
                             'next request is decoded as part of a block transfer that no longer exists'
                             % (line, [s2 for s2 in BLK_STATES if m.enum(s2) == state]))
                elif closed:
                    k = (h, st, 'ok')
                    if k not in seen:
                        seen.add(k)
                        ctx.ob(props, 'RF12d', h, 'entered in %s, transfer closed' % st, 'dispatcher state idle on that path')
    ctx.inst('RF12d.traces', n)


def reset_reaches_init(ctx, props):
    m = ctx.m
    m.need('CONmtReset', 'COSdoInit', 'COSdoReset')
    ch = m.call_chain('CONmtReset', 'COSdoReset')
    site = 'CONmtReset -> COSdoReset'
    if ch:
        # the call must be on every path for reset type CO_RESET_COM
        pe = PEval(m, 'CONmtReset')
        trs = pe.run({'type': m.enum('CO_RESET_COM'), 'nmt': 1})
        ok = all('COSdoInit' in t.call_names() for t in trs)
        if ok:
            ctx.ob(props, 'RF9b-sdo', 'CONmtReset', site, 'COSdoInit called on every path for CO_RESET_COM (%d traces)' % len(trs))
            return
    ctx.ob(props, 'RF9b-sdo', 'CONmtReset', site, None)
    ctx.find(props, 'RF9b-sdo', 'CONmtReset', 'no-sdo-init', m.loc('CONmtReset', m.funcs['CONmtReset'].line),
             'reset communication does not re-initialise the SDO servers on every path')


def run(ctx):
    m = ctx.m
    table = dispatch_table(ctx, ['C04', 'C05'])
    getobject_table(ctx, ['C04'])
    getsize_table(ctx, ['C04', 'C02'])
    expedited_error_arms(ctx, ['C04'])
    response_discipline(ctx, ['C04'], table)
    named_object(ctx, ['C04'])
    continuation_guard(ctx, ['C05', 'C01'], table)
    dispatcher_state_reset(ctx, ['C05'])
    abort_closes_state(ctx, ['C05', 'C04'], table)
    reset_reaches_init(ctx, ['C05'])
    return table
