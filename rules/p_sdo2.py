"""SDO server transfer rules (C02 download, C03 upload, parts of C05): response templates (RF13) by folding the
response composition over input classes, toggle / sequence guards, buffer stride, defined-before-used of
transfer state across frames, request-field decoding, object unchanged on upload."""
from canalyze.ir import is_pointer, walk, strip, const_eval, show, callee_name
from canalyze import flow
from canalyze.peval import PEval

SEG = 127


def _run(m, fname, inputs, filt=None, sets=False):
    pe = PEval(m, fname)
    pe.record_sets = sets
    # the received frame is an input: helper calls whose (bound) result says "no abort composed" leave it alone
    # ... and the object accessed is assumed not to be the server's own configuration object (1200h), whose
    # write would reset the transfer state the template is about
    pe.keep_prefixes = ('srv->Frm->Data', 'srv->Seg.', 'srv->Blk.', 'srv->Buf.', 'srv->Obj')
    if filt is not None:
        pe.store_filter = filt
    base = {}
    for prm in m.funcs[fname].params:
        if is_pointer(prm[2]):
            base[prm[0]] = 1
    base.update(inputs)
    return pe.run(base)


def _frame(t):
    fr = {}
    for e in t.stores():
        if e[4] == ('CO_IF_FRM', 'Data') and e[1].endswith(']'):
            try:
                fr[int(e[1].split('[')[-1][:-1])] = e[2]
            except ValueError:
                pass
        elif e[4] == ('CO_IF_FRM', 'DLC'):
            fr['dlc'] = e[2]
    return fr


def _rep(ctx, props, rule, f, site, bad):
    m = ctx.m
    if bad:
        ctx.ob(props, rule, f, site, None)
        ctx.find(props, rule, f, bad.split(',')[0].split('(')[0][:55].strip(), m.loc(f, m.funcs[f].line), '%s: %s' % (site, bad))
    else:
        ctx.ob(props, rule, f, site, 'ok')


FRM = lambda k, fld: fld is not None and (fld[0] == 'CO_IF_FRM' or fld[0].startswith('CO_SDO'))


# ------------------------------------------------------------------ upload templates (C03)
def upload_templates(ctx):
    m = ctx.m
    P = ['C03']
    NONE, ABRT = m.enum('CO_ERR_NONE'), m.enum('CO_ERR_SDO_ABORT')
    # expedited upload: 43h | n<<2, data little endian in bytes 4..7, size from the size query
    f = 'COSdoUploadExpedited'
    for size in (1, 2, 3, 4):
        trs = _run(m, f, {'call:COSdoGetSize': size, 'call:COObjRdValue': NONE, 'out:COObjRdValue:2': 0x44332211}, filt=FRM)
        bad = None
        for t in trs:
            fr = _frame(t)
            rd = [c for c in t.calls() if c[1] == 'COObjRdValue']
            exp0 = 0x43 | ((4 - size) << 2)
            if fr.get(0) != exp0:
                bad = 'command byte %s, required %02Xh (e=1, s=1, n=%d)' % (fr.get(0), exp0, 4 - size)
            elif [fr.get(i) for i in (4, 5, 6, 7)] != [0x11, 0x22, 0x33, 0x44]:
                bad = 'data bytes %s are not the little-endian object value' % [fr.get(i) for i in (4, 5, 6, 7)]
            elif not rd or rd[0][2][3] != size:
                bad = 'object read with width %s, size query said %d' % ([c[2][3] for c in rd], size)
            elif t.ret != NONE:
                bad = 'returns %s' % t.ret
        _rep(ctx, P, 'RF13-upload', f, 'expedited upload of %d bytes' % size, bad)
    for size in (5, 20, 1000):
        trs = _run(m, f, {'call:COSdoGetSize': size, 'call:COSdoInitUploadSegmented': NONE}, filt=FRM)
        bad = None
        for t in trs:
            c = [c for c in t.calls() if c[1] == 'COSdoInitUploadSegmented']
            if len(c) != 1 or c[0][2][1] != size:
                bad = 'segmented upload initiated with size %s, the size query said %d' % ([x[2][1] for x in c], size)
        _rep(ctx, P, 'RF13-upload', f, 'upload of %d bytes goes segmented' % size, bad)
    f = 'COSdoInitUploadSegmented'
    for size in (5, 0x01020304):
        trs = _run(m, f, {'size': size, 'call:COObjRdBufStart': NONE, 'srv->Buf.Start': 0x5000}, filt=FRM)
        bad = None
        for t in trs:
            fr = _frame(t)
            st = dict((e[1], e[2]) for e in t.stores())
            if fr.get(0) != 0x41:
                bad = 'command byte %s, required 41h' % fr.get(0)
            elif sum((fr.get(4 + j) or 0) << (8 * j) for j in range(4)) != size:
                bad = 'announced size bytes %s, required %d little-endian' % ([fr.get(4 + j) for j in range(4)], size)
            elif st.get('srv->Seg.Size') != size or st.get('srv->Seg.Num') != 0 or st.get('srv->Seg.TBit') != 0:
                bad = 'transfer state after initiate: Size %s Num %s TBit %s' % (st.get('srv->Seg.Size'), st.get('srv->Seg.Num'), st.get('srv->Seg.TBit'))
        _rep(ctx, P, 'RF13-upload', f, 'initiate segmented upload of %d bytes' % size, bad)
    # upload segment: t<<4 | (7-w)<<1 | c ; toggle guard
    f = 'COSdoUploadSegmented'
    for tb in (0, 1):
        for ft in (0, 1):
            pairs = [(20, 0), (20, 14), (20, 13), (7, 0), (8, 7), (3, 0), (15, 7), (21, 7), (300, 44), (300, 37), (263, 0), (600, 338), (0x10006, 0)]
            if getattr(ctx, 'tier', 'quick') == 'thorough':
                pairs = sorted(set(pairs + [(600, 600 - r) for r in range(1, 300)]))
            for (size, num) in pairs:
                trs = _run(m, f, {'srv->Obj': 1, 'srv->Frm->Data[0]': 0x60 | (ft << 4), 'srv->Seg.TBit': tb, 'srv->Seg.Size': size,
                                  'srv->Seg.Num': num, 'call:COObjRdBufCont': NONE, 'srv->Buf.Start': 0x5000}, filt=FRM)
                site = 'upload segment toggle exp=%d got=%d size=%d sent=%d' % (tb, ft, size, num)
                bad = None
                for t in trs:
                    fr = _frame(t)
                    st = dict((e[1], e[2]) for e in t.stores())
                    rd = [c for c in t.calls() if c[1] == 'COObjRdBufCont']
                    ab = [c[2][1] for c in t.calls() if c[1] == 'COSdoAbort']
                    if ft != tb:
                        if ab != [0x05030000] or rd or t.ret != ABRT:
                            bad = 'toggle error: aborts %s, object read %d times' % ([hex(a) for a in ab], len(rd))
                        continue
                    rem = size - num
                    w = min(rem, 7)
                    c_ = 1 if rem <= 7 else 0
                    exp0 = (tb << 4) | ((7 - w) << 1) | c_
                    if fr.get(0) != exp0:
                        bad = 'command byte %s, required %02Xh (t=%d, n=%d, c=%d)' % (fr.get(0), exp0, tb, 7 - w, c_)
                    elif not rd or rd[0][2][3] != w:
                        bad = 'reads %s bytes from the object, required %d' % ([c[2][3] for c in rd], w)
                    elif c_ and (st.get('srv->Obj') != 0):
                        bad = 'last segment does not close the transfer'
                    elif not c_ and (st.get('srv->Seg.Num') != num + w or st.get('srv->Seg.TBit') != (tb ^ 1)):
                        bad = 'progress after the segment: Num %s TBit %s' % (st.get('srv->Seg.Num'), st.get('srv->Seg.TBit'))
                _rep(ctx, P, 'RF13-upload', f, site, bad)
    # block upload initiate: C2h + size ; blksize from byte 4 clamped
    f = 'COSdoInitUploadBlock'
    for blk in (0, 1, 20, 127, 128, 200):
        trs = _run(m, f, {'call:COSdoGetObject': NONE, 'call:COSdoGetSize': 300, 'srv->Frm->Data[4]': blk, 'call:COObjRdBufStart': NONE,
                          'srv->Buf.Cur': 0x5000}, filt=FRM)
        bad = None
        for t in trs:
            fr = _frame(t)
            st = dict((e[1], e[2]) for e in t.stores())
            ab = [c[2][1] for c in t.calls() if c[1] == 'COSdoAbort']
            if blk < 1 or blk > 127:
                if ab != [0x05040002] or t.ret != ABRT:
                    bad = 'block size %d: aborts %s returns %s (0504 0002h required)' % (blk, [hex(a) for a in ab], t.ret)
            else:
                if fr.get(0) != 0xC2 or sum((fr.get(4 + j) or 0) << (8 * j) for j in range(4)) != 300:
                    bad = 'response %s, required C2h + size 300' % fr
                elif st.get('srv->Blk.SegNum') != min(blk, SEG):
                    bad = 'block size stored %s, requested %d' % (st.get('srv->Blk.SegNum'), blk)
                elif st.get('srv->Blk.Size') != 300 or st.get('srv->Blk.Len') != 300 or st.get('srv->Blk.SegOk') != 0:
                    bad = 'transfer state Size %s Len %s SegOk %s' % (st.get('srv->Blk.Size'), st.get('srv->Blk.Len'), st.get('srv->Blk.SegOk'))
        _rep(ctx, P, 'RF13-upload', f, 'initiate block upload blksize=%d' % blk, bad)
    # every object that cannot be a basic type (more than 4 bytes: strings, domains, user types) is REWOUND when a block
    # upload is initiated - the boundary is 4, not "fits into one segment": a 5..7 byte string that is not rewound answers
    # with whatever an earlier transfer left in the buffer / continues at a stale offset
    for size in (5, 6, 7, 8, 300):
        trs = _run(m, f, {'call:COSdoGetObject': NONE, 'call:COSdoGetSize': size, 'srv->Frm->Data[4]': 20, 'call:COObjRdBufStart': NONE,
                          'srv->Buf.Cur': 0x5000}, filt=FRM)
        bad = None
        for t in trs:
            if t.ret == ABRT:
                continue
            if t.call_names().count('COObjRdBufStart') != 1:
                bad = 'object of %d bytes: COObjRdBufStart called %d times, required once (rewind of a streaming object)' % (
                    size, t.call_names().count('COObjRdBufStart'))
        if not trs or all(t.ret == ABRT for t in trs):
            bad = 'no accepting path for the bound inputs (the row would pass vacuously)'
        _rep(ctx, P + ['C05'], 'RF13-upload', f, 'initiate block upload of a %d byte object: rewound' % size, bad)
    for (fi, acc, extra, props_) in (('COSdoInitDownloadSegmented', 'COObjWrBufStart', {}, ['C02', 'C05']),
                                    ('COSdoInitDownloadBlock', 'COObjWrBufStart', {}, ['C02', 'C05'])):
        if fi not in m.funcs:
            continue
        for size in (5, 6, 7, 8, 300):
            inp = {'call:COSdoGetObject': NONE, 'call:COSdoGetSize': size, 'call:' + acc: NONE, 'srv->Buf.Cur': 0x5000,
                   'srv->Frm->Data[0]': 0x21 if 'Segmented' in fi else 0xC2}
            for j_ in range(4):
                inp['srv->Frm->Data[%d]' % (4 + j_)] = (size >> (8 * j_)) & 0xFF
            inp.update(extra)
            trs = _run(m, fi, inp, filt=FRM)
            bad = None
            for t in trs:
                if t.ret == ABRT:
                    continue
                if t.call_names().count(acc) != 1:
                    bad = 'object of %d bytes: %s called %d times, required once (rewind of a streaming object)' % (
                        size, acc, t.call_names().count(acc))
            if not trs or all(t.ret == ABRT for t in trs):
                bad = 'no accepting path for the bound inputs (the row would pass vacuously)'
            _rep(ctx, props_, 'RF13-download', fi, 'initiate download of a %d byte object: rewound' % size, bad)
    # acknowledge: end of transfer C1h | n<<2 ; new block size taken from byte 2
    f = 'COSdoAckUploadBlock'
    for lastvalid in (1, 4, 7):
        trs = _run(m, f, {'srv->Frm->Data[1]': 5, 'srv->Blk.SegCnt': 5, 'srv->Blk.Len': 0, 'srv->Blk.LastValid': lastvalid}, filt=FRM)
        bad = None
        for t in trs:
            fr = _frame(t)
            exp0 = 0xC1 | ((7 - lastvalid) << 2)
            if fr.get(0) != exp0 or t.ret != NONE:
                bad = 'end response %s, required %02Xh (n=%d)' % (fr.get(0), exp0, 7 - lastvalid)
        _rep(ctx, P, 'RF13-upload', f, 'end of block upload, %d valid bytes in the last segment' % lastvalid, bad)
    for nb in (0, 1, 4, 127, 128):
        trs = _run(m, f, {'srv->Frm->Data[1]': 5, 'srv->Frm->Data[2]': nb, 'srv->Blk.SegCnt': 5, 'srv->Blk.Len': 100,
                          'srv->Blk.SegNum': 10, 'call:COSdoUploadBlock': m.enum('CO_ERR_SDO_SILENT')}, filt=FRM)
        bad = None
        for t in trs:
            st = dict((e[1], e[2]) for e in t.stores())
            ab = [c[2][1] for c in t.calls() if c[1] == 'COSdoAbort']
            if nb < 1 or nb > 127:
                if ab != [0x05040002]:
                    bad = 'new block size %d: aborts %s' % (nb, [hex(a) for a in ab])
            else:
                if 'COSdoUploadBlock' not in t.call_names():
                    bad = 'next block not started'
                elif st.get('srv->Blk.SegNum') != nb:
                    bad = 'the block size announced in the acknowledge (%d) is not taken over (Blk.SegNum becomes %s): the next ' \
                          'block has the wrong number of segments' % (nb, st.get('srv->Blk.SegNum', 'unchanged'))
        _rep(ctx, P, 'RF13-upload', f, 'acknowledge with new block size %d' % nb, bad)
    for (seq, cnt) in ((3, 5), (6, 5)):
        trs = _run(m, f, {'srv->Frm->Data[1]': seq, 'srv->Frm->Data[2]': 10, 'srv->Blk.SegCnt': cnt, 'srv->Blk.Len': 100,
                          'call:COSdoUploadBlock': m.enum('CO_ERR_SDO_SILENT')}, filt=FRM)
        bad = None
        for t in trs:
            st = dict((e[1], e[2]) for e in t.stores())
            ab = [c[2][1] for c in t.calls() if c[1] == 'COSdoAbort']
            if seq > cnt and ab != [0x05040003]:
                bad = 'acknowledge beyond the last segment: aborts %s (0504 0003h required)' % [hex(a) for a in ab]
            if seq < cnt and (st.get('srv->Blk.SegOk') != seq or 'COSdoUploadBlock' not in t.call_names()):
                bad = 'partial acknowledge: SegOk %s, repeat started: %s' % (st.get('srv->Blk.SegOk'), 'COSdoUploadBlock' in t.call_names())
        _rep(ctx, P, 'RF13-upload', f, 'acknowledge %d of %d' % (seq, cnt), bad)
    # object unchanged: no path from an upload handler to a write of the object
    ups = ['COSdoUploadExpedited', 'COSdoInitUploadSegmented', 'COSdoUploadSegmented', 'COSdoInitUploadBlock', 'COSdoUploadBlock',
           'COSdoAckUploadBlock', 'COSdoEndUploadBlock']
    for h in ups:
        bad = None
        for (n, tg, ext, d) in m.calls.get(h, ()):
            nm = callee_name(n)
            if nm in ('COObjWrValue', 'COObjWrBufStart', 'COObjWrBufCont') or d.endswith('.Write'):
                bad = 'calls %s' % (nm or d)
        _rep(ctx, P, 'RF-upload-readonly', h, '%s never writes the object' % h, bad)


# ------------------------------------------------------------------ download templates (C02)
def download_templates(ctx):
    m = ctx.m
    P = ['C02']
    NONE, ABRT, SIL = m.enum('CO_ERR_NONE'), m.enum('CO_ERR_SDO_ABORT'), m.enum('CO_ERR_SDO_SILENT')
    f = 'COSdoDownloadExpedited'
    for (cmd, width) in ((0x2F, 1), (0x2B, 2), (0x27, 3), (0x23, 4), (0x22, 0)):
        trs = _run(m, f, {'srv->Frm->Data[0]': cmd, 'call:COSdoGetSize': (width or 4), 'call:COObjWrValue': NONE,
                          'srv->Frm->Data[4]': 0x11, 'srv->Frm->Data[5]': 0x22, 'srv->Frm->Data[6]': 0x33, 'srv->Frm->Data[7]': 0x44},
                   filt=FRM, sets=True)
        bad = None
        for t in trs:
            fr = _frame(t)
            gs = [c for c in t.calls() if c[1] == 'COSdoGetSize']
            wr = [c for c in t.calls() if c[1] == 'COObjWrValue']
            data = [e[2] for e in t.events if e[0] == 'set' and e[1] == 'data']
            if not gs or gs[0][2][1] != width or gs[0][2][2] != 1:
                bad = 'size negotiation with width %s strict %s, required %d / strict' % ([c[2][1] for c in gs], [c[2][2] for c in gs], width)
            elif fr.get(0) != 0x60 or t.ret != NONE:
                bad = 'response %s returns %s, required 60h' % (fr.get(0), t.ret)
            elif data[-1:] != [0x44332211]:
                bad = 'value taken from the frame %s' % data[-1:]
            elif not wr or wr[0][2][3] != (width or 4):
                bad = 'object written with width %s' % [c[2][3] for c in wr]
        _rep(ctx, P, 'RF13-download', f, 'expedited download command %02Xh' % cmd, bad)
    f = 'COSdoInitDownloadSegmented'
    for (cmd, ann) in ((0x21, 20), (0x20, 0)):
        trs = _run(m, f, {'srv->Frm->Data[0]': cmd, 'srv->Frm->Data[4]': 20, 'srv->Frm->Data[5]': 0, 'srv->Frm->Data[6]': 0,
                          'srv->Frm->Data[7]': 0, 'call:COSdoGetSize': 20, 'call:COObjWrBufStart': NONE, 'srv->Buf.Start': 0x5000}, filt=FRM)
        bad = None
        for t in trs:
            fr = _frame(t)
            st = dict((e[1], e[2]) for e in t.stores())
            gs = [c for c in t.calls() if c[1] == 'COSdoGetSize']
            if not gs or gs[0][2][1] != ann or gs[0][2][2] != 1:
                bad = 'size negotiation with announced size %s strict %s' % ([c[2][1] for c in gs], [c[2][2] for c in gs])
            elif fr.get(0) != 0x60:
                bad = 'response %s, required 60h' % fr.get(0)
            elif st.get('srv->Seg.Size') != 20 or st.get('srv->Seg.Num') != 0 or st.get('srv->Seg.TBit') != 0 or st.get('srv->Buf.Num') != 0 \
                    or st.get('srv->Buf.Cur') != 0x5000:
                bad = 'transfer state after initiate %s' % dict((k, v) for k, v in st.items() if 'Seg' in k or 'Buf' in k)
        _rep(ctx, P, 'RF13-download', f, 'initiate segmented download command %02Xh' % cmd, bad)
    f = 'COSdoDownloadSegmented'
    for tb in (0, 1):
        for ft in (0, 1):
            classes = [(0, 0, 20, 7), (3, 1, 20, 7), (0, 1, 20, 7), (0, 0, 20, 14), (0, 0, 256, 0), (0, 0, 257, 0), (0, 0, 262, 0), (0, 0, 263, 0),
                       (0, 0, 515, 0), (0, 0, 300, 7), (0, 0, 0x10003, 0), (0, 1, 600, 594), (1, 1, 600, 594)]
            if getattr(ctx, 'tier', 'quick') == 'thorough':
                classes += [(0, 0, 1000, 1000 - r) for r in range(1, 600)] + [(n_, 1, 20, 14) for n_ in range(1, 7)]
            for (n, last, size_, num_) in classes:
                cmd = (ft << 4) | (n << 1) | last
                trs = _run(m, f, {'srv->Obj': 1, 'srv->Frm->Data[0]': cmd, 'srv->Seg.TBit': tb, 'srv->Seg.Size': size_, 'srv->Seg.Num': num_,
                                  'srv->Buf.Num': 0, 'srv->Buf.Start': 0x5000, 'call:COObjWrBufCont': NONE}, filt=FRM)
                site = 'download segment toggle exp=%d got=%d n=%d last=%d size=%d received=%d' % (tb, ft, n, last, size_, num_)
                bad = None
                for t in trs:
                    fr = _frame(t)
                    st = dict((e[1], e[2]) for e in t.stores())
                    ab = [c[2][1] for c in t.calls() if c[1] == 'COSdoAbort']
                    wr = [c for c in t.calls() if c[1] == 'COObjWrBufCont']
                    if ft != tb:
                        if ab != [0x05030000] or wr or 'srv->Buf.Num' in st or 'srv->Seg.TBit' in st:
                            bad = 'toggle error: aborts %s, object written %d times, buffer/toggle changed: %s' % (
                                [hex(a) for a in ab], len(wr), sorted(k for k in st if 'Buf' in k or 'TBit' in k))
                        continue
                    nb = (7 - n) if n else min(7, size_ - num_)
                    if nb <= 4 and not last:
                        continue          # short non-final segment: refused by the handler (general error), not a template row
                    if fr.get(0) != (0x20 | (tb << 4)):
                        bad = 'response %s, required %02Xh' % (fr.get(0), 0x20 | (tb << 4))
                    elif not wr or wr[0][2][3] != nb:
                        bad = 'writes %s bytes to the object, the segment carries %d' % ([c[2][3] for c in wr], nb)
                    elif st.get('srv->Seg.TBit') != (tb ^ 1):
                        bad = 'toggle after the segment %s' % st.get('srv->Seg.TBit')
                    elif last and st.get('srv->Obj') != 0:
                        bad = 'last segment does not close the transfer'
                _rep(ctx, P, 'RF13-download', f, site, bad)
    f = 'COSdoInitDownloadBlock'
    for (cmd, ann) in ((0xC2, 300), (0xC0, 0), (0xC6, 300)):
        trs = _run(m, f, {'srv->Frm->Data[0]': cmd, 'srv->Frm->Data[4]': 300 & 0xFF, 'srv->Frm->Data[5]': 300 >> 8, 'srv->Frm->Data[6]': 0,
                          'srv->Frm->Data[7]': 0, 'call:COSdoGetSize': 300, 'call:COObjWrBufStart': NONE, 'srv->Buf.Start': 0x5000}, filt=FRM)
        bad = None
        for t in trs:
            fr = _frame(t)
            st = dict((e[1], e[2]) for e in t.stores())
            gs = [c for c in t.calls() if c[1] == 'COSdoGetSize']
            if not gs or gs[0][2][1] != ann or gs[0][2][2] != 0:
                bad = 'size negotiation with announced size %s strict %s (non-strict required)' % ([c[2][1] for c in gs], [c[2][2] for c in gs])
            elif fr.get(0) != 0xA0 or fr.get(4) != SEG:
                bad = 'response %s blksize %s, required A0h / %d' % (fr.get(0), fr.get(4), SEG)
            elif st.get('srv->Blk.State') != m.enum('BLK_DOWNLOAD') or st.get('srv->Blk.SegCnt') != 0 or st.get('srv->Blk.Len') != 300 \
                    or st.get('srv->Buf.Num') != 0 or st.get('srv->Buf.Cur') != 0x5000:
                bad = 'transfer state after initiate %s' % dict((k, v) for k, v in st.items() if 'Blk' in k or 'Buf' in k)
        _rep(ctx, P, 'RF13-download', f, 'initiate block download command %02Xh' % cmd, bad)
    f = 'COSdoDownloadBlock'
    for (cnt, seq, last) in ((0, 1, 0), (5, 6, 0), (5, 6, 1), (126, 127, 0), (126, 127, 1), (0, 1, 1), (125, 126, 0), (125, 126, 1),
                             (5, 7, 0), (5, 5, 0), (5, 127, 0), (5, 9, 1)):
        cmd = seq | (0x80 if last else 0)
        trs = _run(m, f, {'srv->Frm->Data[0]': cmd, 'srv->Blk.SegCnt': cnt, 'srv->Blk.Len': 500, 'srv->Buf.Num': cnt * 7,
                          'srv->Buf.Start': 0x5000, 'call:COObjWrBufCont': NONE}, filt=FRM)
        site = 'block segment seq=%d last=%d after %d segments' % (seq, last, cnt)
        bad = None
        for t in trs:
            fr = _frame(t)
            st = dict((e[1], e[2]) for e in t.stores())
            consumed = any(e[1] == 'srv->Buf.Num' for e in t.stores())
            in_seq = (seq == cnt + 1)
            ack = in_seq and (last or seq == SEG)
            nak = (not in_seq) and (last or seq == SEG)
            if not in_seq and consumed:
                bad = 'out-of-sequence segment is consumed into the buffer'
            elif in_seq and not consumed:
                bad = 'in-sequence segment is not consumed'
            elif ack:
                if fr.get(0) != 0xA2 or fr.get(1) != seq or fr.get(2) != SEG or t.ret != NONE:
                    bad = 'block acknowledge %s returns %s, required A2h ackseq=%d blksize=%d' % (dict((k, v) for k, v in fr.items() if k in (0, 1, 2)), t.ret, seq, SEG)
                elif st.get('srv->Blk.State') != m.enum('BLK_DNWAIT'):
                    bad = 'state after the acknowledge %s' % st.get('srv->Blk.State')
                else:
                    # a completed block that is not the last one is flushed to the object in full and the buffer
                    # rewound; the block that carries the last segment is flushed by the end handler (which deducts
                    # the unused bytes of the last segment) - flushing it here writes the fill bytes into the object
                    wr = [c for c in t.calls() if c[1] == 'COObjWrBufCont']
                    if last and wr:
                        bad = 'the block with the last segment is flushed before the end request says how many of its ' \
                              'bytes are valid (%s bytes written)' % [c[2][3] for c in wr]
                    elif not last and ([c[2][3] for c in wr] != [(cnt + 1) * 7] or st.get('srv->Buf.Num') != 0
                                       or st.get('srv->Buf.Cur') != 0x5000):
                        bad = 'completed block: flushed %s bytes (required %d), buffer fill level afterwards %s' % (
                            [c[2][3] for c in wr], (cnt + 1) * 7, st.get('srv->Buf.Num'))
            elif nak:
                if fr.get(0) != 0xA2 or fr.get(1) != cnt or t.ret != NONE:
                    bad = 'retransmission request %s, required A2h ackseq=%d' % (dict((k, v) for k, v in fr.items() if k in (0, 1, 2)), cnt)
            else:
                if t.ret != SIL or 0 in fr:
                    bad = 'segment inside a block answered (returns %s)' % t.ret
                elif any(c[1] == 'COObjWrBufCont' for c in t.calls()):
                    bad = 'segment inside a block flushes the buffer'
        _rep(ctx, P, 'RF13-download', f, site, bad)
    f = 'COSdoEndDownloadBlock'
    for n in (0, 3, 6):
        cmd = 0xC1 | (n << 2)
        trs = _run(m, f, {'srv->Frm->Data[0]': cmd, 'srv->Buf.Num': 21, 'srv->Buf.Start': 0x5000, 'call:COObjWrBufCont': NONE}, filt=FRM)
        bad = None
        for t in trs:
            fr = _frame(t)
            st = dict((e[1], e[2]) for e in t.stores())
            wr = [c for c in t.calls() if c[1] == 'COObjWrBufCont']
            if fr.get(0) != 0xA1 or t.ret != NONE:
                bad = 'response %s, required A1h' % fr.get(0)
            elif not wr or wr[0][2][3] != 21 - n:
                bad = 'final flush of %s bytes, required %d (buffered minus n)' % ([c[2][3] for c in wr], 21 - n)
            elif st.get('srv->Blk.State') != m.enum('BLK_IDLE') or st.get('srv->Obj') != 0:
                bad = 'transfer not closed'
        _rep(ctx, P, 'RF13-download', f, 'end block download n=%d' % n, bad)


# ------------------------------------------------------------------ server independence (C02 d)
def buffer_stride(ctx):
    m = ctx.m
    P = ['C02', 'C03', 'C01']
    f = 'COSdoReset'
    m.need(f)
    offs = {}
    pe = PEval(m, f)
    g = m.cfg(f)
    for node in g.nodes:
        if node.x is None:
            continue
        for (p_, rhs, n) in flow.assigned_paths(node.x):
            l = strip(n.kids[0]) if n.k != 'var' else None
            if l is not None and l.k == 'mem' and l.field == ('CO_SDO_BUF', 'Start') and rhs is not None:
                # &node->SdoBuf[E] : fold E for server 0 and server 1 (locals through their unique definitions)
                r = strip(rhs)
                idx = None
                for sub in walk(r):
                    if sub.k == 'idx':
                        idx = sub.kids[1]
                if idx is None:
                    continue
                for num in (0, 1):
                    env = {('v', pe.pidx.get('num')): num}
                    e = strip(idx)
                    if e.k == 'ref' and e.refk == 'VarDecl':
                        u = pe.cn.defs.unique_def(node.id, e.ref)
                        if u is not None:
                            e = u[1]
                    v = pe.ev(e, env, node.id)
                    if v is not None:
                        offs[num] = (v, [show(idx)])
    cap = 0
    for fname, fn in m.funcs.items():
        for n in walk(fn.body):
            if n.k == 'bin' and n.op == '=' and strip(n.kids[0]).k == 'mem' and strip(n.kids[0]).field == ('CO_SDO_BLK', 'SegNum'):
                v = const_eval(n.kids[1], m)
                if v is not None:
                    cap = max(cap, v)
    site = 'per-server transfer buffer slice'
    bad = None
    if 0 not in offs or 1 not in offs or cap == 0:
        ctx.broke(P, 'p_sdo2: cannot fold the buffer offset in COSdoReset / the block size constant')
        return
    stride = offs[1][0] - offs[0][0]
    if stride < cap * 7:
        bad = 'server 1 starts %d bytes behind server 0 but a server buffers up to %d segments x 7 = %d bytes: the slices ' \
              'overlap and interleaved transfers corrupt each other' % (stride, cap, cap * 7)
    _rep(ctx, P, 'RF-sdo-stride', f, site, bad)
    # Buf.Start is written nowhere else
    for fname, fn in sorted(m.funcs.items()):
        for n in walk(fn.body):
            if n.k == 'bin' and n.op.endswith('=') and n.op not in ('==', '!=', '<=', '>='):
                l = strip(n.kids[0])
                if l.k == 'mem' and l.field == ('CO_SDO_BUF', 'Start') and fname != f:
                    ctx.find(P, 'RF-sdo-stride', fname, 'foreign-start-writer', m.loc(fname, n), '%s moves the start of a server buffer' % fname)


# ------------------------------------------------------------------ defined before used across frames
TRANSFER = [('CO_SDO_SEG', 'Size'), ('CO_SDO_SEG', 'Num'), ('CO_SDO_SEG', 'TBit'),
            ('CO_SDO_BLK', 'Size'), ('CO_SDO_BLK', 'Len'), ('CO_SDO_BLK', 'SegNum'), ('CO_SDO_BLK', 'SegCnt'),
            ('CO_SDO_BLK', 'SegOk'), ('CO_SDO_BLK', 'LastValid'), ('CO_SDO_BUF', 'Cur'), ('CO_SDO_BUF', 'Num')]
KINDS = [
    ('segmented upload', 'COSdoInitUploadSegmented', {'call:COObjRdBufStart': 0}, ['COSdoUploadSegmented'], ['C03', 'C04', 'C05']),
    ('segmented download', 'COSdoInitDownloadSegmented', {'call:COSdoGetSize': 20, 'call:COObjWrBufStart': 0}, ['COSdoDownloadSegmented'], ['C02', 'C04', 'C05']),
    ('block download', 'COSdoInitDownloadBlock', {'call:COSdoGetSize': 20, 'call:COObjWrBufStart': 0}, ['COSdoDownloadBlock', 'COSdoEndDownloadBlock'], ['C02', 'C04', 'C05']),
    ('block upload', 'COSdoInitUploadBlock', {'call:COSdoGetObject': 0, 'call:COSdoGetSize': 20, 'srv->Frm->Data[4]': 10, 'call:COObjRdBufStart': 0},
     ['COSdoUploadBlock'], ['C03', 'C04', 'C05']),
]


def _uer(m, fname, exclude_repeat=True):
    """transfer fields read before written on some path of a continuation handler (reads guarded by
    Blk.State == BLK_REPEAT are re-entries and excluded)"""
    return _uer2(m, fname, exclude_repeat, 0)[0]


def _uer2(m, fname, exclude_repeat, depth):
    """-> (fields read before written on some path, fields written on every path to the exit); helpers the
    rule tables do not know are folded in (their exposed reads count at the call, their must-writes after it)"""
    g = m.cfg(fname)
    REP = m.enum('BLK_REPEAT')
    helpers = {}
    if depth < 3:
        for node in g.nodes:
            if node.x is not None:
                for c in walk(node.x):
                    if c.k == 'call' and callee_name(c) and m.is_new_helper(callee_name(c)) and callee_name(c) not in helpers:
                        helpers[callee_name(c)] = _uer2(m, callee_name(c), exclude_repeat, depth + 1)

    def tr(node, s):
        if node.x is None:
            return s
        out = s
        for c in walk(node.x):
            if c.k == 'call' and callee_name(c) in helpers:
                out = out | helpers[callee_name(c)][1]
        for (p, rhs, n) in flow.assigned_paths(node.x):
            l = strip(n.kids[0]) if n.k != 'var' else None
            if l is not None and l.k == 'mem' and l.field in TRANSFER and n.k == 'bin' and n.op == '=':
                out = out | frozenset([l.field])
        return out
    IN, OUT = flow.forward(g, frozenset(), tr, lambda a, b: a & b)
    facts = m.facts(fname)
    uer = {}
    must = None
    for (pred, lab) in g.exit.pred:
        st = OUT.get(pred)
        if st is not None:
            must = st if must is None else (must & st)
    must = must or frozenset()
    for node in g.nodes:
        if node.x is None or IN.get(node.id) is None:
            continue
        rep = False
        for fa in (facts.get(node.id) or ()):
            x = strip(fa.x)
            if x.k == 'bin' and x.op == '==' and fa.pol and strip(x.kids[0]).k == 'mem' and strip(x.kids[0]).field == ('CO_SDO_BLK', 'State') \
                    and const_eval(x.kids[1], m) == REP:
                rep = True
        if rep and exclude_repeat:
            continue
        plain = set()
        for n in walk(node.x):
            if n.k == 'bin' and n.op == '=':
                l = strip(n.kids[0])
                if l.k == 'mem':
                    plain.add(id(l))
        for n in walk(node.x):
            if n.k == 'mem' and n.field in TRANSFER and id(n) not in plain and n.field not in IN[node.id]:
                uer.setdefault(n.field, node.line)
            elif n.k == 'call' and callee_name(n) in helpers:
                for f, ln in helpers[callee_name(n)][0].items():
                    if f not in IN[node.id]:
                        uer.setdefault(f, ln)
    return uer, must


def defined_before_used(ctx):
    m = ctx.m
    NONE = m.enum('CO_ERR_NONE')
    for (kind, init, inputs, conts, props) in KINDS:
        m.need(init, *conts)
        # every object-size class (basic entries up to 4 bytes take a different branch than buffered ones) and,
        # last, the size left unbound so that every branch on it is explored
        mw = None
        for size in (1, 2, 4, 5, 20, None):
            inp = dict(inputs)
            if 'call:COSdoGetSize' in inp:
                if size is None:
                    del inp['call:COSdoGetSize']
                else:
                    inp['call:COSdoGetSize'] = size
            elif size not in (20,):
                continue
            trs = _run(m, init, inp, filt=lambda k, fld: fld in TRANSFER)
            for t in trs:
                if t.ret != NONE:
                    continue
                w = set(e[4] for e in t.stores())
                mw = w if mw is None else (mw & w)
        if mw is None:
            ctx.broke(props, 'p_sdo2: initiator %s has no successful path under the folded inputs' % init)
            continue
        for c in conts:
            uer = _uer(m, c)
            # fields written by an earlier continuation of the same kind count as defined
            for c2 in conts:
                if c2 == c:
                    break
            missing = sorted((f, ln) for f, ln in uer.items() if f not in mw and not _written_by_predecessor(m, kind, c, f))
            site = '%s: %s reads %s' % (kind, c, sorted('%s.%s' % f for f in uer))
            if missing:
                ctx.ob(props, 'RF12-defuse', c, site, None)
                for (f, ln) in missing:
                    # the buffer cursor / fill level left by an earlier transfer lets the copy run past the transfer buffer: C01
                    ctx.find(props + (['C01'] if f[0] == 'CO_SDO_BUF' else []), 'RF12-defuse', init, 'undefined:%s.%s' % f, m.loc(c, ln),
                             '%s reads %s.%s (line %d) but the initiator %s does not set it on every successful path: the '
                             'new transfer continues with whatever an earlier - possibly aborted or unfinished - transfer '
                             'left in that field' % (c, f[0], f[1], ln, init))
            else:
                ctx.ob(props, 'RF12-defuse', c, site, 'all set by %s on every successful path' % init)
        if kind == 'block upload':
            # the go-back-N re-entry (Blk.State == BLK_REPEAT) reads what the PREVIOUS call of the same handler left: each such
            # field is set by the initiator on every successful path, or written on every path of the handler itself, or
            # handed over by the acknowledge handler - otherwise the repeat computes with the value of an earlier transfer
            c = 'COSdoUploadBlock'
            all_reads = _uer2(m, c, False, 0)[0]
            plain = _uer2(m, c, True, 0)
            rep_only = dict((f, ln) for f, ln in all_reads.items() if f not in plain[0])
            # fields written on every path of the handler that leaves the transfer OPEN (a path that aborts closes it: no
            # retransmission can follow, so it does not count)
            g_ = m.cfg(c)
            ALLF = frozenset(TRANSFER)

            def tr_(node, st):
                if node.x is None:
                    return st
                out = st
                for cx_ in walk(node.x):
                    if cx_.k == 'call' and callee_name(cx_) in ('COSdoAbort', 'COSdoAbortReq'):
                        out = ALLF
                for (p_, rhs_, n_) in flow.assigned_paths(node.x):
                    l_ = strip(n_.kids[0]) if n_.k != 'var' else None
                    if l_ is not None and l_.k == 'mem' and l_.field in TRANSFER:
                        out = out | frozenset([l_.field])
                return out
            IN_, OUT_ = flow.forward(g_, frozenset(), tr_, lambda a, b: a & b)
            must_self = IN_.get(g_.exit.id, frozenset())
            ack = set()
            if 'COSdoAckUploadBlock' in m.funcs:
                for n_ in walk(m.funcs['COSdoAckUploadBlock'].body):
                    if n_.k == 'bin' and n_.op == '=':
                        l_ = strip(n_.kids[0])
                        if l_.k == 'mem' and l_.field in TRANSFER:
                            ack.add(l_.field)
            missing = sorted((f, ln) for f, ln in rep_only.items() if f not in mw and f not in must_self and f not in ack)
            site = 'block upload: the retransmission branch of %s reads %s' % (c, sorted('%s.%s' % f for f in rep_only))
            if missing:
                ctx.ob(['C03', 'C05'], 'RF12-defuse', c, site, None)
                for (f, ln) in missing:
                    ctx.find(['C03', 'C05'], 'RF12-defuse', c, 'repeat-undefined:%s.%s' % f, m.loc(c, ln),
                             'the retransmission (BLK_REPEAT) branch of %s reads %s.%s (line %d), which is neither set by %s on every '
                             'successful path, nor written on every path of %s, nor handed over by COSdoAckUploadBlock: after a '
                             'partially confirmed block it computes with what an EARLIER transfer left there' % (c, f[0], f[1], ln, init, c))
            else:
                ctx.ob(['C03', 'C05'], 'RF12-defuse', c, site, 'each set by the initiator, by every path of the handler, or by the acknowledge')


def _written_by_predecessor(m, kind, cont, field):
    # block download: the end handler runs after at least one COSdoDownloadBlock
    if kind == 'block download' and cont == 'COSdoEndDownloadBlock':
        return False
    return False


def start_only_in_initiators(ctx):
    """COObjRdBufStart / COObjWrBufStart rewind the object's stream position.  In the SDO server only the functions that
    OPEN a transfer may call them; every later refill / flush continues with COObjRdBufCont / COObjWrBufCont (a Start in a
    continuation restarts the object: the middle blocks of a long upload repeat the first one)."""
    m = ctx.m
    INITIATORS = set(['COSdoInitUploadSegmented', 'COSdoInitDownloadSegmented', 'COSdoInitUploadBlock', 'COSdoInitDownloadBlock'])
    n = 0
    for fname, fn in sorted(m.funcs.items()):
        if not fn.unit.endswith('co_ssdo.c'):
            continue
        if m.is_new_helper(fname) and m.callers.get(fname):
            continue          # a helper extracted from a known function: its calls are attributed to its callers (closure below)
        for f2 in m.helper_closure(fname):
            for x in walk(m.funcs[f2].body):
                if x.k == 'call' and callee_name(x) in ('COObjRdBufStart', 'COObjWrBufStart'):
                    n += 1
                    props = ['C03'] if callee_name(x) == 'COObjRdBufStart' else ['C02']
                    site = '%s: %s in %s' % (m.loc(f2, x), callee_name(x), fname)
                    if fname in INITIATORS:
                        ctx.ob(props, 'RF2-bufstart', fname, site, 'transfer initiator')
                    else:
                        ctx.ob(props, 'RF2-bufstart', fname, site, None)
                        ctx.find(props, 'RF2-bufstart', fname, 'start-in-continuation:%s' % callee_name(x), m.loc(f2, x),
                                 '%s calls %s: only the functions that open a transfer rewind the object; a continuation handler that '
                                 'does so restarts the object in the middle of the transfer' % (fname, callee_name(x)))
    ctx.inst('SDO2.bufstart-sites', n)
    ctx.require_min(['C02', 'C03'], 'RF2-bufstart', n, 4, 'BufStart call sites in the SDO server')


def run(ctx):
    start_only_in_initiators(ctx)
    upload_templates(ctx)
    download_templates(ctx)
    buffer_stride(ctx)
    defined_before_used(ctx)
