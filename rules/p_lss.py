"""LSS slave (C18): RF1 service table vs CiA 305, per-handler constants by finite
evaluation, RF2 return/identifier discipline, RF9 load/init on reset."""
from canalyze.ir import walk, strip, const_eval, show, callee_name
from canalyze.peval import PEval
from canalyze import flow
from canalyze.front import AnalysisBroken
from tables import spec

P = ['C18']
RX, TX = 0x7E5, 0x7E4

# (handler family): ordered steps. each: cs, 1018h sub-index, relation select ? ident
SELECTIVE = [(64, 1, '=='), (65, 2, '=='), (66, 3, '=='), (67, 4, '==')]
IDENTIFY = [(70, 1, '=='), (71, 2, '=='), (72, 3, '<='), (73, 3, '>='), (74, 4, '<='), (75, 4, '>=')]
INQUIRE = {90: 1, 91: 2, 92: 3, 93: 4}
BAUD_DEFINED = set([0, 1, 2, 3, 4, 6, 7, 8])


def _rel(op, a, b):
    return {'==': a == b, '<=': a <= b, '>=': a >= b}[op]


def _frame_inputs(cs, long1=None, extra=None):
    d = {'frm->Identifier': RX, 'frm->Data[0]': cs}
    if long1 is not None:
        for i in range(4):
            d['frm->Data[%d]' % (1 + i)] = (long1 >> (8 * i)) & 0xFF
    for i in range(1, 8):
        d.setdefault('frm->Data[%d]' % i, 0)
    if extra:
        d.update(extra)
    return d


def service_table(ctx):
    m = ctx.m
    g = m.globals.get('COLssServices')
    if g is None or g[2] is None or g[2].k != 'init':
        raise AnalysisBroken('anchor table COLssServices not found')
    # discover the encodings of waiting / configuration mode from switch-state-global
    pe = PEval(m, 'COLssSwitchStateGlobal')
    mode_val = {}
    for (name, byte1) in (('CO_LSS_WAIT', 0), ('CO_LSS_CONF', 1)):
        trs = pe.run(_frame_inputs(4, extra={'frm->Data[1]': byte1}))
        vals = set(e[2] for t in trs for e in t.stores() if e[1] == 'lss->Mode')
        if len(vals) != 1 or None in vals:
            ctx.find(P, 'RF1-lss-global', 'COLssSwitchStateGlobal', 'mode:%d' % byte1,
                     m.loc('COLssSwitchStateGlobal', m.funcs['COLssSwitchStateGlobal'].line),
                     'switch state global with mode byte %d stores Mode in %s; exactly one state must be selected' % (byte1, vals))
            ctx.ob(P, 'RF1-lss-global', 'COLssSwitchStateGlobal', 'mode byte %d' % byte1, None)
            return None, None
        mode_val[name] = list(vals)[0]
        ctx.ob(P, 'RF1-lss-global', 'COLssSwitchStateGlobal', 'mode byte %d' % byte1, 'Mode := %d' % mode_val[name])
    # every other mode byte (2..255 are reserved): the slave ends in one of the two service states, never in a value
    # that no row of the service table allows (it would then ignore every LSS request until the next reset)
    legal = set(mode_val.values())
    bad_bytes = []
    for byte1 in range(2, 256):
        trs = pe.run(_frame_inputs(4, extra={'frm->Data[1]': byte1, 'lss->Mode': mode_val['CO_LSS_WAIT']}))
        for t in trs:
            vals = [e[2] for e in t.stores() if e[1] == 'lss->Mode']
            if vals and vals[-1] not in legal:
                bad_bytes.append((byte1, vals[-1]))
    if bad_bytes:
        ctx.ob(P, 'RF1-lss-global', 'COLssSwitchStateGlobal', 'reserved mode bytes 2..255', None)
        ctx.find(P, 'RF1-lss-global', 'COLssSwitchStateGlobal', 'reserved-mode', m.loc('COLssSwitchStateGlobal', m.funcs['COLssSwitchStateGlobal'].line),
                 'switch state global with a reserved mode byte leaves Mode at a value that is neither waiting nor configuration '
                 '(e.g. byte %d -> %s; %d bytes affected): no service row allows that state, the slave stops answering LSS requests'
                 % (bad_bytes[0][0], bad_bytes[0][1], len(bad_bytes)))
    else:
        ctx.ob(P, 'RF1-lss-global', 'COLssSwitchStateGlobal', 'reserved mode bytes 2..255', 'Mode stays one of the two service states (254 bytes)')
    if mode_val['CO_LSS_WAIT'] == mode_val['CO_LSS_CONF']:
        ctx.find(P, 'RF1-lss-global', 'COLssSwitchStateGlobal', 'same-mode',
                 m.loc('COLssSwitchStateGlobal', m.funcs['COLssSwitchStateGlobal'].line),
                 'switch state global selects the same state for waiting and configuration')
    rows = {}
    seen = {}
    for row in g[2].kids:
        if row.k != 'init' or len(row.kids) < 3:
            raise AnalysisBroken('COLssServices row shape changed')
        cs = const_eval(row.kids[0], m)
        mask = const_eval(row.kids[1], m)
        h = strip(row.kids[2])
        hn = h.name if h.k == 'ref' else None
        rows[cs] = (mask, hn)
        seen[cs] = seen.get(cs, 0) + 1
    ctx.inst('RF1.lss.rows', len(rows))
    ctx.require_min(P, 'RF1-lss-table', len(rows), 15, 'LSS service rows')
    tbl = {}
    for cs, (modes, what) in sorted(spec.LSS_SERVICES.items()):
        site = 'cs %d (%s)' % (cs, what)
        if cs not in rows:
            ctx.ob(P, 'RF1-lss-table', 'COLssServices', site, None)
            ctx.find(P, 'RF1-lss-table', 'COLssServices', 'missing:%d' % cs, 'src/service/cia305/co_lss.c:%d' % (g[4] or 0),
                     'LSS service %d (%s) has no table row' % (cs, what))
            continue
        mask, hn = rows[cs]
        got = set(n for n, v in mode_val.items() if mask & v)
        tbl[str(cs)] = {'allowed_in': sorted(got), 'handler': hn}
        if got == modes and seen[cs] == 1 and hn is not None:
            ctx.ob(P, 'RF1-lss-table', 'COLssServices', site, 'allowed in %s -> %s' % (sorted(got), hn))
        else:
            ctx.ob(P, 'RF1-lss-table', 'COLssServices', site, None)
            ctx.find(P, 'RF1-lss-table', 'COLssServices', 'row:%d' % cs, 'src/service/cia305/co_lss.c:%d' % (g[4] or 0),
                     'LSS service %d (%s) is allowed in %s (CiA 305: %s), rows with this specifier: %d'
                     % (cs, what, sorted(got), sorted(modes), seen[cs]))
    for cs in rows:
        if cs not in spec.LSS_SERVICES:
            ctx.find(P, 'RF1-lss-table', 'COLssServices', 'extra:%s' % cs, 'src/service/cia305/co_lss.c:%d' % (g[4] or 0),
                     'table row for command specifier %s which CiA 305 does not define for a slave' % cs)
    ctx.table('C18', 'COLssServices', tbl)
    return rows, mode_val


def check_dispatch(ctx, rows, mode_val):
    """COLssCheck: handler called iff identifier 7E5h, specifier in table and mode allowed; never returns 0 for an
    LSS frame; other identifiers return 0 without touching anything."""
    m = ctx.m
    pe = PEval(m, 'COLssCheck')
    exit_val = None
    # value of the exit mode: stored by COLssInit on failure
    pi = PEval(m, 'COLssInit')
    vals = set()
    for t in pi.run({'call:CODictFind': 0, 'lss': 1, 'node': 1}):
        for e in t.stores():
            if e[1] == 'lss->Mode' and e[2] is not None:
                vals.add(e[2])
    others = vals - set(mode_val.values())
    modes = dict(mode_val)
    if len(others) == 1:
        modes['CO_LSS_EXIT'] = list(others)[0]
    n = 0
    for mname, mv in sorted(modes.items()):
        for cs in range(256):
            trs = pe.run({'frm->Identifier': RX, 'frm->Data[0]': cs, 'lss->Mode': mv})
            n += 1
            called = set(tuple(c for c in t.call_names()) for t in trs)
            rets = set(t.ret for t in trs)
            exp = ()
            if cs in rows and (rows[cs][0] & mv):
                exp = (rows[cs][1],)
            site = 'mode %s cs %d' % (mname, cs)
            ok = called == set([exp])
            if not exp:
                ok = ok and rets == set([-1])
            if ok:
                ctx.ob(P, 'RF2-lss-dispatch', 'COLssCheck', site, 'handler %s' % (exp,), nontrivial=bool(exp) or cs in rows)
            else:
                ctx.ob(P, 'RF2-lss-dispatch', 'COLssCheck', site, None)
                ctx.find(P, 'RF2-lss-dispatch', 'COLssCheck', 'dispatch:%s:%d' % (mname, cs),
                         m.loc('COLssCheck', m.funcs['COLssCheck'].line),
                         'LSS request %d in %s: calls %s returns %s; required handler %s (mode mask tested before the call) and '
                         'a non-zero result so that the frame is not passed on' % (cs, mname, sorted(called), sorted(rets, key=str), exp))
    for ident in (0, 0x7E4, 0x7E6, 0x600):
        trs = pe.run({'frm->Identifier': ident, 'frm->Data[0]': 4, 'lss->Mode': mode_val['CO_LSS_CONF']})
        ok = all(t.ret == 0 and not t.call_names() for t in trs)
        site = 'identifier %Xh' % ident
        if ok:
            ctx.ob(P, 'RF2-lss-dispatch', 'COLssCheck', site, 'not an LSS frame: result 0, nothing called')
        else:
            ctx.ob(P, 'RF2-lss-dispatch', 'COLssCheck', site, None)
            ctx.find(P, 'RF2-lss-dispatch', 'COLssCheck', 'foreign-id:%X' % ident, m.loc('COLssCheck', m.funcs['COLssCheck'].line),
                     'frame with identifier %Xh is treated as LSS request' % ident)
    ctx.inst('RF2.lss-dispatch.inputs', n)


def _run_handler(m, hn, inputs):
    pe = PEval(m, hn)
    trs = pe.run(inputs)
    out = []
    for t in trs:
        st = {}
        for e in t.stores():
            st[e[1]] = e[2]
        reads = [c[2][1] for c in t.calls() if c[1] == 'CODictRdLong']
        out.append((t.ret, st, reads, t))
    return out


def sequences(ctx, rows, mode_val):
    """switch-state-selective and identify-remote-slave step chains"""
    m = ctx.m
    IDENT = 0x00001000
    fam_steps = {}
    for (fam, chain, final_cs, resp, enters_conf) in (('selective', SELECTIVE, 67, 68, True),
                                                     ('identify', IDENTIFY, 75, 79, False)):
        fam_steps[fam] = set()
        need_step = None       # step value handler k must see (None for the first)
        first_reset = None
        for k, (cs, sub, op) in enumerate(chain):
            if cs not in rows:
                continue
            hn = rows[cs][1]
            if hn not in m.funcs:
                ctx.broke(P, 'LSS handler %s vanished' % hn)
                continue
            is_final = (cs == final_cs)
            adv = set()
            steps = sorted(set([0, 1, 2, 3, 4, 10, 11, 12, 13, 14, 15] + ([need_step] if need_step is not None else [])))
            for step in steps:
                for err in (0, 0x100):
                    for sel in (IDENT - 1, IDENT, IDENT + 1):
                        inputs = _frame_inputs(cs, long1=sel, extra={
                            'lss->Step': step, 'call:CODictRdLong': err, 'out:CODictRdLong:2': IDENT,
                            'lss->Mode': mode_val['CO_LSS_WAIT']})
                        res = _run_handler(m, hn, inputs)
                        site = '%s step=%d err=%d select%sident' % (hn, step, err, {IDENT - 1: '<', IDENT: '=', IDENT + 1: '>'}[sel])
                        if len(res) != 1:
                            ctx.broke(P, 'RF1-lss-seq: %s does not fold to one trace (%d)' % (site, len(res)))
                            continue
                        ret, st, reads, t = res[0]
                        in_order = (need_step is None) or (step == need_step)
                        match = in_order and err == 0 and _rel(op, sel, IDENT)
                        bad = None
                        if ret == 0 or ret is None:
                            bad = 'returns %s (an LSS frame would be passed on to other services)' % ret
                        sub_read = [(r >> 8) & 0xFF for r in reads if r is not None and (r >> 16) == 0x1018]
                        if in_order and reads and sub_read != [sub]:
                            bad = 'compares with 1018h sub-index %s, required %d' % (sub_read, sub)
                        if is_final:
                            answered = (ret == 1)
                            if answered != match:
                                bad = 'answers=%s although sequence complete and matching=%s' % (answered, match)
                            if answered:
                                if st.get('frm->Data[0]') != resp or st.get('frm->Identifier') != TX:
                                    bad = 'answer is cs %s on %s, required %d on 7E4h' % (st.get('frm->Data[0]'), st.get('frm->Identifier'), resp)
                                if enters_conf and st.get('lss->Mode') != mode_val['CO_LSS_CONF']:
                                    bad = 'answers 44h without entering configuration state'
                            else:
                                if 'frm->Identifier' in st and st.get('frm->Identifier') == TX and ret != 1:
                                    pass
                                if enters_conf and st.get('lss->Mode') == mode_val['CO_LSS_CONF']:
                                    bad = 'enters configuration state without a complete matching sequence'
                        else:
                            new = st.get('lss->Step', step)
                            if ret == 1:
                                bad = 'intermediate step sends an answer'
                            if match:
                                adv.add(new)
                                if new == step and need_step is not None:
                                    bad = 'matching in-order request does not advance the sequence'
                            else:
                                # must not reach the state the next handler expects
                                pass
                            st_mode = st.get('lss->Mode')
                            if st_mode is not None and st_mode != mode_val['CO_LSS_WAIT']:
                                bad = 'intermediate step changes the LSS mode'
                        # a non-matching request must not leave Step at the value the successor requires: checked below
                        if bad:
                            ctx.ob(P, 'RF1-lss-seq', hn, site, None)
                            ctx.find(P, 'RF1-lss-seq', hn, 'seq:%s' % bad.split(',')[0][:60], m.loc(hn, m.funcs[hn].line),
                                     '%s: %s' % (site, bad))
                        else:
                            ctx.ob(P, 'RF1-lss-seq', hn, site, 'ret=%s step->%s' % (ret, st.get('lss->Step', step)))
            if not is_final:
                if len(adv) != 1:
                    ctx.find(P, 'RF1-lss-seq', hn, 'advance-value', m.loc(hn, m.funcs[hn].line),
                             'a matching request advances the sequence to %s (one successor state expected)' % sorted(adv))
                    need_step = None
                else:
                    nxt = list(adv)[0]
                    # non-matching requests must never produce the successor state
                    for step in steps:
                        for err in (0, 0x100):
                            for sel in (IDENT - 1, IDENT, IDENT + 1):
                                in_order = (need_step is None) or (step == need_step)
                                match = in_order and err == 0 and _rel(op, sel, IDENT)
                                if match:
                                    continue
                                inputs = _frame_inputs(cs, long1=sel, extra={
                                    'lss->Step': step, 'call:CODictRdLong': err, 'out:CODictRdLong:2': IDENT,
                                    'lss->Mode': mode_val['CO_LSS_WAIT']})
                                for (ret, st, reads, t) in _run_handler(m, hn, inputs):
                                    if st.get('lss->Step', step) == nxt and step != nxt:
                                        ctx.find(P, 'RF1-lss-seq', hn, 'advance-without-match', m.loc(hn, m.funcs[hn].line),
                                                 '%s advances to step %d although the request does not match in order '
                                                 '(step=%d err=%d select-ident=%d)' % (hn, nxt, step, err, sel - IDENT))
                                    elif st.get('lss->Step', step) == nxt and step == nxt:
                                        # stays in the successor state on an out-of-order repeat: the successor would accept
                                        ctx.find(P, 'RF1-lss-seq', hn, 'keeps-successor-state', m.loc(hn, m.funcs[hn].line),
                                                 '%s leaves Step at %d on a non-matching request' % (hn, nxt))
                    need_step = nxt
                    fam_steps[fam].add(nxt)
    # both sequences keep their progress in the one field lss->Step: the progress values of the two families must be
    # disjoint, otherwise progress in one sequence counts as progress in the other (a partial identify sequence
    # completed by a single selective frame switches the slave into configuration state)
    common = fam_steps.get('selective', set()) & fam_steps.get('identify', set())
    site = 'progress values of the selective (%s) and identify (%s) sequences' % (sorted(fam_steps.get('selective', ())), sorted(fam_steps.get('identify', ())))
    if common:
        ctx.ob(P, 'RF1-lss-seq', 'COLssCheck', site, None)
        ctx.find(P, 'RF1-lss-seq', 'COLssCheck', 'shared-progress-values', m.loc('COLssCheck', m.funcs['COLssCheck'].line),
                 '%s overlap in %s: the sequences share lss->Step, so frames of one service advance the other' % (site, sorted(common)))
    elif not fam_steps.get('selective') or not fam_steps.get('identify'):
        ctx.broke(P, 'RF1-lss-seq: progress values of the LSS sequences could not be derived')
    else:
        ctx.ob(P, 'RF1-lss-seq', 'COLssCheck', site, 'disjoint')


def config_services(ctx, rows, mode_val):
    m = ctx.m
    # configure node id
    if 17 in rows:
        hn = rows[17][1]
        for nid in range(256):
            res = _run_handler(m, hn, _frame_inputs(17, extra={'frm->Data[1]': nid, 'lss->CfgNodeId': 0x55}))
            site = '%s node-id %d' % (hn, nid)
            ok = len(res) == 1
            if ok:
                ret, st, reads, t = res[0]
                valid = (1 <= nid <= 127) or nid == 255
                ok = ret == 1 and st.get('frm->Identifier') == TX and st.get('frm->Data[1]') == (0 if valid else 1) \
                    and (st.get('lss->CfgNodeId') == nid if valid else 'lss->CfgNodeId' not in st) \
                    and 'frm->Data[0]' not in st
            if ok:
                ctx.ob(P, 'RF1-lss-config', hn, site, 'accepted' if ((1 <= nid <= 127) or nid == 255) else 'refused with error 1',
                       nontrivial=nid in (0, 1, 127, 128, 254, 255))
            else:
                ctx.ob(P, 'RF1-lss-config', hn, site, None)
                ctx.find(P, 'RF1-lss-config', hn, 'nodeid:%d' % nid, m.loc(hn, m.funcs[hn].line),
                         'configure node-id %d: %s; CiA 305 accepts exactly 1..127 and 255, answers on 7E4h repeating the '
                         'command specifier with error code 0/1' % (nid, [(r[0], r[1]) for r in res]))
    if 19 in rows:
        hn = rows[19][1]
        for table in (0, 1, 0x80):
            for idx in range(256):
                res = _run_handler(m, hn, _frame_inputs(19, extra={'frm->Data[1]': table, 'frm->Data[2]': idx,
                                                                   'lss->CfgBaudrate': 0x55}))
                site = '%s table %d index %d' % (hn, table, idx)
                ok = len(res) == 1
                if ok:
                    ret, st, reads, t = res[0]
                    valid = table == 0 and idx in BAUD_DEFINED
                    ok = ret == 1 and st.get('frm->Identifier') == TX and st.get('frm->Data[1]') == (0 if valid else 1) \
                        and 'frm->Data[0]' not in st
                    if valid:
                        ok = ok and st.get('lss->CfgBaudrate') not in (None, 0, 0x55)
                if ok:
                    ctx.ob(P, 'RF1-lss-config', hn, site, 'ok', nontrivial=(table == 0 and idx < 12))
                else:
                    ctx.ob(P, 'RF1-lss-config', hn, site, None)
                    ctx.find(P, 'RF1-lss-config', hn, 'baud:%d:%d' % (table, idx), m.loc(hn, m.funcs[hn].line),
                             'configure bit timing table %d index %d: %s; only table 0 with a defined rate is accepted'
                             % (table, idx, [(r[0], r[1]) for r in res]))
    if 23 in rows:
        hn = rows[23][1]
        for err in (0, 0x100):
            res = _run_handler(m, hn, _frame_inputs(23, extra={'call:COLssStore': err, 'lss->CfgBaudrate': 1000, 'lss->CfgNodeId': 9,
                                                               'lss->Flags': 0}))
            site = '%s store result %d' % (hn, err)
            ok = len(res) == 1
            if ok:
                ret, st, reads, t = res[0]
                args = [c[2] for c in t.calls() if c[1] == 'COLssStore']
                ok = ret == 1 and st.get('frm->Identifier') == TX and st.get('frm->Data[1]') == (0 if err == 0 else 2) \
                    and args == [[1000, 9]]
                # the "configuration is stored" flag (it lets an unconfigured slave answer "identify non-configured remote
                # slave") is raised iff the store succeeded
                fl = st.get('lss->Flags') or 0
                if ok and bool(fl) != (err == 0):
                    ok = False
                    res = [(ret, 'stored-flag %s after a %s store' % (hex(fl), 'successful' if err == 0 else 'FAILED'))]
            if ok:
                ctx.ob(P, 'RF1-lss-config', hn, site, 'error code %d' % (0 if err == 0 else 2))
            else:
                ctx.ob(P, 'RF1-lss-config', hn, site, None)
                ctx.find(P, 'RF1-lss-config', hn, 'store:%d' % err, m.loc(hn, m.funcs[hn].line),
                         'store configuration with callback result %d: %s' % (err, [(r[0], r[1]) for r in res]))
    for cs, sub in sorted(INQUIRE.items()):
        if cs not in rows:
            continue
        hn = rows[cs][1]
        res = _run_handler(m, hn, _frame_inputs(cs, extra={'out:CODictRdLong:2': 0x11223344, 'call:CODictRdLong': 0}))
        site = '%s' % hn
        ok = len(res) == 1
        if ok:
            ret, st, reads, t = res[0]
            ok = ret == 1 and st.get('frm->Identifier') == TX and reads == [(0x1018 << 16) | (sub << 8)] and \
                [st.get('frm->Data[%d]' % i) for i in (1, 2, 3, 4)] == [0x44, 0x33, 0x22, 0x11] and 'frm->Data[0]' not in st
        if ok:
            ctx.ob(P, 'RF1-lss-config', hn, site, 'answers 1018h:%d little-endian on 7E4h' % sub)
        else:
            ctx.ob(P, 'RF1-lss-config', hn, site, None)
            ctx.find(P, 'RF1-lss-config', hn, 'inquire:%d' % cs, m.loc(hn, m.funcs[hn].line),
                     'inquire service %d: %s; required answer with 1018h:%d' % (cs, [(r[0], r[1], r[2]) for r in res], sub))
    # every handler: never returns 0; a positive return implies the response identifier was stored
    for cs, (mask, hn) in sorted(rows.items()):
        if hn not in m.funcs:
            continue
        pe = PEval(m, hn)
        pe.store_filter = lambda k, f: f == ('CO_IF_FRM', 'Identifier')
        trs = pe.run({'frm->Identifier': RX, 'frm->Data[0]': cs})
        for t in trs:
            ids = [e[2] for e in t.stores()]
            site = '%s return %s' % (hn, t.ret)
            bad = None
            if t.ret is None or t.ret == 0:
                bad = 'may return %s' % t.ret
            elif t.ret > 0 and ids[-1:] != [TX]:
                bad = 'positive result without storing identifier 7E4h'
            if bad:
                ctx.ob(P, 'RF2-lss-ret', hn, site, None)
                ctx.find(P, 'RF2-lss-ret', hn, 'ret', m.loc(hn, m.funcs[hn].line), '%s: %s' % (hn, bad))
            else:
                ctx.ob(P, 'RF2-lss-ret', hn, site, 'non-zero; answer identifier stored' if t.ret > 0 else 'non-zero, silent')


def load_on_reset(ctx):
    m = ctx.m
    for (fname, inputs, what) in (('CONmtReset', {'type': m.enum('CO_RESET_COM'), 'nmt': 1}, 'reset communication'),
                                  ('CONmtReset', {'type': m.enum('CO_RESET_NODE'), 'nmt': 1}, 'reset node'),
                                  ('CONodeInit', {}, 'node initialisation')):
        pe = PEval(m, fname)
        pe.store_filter = lambda k, f: False
        trs = pe.run(inputs)
        site = '%s (%s)' % (fname, what)
        bad = None
        for t in trs:
            names = t.call_names()
            if 'COLssLoad' not in names:
                bad = 'a path does not load the stored LSS configuration'
            elif fname == 'CONmtReset':
                # load before the boot-up frame and before the servers take their identifiers from the node id
                for later in ('CONmtBootup', 'COSdoInit'):
                    if later in names and names.index(later) < names.index('COLssLoad'):
                        bad = '%s runs before the stored node id is loaded' % later
            if 'COLssInit' not in names and not (fname == 'CONodeInit' and 'CODictInit' in names and 'CONmtInit' not in names):
                bad = 'a path does not re-initialise the LSS slave'
        if bad:
            ctx.ob(P + ['C20'], 'RF9-lss', fname, site, None)
            ctx.find(P + ['C20'], 'RF9-lss', fname, 'lss-load:%s' % what, m.loc(fname, m.funcs[fname].line), '%s: %s' % (what, bad))
        else:
            ctx.ob(P + ['C20'], 'RF9-lss', fname, site, 'COLssLoad and COLssInit on every path (%d traces)' % len(trs))


def loaded_rate_used(ctx):
    """node initialisation enables the CAN controller with the bit rate COLssLoad delivered (the stored LSS
    configuration), not with the default of the node specification"""
    m = ctx.m
    f = 'CONodeInit'
    pe = PEval(m, f)
    pe.record_sets = False
    pe.store_filter = lambda k, fld: False
    pe.keep_prefixes = ('node->Baudrate', 'node->NodeId')
    trs = pe.run({'node': 1, 'spec': 1, 'spec->Baudrate': 250000, 'spec->NodeId': 1, 'call:COLssLoad': 0, 'call:CODictInit': 5,
                  'call:CODictObjInit': 0, 'post:COLssLoad': {'node->Baudrate': 500000, 'node->NodeId': 0x20}})
    bad = None
    seen = False
    for t in trs:
        for c in t.calls():
            if c[1] == 'COIfCanEnable':
                seen = True
                if c[2][1] != 500000:
                    bad = 'COIfCanEnable is called with %s, the stored configuration says 500000 (specification default 250000)' % c[2][1]
    site = 'CONodeInit: CAN controller enabled with the loaded bit rate'
    if not seen:
        bad = 'COIfCanEnable is not called'
    if bad:
        ctx.ob(P, 'RF9-lss', f, site, None)
        ctx.find(P, 'RF9-lss', f, 'loaded-rate', m.loc(f, m.funcs[f].line), bad)
    else:
        ctx.ob(P, 'RF9-lss', f, site, 'argument is node->Baudrate after COLssLoad')


def run(ctx):
    m = ctx.m
    if 'COLssCheck' not in m.funcs:
        raise AnalysisBroken('LSS is not part of this build configuration')
    rows, mode_val = service_table(ctx)
    if rows is None:
        return
    check_dispatch(ctx, rows, mode_val)
    sequences(ctx, rows, mode_val)
    config_services(ctx, rows, mode_val)
    load_on_reset(ctx)
    loaded_rate_used(ctx)


def init_covers_state(ctx):
    """COLssInit is what reset communication uses to return the LSS slave to the state of a fresh node.  Every field of the
    LSS record that some handler CONSULTS in a condition (the mode, the progress of the selective / identify sequences, the
    stored flag, the pending bit rate) is stored by COLssInit on every path past its argument checks - a state field the
    initialiser forgets keeps a half-finished sequence alive across the reset."""
    m = ctx.m
    f = 'COLssInit'
    m.need(f)
    props = ['C18', 'C20']
    consulted = {}
    for fn_name, fn in m.funcs.items():
        if not fn.unit.endswith('co_lss.c'):
            continue
        g2 = m.cfg(fn_name)
        for nd in g2.nodes:
            if nd.kind in ('br', 'sw') and nd.x is not None:
                for n in walk(nd.x):
                    if n.k == 'mem' and n.field and n.field[0] == 'CO_LSS':
                        consulted.setdefault(n.field, fn_name)
    ctx.require_min(props, 'RF9-lss-init', len(consulted), 3, 'LSS state fields consulted by the handlers')
    g = m.cfg(f)
    first = None
    for nd in g.nodes:
        if nd.x is not None and nd.kind == 'stmt' and any(l.k == 'mem' and l.field and l.field[0] == 'CO_LSS'
                                                         for (p_, rhs_, n_) in flow.assigned_paths(nd.x) for l in [strip(n_.kids[0])] if n_.k != 'var'):
            if first is None or nd.line < first.line:
                first = nd
    if first is None:
        ctx.broke(props, 'RF9-lss-init: COLssInit stores no field of the LSS record')
        return
    for fld, reader in sorted(consulted.items()):
        stores = set(nd.id for nd in g.nodes if nd.x is not None and m.field_stores(nd.x, fld))
        site = 'COLssInit resets CO_LSS.%s (consulted by %s)' % (fld[1], reader)
        r = flow.reach_from(g, first.id, avoid=stores, include_start=(first.id not in stores))
        if first.id not in stores and g.exit.id in r or (not stores):
            ctx.ob(props, 'RF9-lss-init', f, site, None)
            ctx.find(props, 'RF9-lss-init', f, 'not-reset:%s' % fld[1], m.loc(f, m.funcs[f].line),
                     'COLssInit does not store CO_LSS.%s on every path, but %s branches on it: after a reset communication the LSS slave '
                     'continues with the value the previous session left (a half-finished selective switch / identify sequence '
                     'completes with a single request)' % (fld[1], reader))
        else:
            ctx.ob(props, 'RF9-lss-init', f, site, 'stored on every path past the argument checks')


_run_lss = run


def run(ctx):
    r = _run_lss(ctx)
    init_covers_state(ctx)
    return r
