"""EMCY rules (C15): transition gating, send gates (NMT + COB-ID valid), frame shape,
1003h write rule, history ring shape - by folding each function over its input classes."""
from canalyze.ir import is_pointer, walk, strip, const_eval, show, callee_name
from canalyze.peval import PEval
from rules.p_nmt import _mask_gate, mode_table, MODES, GATE_MODES

P = ['C15']


def _run(m, fname, inputs, filt=None):
    pe = PEval(m, fname)
    pe.record_sets = False
    if filt is not None:
        pe.store_filter = filt
    base = {}
    for prm in m.funcs[fname].params:
        if is_pointer(prm[2]):
            base[prm[0]] = 1
    base.update(inputs)
    return pe.run(base)


def transitions(ctx):
    m = ctx.m
    m.need('COEmcySet', 'COEmcyClr', 'COEmcyReset', 'COEmcySend', 'COEmcyUpdate', 'COEmcySetErr')
    for f, state in (('COEmcySet', 1), ('COEmcyClr', 0)):
        for change in (0, 1):
            trs = _run(m, f, {'err': 3, 'call:COEmcySetErr': change})
            site = '%s with transition=%d' % (f, change)
            bad = None
            for t in trs:
                names = [n for n in t.call_names() if n in ('COEmcyUpdate', 'COEmcySend', 'COEmcySetErr')]
                want = ['COEmcySetErr'] + (['COEmcyUpdate', 'COEmcySend'] if change else [])
                if names != want:
                    bad = 'calls %s, required %s' % (names, want)
                for c in t.calls():
                    if c[1] == 'COEmcySetErr' and c[2][1:] != [3, state]:
                        bad = 'transition detection called with %s' % (c[2][1:],)
                    if c[1] in ('COEmcyUpdate', 'COEmcySend') and (c[2][1] != 3 or c[2][-1] != state):
                        bad = '%s called with error %s state %s' % (c[1], c[2][1], c[2][-1])
            if bad:
                ctx.ob(P, 'RF2-emcy-transition', f, site, None)
                ctx.find(P, 'RF2-emcy-transition', f, 'transition:%d' % change, m.loc(f, m.funcs[f].line), '%s: %s' % (site, bad))
            else:
                ctx.ob(P, 'RF2-emcy-transition', f, site, 'register update and one frame only on a real transition')
    # transition detection itself
    e_ = min(10, const_eval_name(m, 'CO_EMCY_N') - 2)       # an error number inside the configured range
    eb, ebit = e_ >> 3, 1 << (e_ & 7)
    other = 0x80 if ebit != 0x80 else 0x40
    for cur in (0, 1):
        for state in (0, 1):
            trs = _run(m, 'COEmcySetErr', {'err': e_, 'state': state, 'emcy->Err[%d]' % eb: (ebit if cur else 0) | other},
                       filt=lambda k, f: f == ('CO_EMCY', 'Err'))
            site = 'COEmcySetErr active=%d request=%d' % (cur, state)
            bad = None
            if len(trs) != 1:
                bad = '%d traces' % len(trs)
            else:
                t = trs[0]
                exp_ret = 1 if cur != state else 0
                st = [e[2] for e in t.stores()]
                exp_st = ([(other | ebit) if state else other] if cur != state else [])
                if t.ret != exp_ret or st != exp_st:
                    bad = 'returns %s stores %s, required %d / %s' % (t.ret, st, exp_ret, exp_st)
            if bad:
                ctx.ob(P, 'RF2-emcy-transition', 'COEmcySetErr', site, None)
                ctx.find(P, 'RF2-emcy-transition', 'COEmcySetErr', 'detect:%d:%d' % (cur, state),
                         m.loc('COEmcySetErr', m.funcs['COEmcySetErr'].line), '%s: %s' % (site, bad))
            else:
                ctx.ob(P, 'RF2-emcy-transition', 'COEmcySetErr', site, 'change reported iff the state differs; only that bit touched')
    # silent reset sends nothing
    for silent in (0, 1):
        pe = PEval(m, 'COEmcyReset')
        pe.record_sets = False
        pe.store_filter = lambda k, f: f == ('CO_EMCY', 'Err')
        trs = pe.run({'emcy': 1, 'silent': silent, 'call:COEmcySetErr': 1})
        bad = None
        for t in trs:
            names = set(t.call_names())
            if silent and ('COEmcySend' in names or 'COEmcyClr' in names):
                bad = 'silent reset transmits'
            # (a reset that clears the status bytes itself is judged by the coverage rows below)
            if silent and 'COEmcyUpdate' not in names and not t.stores():
                bad = 'silent reset does not update register and counters'
            if not silent and 'COEmcyClr' not in names:
                bad = 'non-silent reset does not clear through COEmcyClr'
        site = 'COEmcyReset silent=%d' % silent
        if bad:
            ctx.ob(P, 'RF2-emcy-transition', 'COEmcyReset', site, None)
            ctx.find(P + (['C20'] if silent else []), 'RF2-emcy-transition', 'COEmcyReset', 'reset:%d' % silent, m.loc('COEmcyReset', m.funcs['COEmcyReset'].line), bad)
        else:
            ctx.ob(P, 'RF2-emcy-transition', 'COEmcyReset', site, 'ok')
    # coverage: every error number whose status bit is set is cleared (a scan may skip status bytes that are zero)
    N = const_eval_name(m, 'CO_EMCY_N')
    # the scan bound must be the number of error codes the setters accept (their clamp `err >= CO_EMCY_N`)
    clamp = None
    for hf in m.helper_closure('COEmcySetErr'):
        for x in walk(m.funcs[hf].body):
            if x.k == 'bin' and x.op in ('>=', '>') and strip(x.kids[0]).k == 'ref' and strip(x.kids[0]).refk == 'ParmVarDecl':
                v = const_eval(x.kids[1], m)
                if v is not None:
                    clamp = v if x.op == '>=' else v + 1
    if clamp is None:
        ctx.broke(P, 'COEmcySetErr: clamp of the error number not found')
    elif clamp != N:
        ctx.ob(P, 'RF2-emcy-transition', 'COEmcyReset', 'scan bound', None)
        ctx.find(P + ['C20'], 'RF2-emcy-transition', 'COEmcyReset', 'reset-bound', m.loc('COEmcyReset', m.funcs['COEmcyReset'].line),
                 'COEmcyReset scans error numbers below %d but the setters accept numbers below %d' % (N, clamp))
    else:
        ctx.ob(P, 'RF2-emcy-transition', 'COEmcyReset', 'scan bound', 'equals the setters\' clamp (%d)' % N)
    nbytes = (N + 7) // 8 if N else 0
    for silent in (0, 1):
        for pat in range(1, 1 << nbytes):
            pe = PEval(m, 'COEmcyReset')
            pe.record_sets = False
            pe.store_filter = lambda k, f: f in (('CO_EMCY', 'Err'), ('CO_EMCY', 'Cnt'))
            # the scan reads each status byte before the errors of that byte are cleared: the initial values stay valid
            pe.keep_prefixes = ('emcy->Err',)
            inputs = {'emcy': 1, 'silent': silent, 'call:COEmcySetErr': 1}
            for k in range(nbytes):
                inputs['emcy->Err[%d]' % k] = 0xFF if (pat >> k) & 1 else 0
            trs = pe.run(inputs)
            need = set(n for n in range(N) if (pat >> (n >> 3)) & 1)
            bad = None
            for t in trs:
                got = set(c[2][1] for c in t.calls() if c[1] == ('COEmcySetErr' if silent else 'COEmcyClr'))
                # a reset may also clear the status bytes directly; it then owns the per-class counters as well
                direct = False
                import re as _re
                for e in t.stores():
                    mo = _re.search(r'Err\[(\d+)\]$', e[1])
                    if mo and e[2] is not None:
                        direct = True
                        got |= set(n for n in range(N) if (n >> 3) == int(mo.group(1)) and not (e[2] >> (n & 7)) & 1)
                miss = sorted(need - got)
                if miss:
                    bad = 'active errors %s are not cleared' % miss[:8]
                elif direct:
                    ncnt = _extent(m, ('CO_EMCY', 'Cnt'))
                    zeroed = set(int(_re.search(r'Cnt\[(\d+)\]$', e[1]).group(1)) for e in t.stores()
                                 if _re.search(r'Cnt\[(\d+)\]$', e[1]) and e[2] == 0)
                    left = sorted(set(range(ncnt)) - zeroed)
                    if left:
                        bad = 'the status bytes are cleared directly but the error-class counters %s keep their values: the ' \
                              'error register still shows these classes after the reset' % left
            site = 'COEmcyReset silent=%d status bytes %s' % (silent, ['%02X' % inputs['emcy->Err[%d]' % k] for k in range(nbytes)])
            if bad:
                ctx.ob(P, 'RF2-emcy-transition', 'COEmcyReset', site, None)
                ctx.find(P + ['C20'] if silent else P, 'RF2-emcy-transition', 'COEmcyReset', 'reset-coverage:%d' % silent,
                         m.loc('COEmcyReset', m.funcs['COEmcyReset'].line), '%s: %s' % (site, bad))
            else:
                ctx.ob(P, 'RF2-emcy-transition', 'COEmcyReset', site, 'every active error number is cleared')


def _extent(m, fld):
    from canalyze.ir import array_extent
    for (fn_, ty, cty) in m.records.get(fld[0], ()):
        if fn_ == fld[1]:
            return array_extent(cty) or 0
    return 0


def getter_table(ctx):
    """COEmcyGetErr / COEmcySetErr address the same bit: for every error number b, with exactly bit b of the status bytes
    set, the getter answers 1 for b and 0 for every other number (exhaustive over the configured range)."""
    m = ctx.m
    f = 'COEmcyGetErr'
    if f not in m.funcs:
        f = 'COEmcyGet'          # getter inlined into the API function
    m.need(f)
    N = const_eval_name(m, 'CO_EMCY_N')
    nbytes = (N + 7) // 8
    wrong = []
    for b in range(N):
        base = dict(('emcy->Err[%d]' % k, (1 << (b & 7)) if k == (b >> 3) else 0) for k in range(nbytes))
        for e in range(N):
            pe = PEval(m, f)
            pe.record_sets = False
            pe.store_filter = lambda k, fld: False
            inputs = dict(base)
            inputs.update({'emcy': 1, 'err': e, 'call:COEmcyCheck': e})
            trs = pe.run(inputs)
            got = set(t.ret for t in trs)
            if got != set([1 if e == b else 0]):
                wrong.append((b, e, sorted(got, key=str)))
    site = '%s: %d x %d (active error, queried error) pairs' % (f, N, N)
    if wrong:
        b, e, got = wrong[0]
        ctx.ob(P, 'RF1-emcy-getter', f, site, None)
        ctx.find(P, 'RF1-emcy-getter', f, 'getter-bit', m.loc(f, m.funcs[f].line),
                 'with only error %d active, the state of error %d is reported as %s (%d wrong pairs): getter and setter do not '
                 'address the same bit' % (b, e, got, len(wrong)))
    else:
        ctx.ob(P, 'RF1-emcy-getter', f, site, 'reports 1 exactly for the active error')


def const_eval_name(m, name):
    # value of an object-like macro / enumerator used as the loop bound of COEmcyReset
    g = m.cfg('COEmcyReset')
    for lp in g.loops:
        for c in lp.cond_nodes:
            x = strip(g.nodes[c].x)
            if x.k == 'bin' and x.op == '<':
                v = const_eval(x.kids[1], m)
                if v is not None:
                    return v
    from canalyze.front import AnalysisBroken
    raise AnalysisBroken('COEmcyReset: scan loop with a constant bound not found')


def send_gates(ctx):
    m = ctx.m
    f = 'COEmcySend'
    mt = mode_table(m)
    sites = [(fn, c) for (fn, c) in m.call_sites('COIfCanSend') if fn == f]
    ctx.require_min(P, 'RF2-emcy-gate', len(sites), 1, 'transmission site in COEmcySend')
    for (fn, call) in sites:
        nid = m.node_of(f, call)
        masks = _mask_gate(m, f, nid)
        ok = any(set(mo for mo in MODES if mt[mo] & mk) == GATE_MODES['EMCY'] for mk in masks)
        site = '%s NMT gate' % m.loc(f, call)
        if ok:
            ctx.ob(P, 'RF2-emcy-gate', f, site, 'EMCY allowed mask tested on every path')
        else:
            ctx.ob(P, 'RF2-emcy-gate', f, site, None)
            ctx.find(P, 'RF2-emcy-gate', f, 'nmt-gate', m.loc(f, call), 'EMCY frame sent without the NMT gate (PRE-OPERATIONAL/OPERATIONAL only)')
        # COB-ID valid: bit 31 of the value loaded from 1014h tested before the send
        ok2 = False
        for fact in (m.facts(f).get(nid) or ()):
            x = strip(fact.x)
            if x.k == 'bin' and x.op in ('==', '!='):
                a, b = x.kids
                for (l, r) in ((a, b), (b, a)):
                    ls = strip(l)
                    if ls.k == 'bin' and ls.op == '&' and const_eval(r, m) == 0:
                        for (u, v) in ((ls.kids[0], ls.kids[1]), (ls.kids[1], ls.kids[0])):
                            if const_eval(v, m) == (1 << 31) and fact.pol == (x.op == '=='):
                                ok2 = True
        site = '%s COB-ID valid gate' % m.loc(f, call)
        if ok2:
            ctx.ob(P, 'RF2-emcy-gate', f, site, 'bit 31 of 1014h tested clear on every path to the send')
        else:
            ctx.ob(P, 'RF2-emcy-gate', f, site, None)
            ctx.find(P, 'RF2-emcy-gate', f, 'cobid-valid-gate', m.loc(f, call),
                     'the EMCY frame is transmitted without testing the valid bit (31) of COB-ID 1014h: a disabled EMCY '
                     'producer still transmits, with bit 31 in the identifier (sibling services SDO/TPDO/RPDO/SYNC test theirs)')


def frame_shape(ctx):
    m = ctx.m
    f = 'COEmcySend'
    for state in (0, 1):
        for has_usr in (0, 1):
            inputs = {'err': 3, 'state': state, 'usr': has_usr, 'node->Nmt.Allowed': 0xFF, 'emcy->Node->Nmt.Allowed': 0xFF,
                      'emcy->Root[3].Code': 0x1234, 'out:CODictRdLong:2': 0x81}
            for i in range(5):
                inputs['usr->Emcy[%d]' % i] = 0xA0 + i
            trs = _run(m, f, inputs, filt=lambda k, fld: fld is not None and fld[0] == 'CO_IF_FRM')
            site = 'EMCY frame state=%d manufacturer-bytes=%d' % (state, has_usr)
            bad = None
            sent = [t for t in trs if 'COIfCanSend' in t.call_names()]
            if not sent:
                bad = 'no path transmits'
            for t in sent:
                st = {}
                for e in t.stores():
                    st[e[1]] = e[2]
                exp = {'frm.DLC': 8, 'frm.Data[0]': 0x34 if state else 0, 'frm.Data[1]': 0x12 if state else 0}
                for i in range(5):
                    exp['frm.Data[%d]' % (3 + i)] = (0xA0 + i) if has_usr else 0
                for k, v in exp.items():
                    if st.get(k) != v:
                        bad = '%s = %s, required %s' % (k, st.get(k), v)
                rd = [c for c in t.calls() if c[1] == 'CODictRdByte']
                if not rd or rd[0][2][1] != 0x10010000:
                    bad = 'error register 1001h:00 is not read into the frame'
                else:
                    a = strip(rd[0][4].kids[3])
                    if show(a) != '&frm.Data[2]':
                        bad = 'error register is placed at %s, required byte 2' % show(a)
                ri = [c for c in t.calls() if c[1] == 'CODictRdLong']
                if not ri or ri[0][2][1] != 0x10140000:
                    bad = 'identifier is not taken from 1014h:00'
            if bad:
                ctx.ob(P, 'RF1-emcy-frame', f, site, None)
                ctx.find(P, 'RF1-emcy-frame', f, 'frame:%d:%d' % (state, has_usr), m.loc(f, m.funcs[f].line), '%s: %s' % (site, bad))
            else:
                ctx.ob(P, 'RF1-emcy-frame', f, site, 'code low/high, register in byte 2, five manufacturer bytes, DLC 8')


def hist_write(ctx):
    m = ctx.m
    f = 'COTEmcyHistWrite'
    m.need(f)
    NONE = m.enum('CO_ERR_NONE')
    RANGE = m.enum('CO_ERR_OBJ_RANGE')
    for sub in (0, 1, 3):
        for val in (0, 1, 5, 255):
            trs = _run(m, f, {'obj->Key': 0x10030000 | (sub << 8), '*val': val})
            site = '1003h:%02X := %d' % (sub, val)
            bad = None
            if len(trs) != 1:
                bad = '%d traces' % len(trs)
            else:
                t = trs[0]
                reset = 'COEmcyHistReset' in t.call_names()
                if sub == 0 and val == 0:
                    if not reset or t.ret != NONE:
                        bad = 'writing 0 does not clear the history (returns %s)' % t.ret
                else:
                    if reset or t.ret in (NONE, None):
                        bad = 'write is not refused (reset=%s returns %s)' % (reset, t.ret)
                    if sub == 0 and t.ret != RANGE:
                        bad = 'non-zero value refused with %s, required CO_ERR_OBJ_RANGE (0609 0030h)' % t.ret
            if bad:
                ctx.ob(P, 'RF1-emcy-hist', f, site, None)
                ctx.find(P, 'RF1-emcy-hist', f, 'write:%d:%d' % (sub, val), m.loc(f, m.funcs[f].line), '%s: %s' % (site, bad))
            else:
                ctx.ob(P, 'RF1-emcy-hist', f, site, 'cleared' if (sub == 0 and val == 0) else 'refused')


def ring_shape(ctx):
    m = ctx.m
    f = 'COEmcyHistAdd'
    m.need(f)
    for mx in (1, 3, 8):
        for off in range(0, mx + 1):
            for num in range(0, mx + 1):
                trs = _run(m, f, {'err': 2, 'usr': 0, 'emcy->Hist.Max': mx, 'emcy->Hist.Off': off, 'emcy->Hist.Num': num,
                                  'emcy->Root[2].Code': 0x1000, 'call:CODictFind': 1},
                           filt=lambda k, fld: fld is not None and fld[0] == 'CO_EMCY_HIST')
                site = 'history depth=%d position=%d fill=%d' % (mx, off, num)
                bad = None
                if len(trs) != 1:
                    bad = '%d traces' % len(trs)
                else:
                    t = trs[0]
                    st = {}
                    for e in t.stores():
                        st[e[1]] = e[2]
                    eo = off % mx + 1 if off < mx else 1
                    en = min(num + 1, mx)
                    if st.get('emcy->Hist.Off', off) != eo:
                        bad = 'ring position becomes %s, required %d' % (st.get('emcy->Hist.Off', off), eo)
                    if st.get('emcy->Hist.Num', num) != en:
                        bad = 'fill level becomes %s, required %d' % (st.get('emcy->Hist.Num', num), en)
                    finds = [c[2][1] for c in t.calls() if c[1] == 'CODictFind']
                    if not finds or finds[0] != (0x10030000 | (eo << 8)):
                        bad = 'entry written to %s, required 1003h:%02X' % ([hex(x) if x is not None else '?' for x in finds[:1]], eo)
                if bad:
                    ctx.ob(P, 'RF1-emcy-ring', f, site, None)
                    ctx.find(P, 'RF1-emcy-ring', f, 'ring:%s' % bad.split(',')[0].split(' becomes')[0], m.loc(f, m.funcs[f].line), '%s: %s' % (site, bad))
                else:
                    ctx.ob(P, 'RF1-emcy-ring', f, site, 'position wraps to 1 after the depth, fill saturates')
    # inactive history: nothing happens
    trs = _run(m, f, {'err': 2, 'usr': 0, 'emcy->Hist.Max': 0, 'emcy->Hist.Off': 0, 'emcy->Hist.Num': 0})
    ok = all(not t.calls() and not t.stores() for t in trs)
    if ok:
        ctx.ob(P, 'RF1-emcy-ring', f, 'history absent (depth 0)', 'no access')
    else:
        ctx.ob(P, 'RF1-emcy-ring', f, 'history absent (depth 0)', None)
        ctx.find(P, 'RF1-emcy-ring', f, 'ring:absent', m.loc(f, m.funcs[f].line), 'history of depth 0 is accessed')


def register_step(ctx):
    """COEmcyUpdate preserves the invariant  bit k of 1001h <=> Cnt[k] > 0 (k >= 1),  bit 0 <=> any Cnt > 0,
    decided by folding the update over every consistent abstract pre-state (counts 0/1/2 in three classes)"""
    m = ctx.m
    f = 'COEmcyUpdate'
    m.need(f)
    import itertools
    n = 0
    classes = (0, 2, 5)                 # generic class 0 and two others
    for k in classes:
        for state in (0, 1):
            for cnts in itertools.product((0, 1, 2), repeat=3):
                c = dict(zip(classes, cnts))
                if state == 0 and c[k] == 0:
                    continue            # clearing an error that is not active does not reach the update
                reg = 0
                for cl, v in c.items():
                    if v and cl:
                        reg |= (1 << cl)
                if any(c.values()):
                    reg |= 1
                inputs = {'emcy': 1, 'usr': 0, 'err': 3, 'state': state, 'emcy->Node': 1, 'emcy->Root': 1,
                          'emcy->Root[3].Reg': k, 'out:CODictRdByte:2': reg, 'call:CODictRdByte': 0}
                for cl in range(8):
                    inputs['emcy->Cnt[%d]' % cl] = c.get(cl, 0)
                pe = PEval(m, f)
                pe.record_sets = False
                pe.keep_prefixes = ('emcy->Cnt', 'emcy->Root')
                pe.store_filter = lambda key, fld: fld == ('CO_EMCY', 'Cnt')
                trs = pe.run(inputs)
                n += 1
                site = 'class %d %s, counts %s, register %02Xh' % (k, 'set' if state else 'clear', c, reg)
                bad = None
                if len(trs) != 1:
                    bad = '%d paths' % len(trs)
                else:
                    t = trs[0]
                    wr = [c_ for c_ in t.calls() if c_[1] == 'CODictWrByte']
                    c2 = dict(c)
                    c2[k] = c[k] + (1 if state else -1)
                    exp = 0
                    for cl, v in c2.items():
                        if v and cl:
                            exp |= (1 << cl)
                    if any(c2.values()):
                        exp |= 1
                    cnt_st = dict((e[1], e[2]) for e in t.stores())
                    if cnt_st.get('emcy->Cnt[%d]' % k) != c2[k]:
                        bad = 'class counter becomes %s, required %d' % (cnt_st.get('emcy->Cnt[%d]' % k), c2[k])
                    elif not wr or wr[0][2][1] != 0x10010000 or wr[0][2][2] != exp:
                        bad = 'error register written %s, required %02Xh (bit k iff an error of class k is active, bit 0 iff ' \
                              'any error is active; counts after the step %s)' % (['%02X' % (c_[2][2] or 0) for c_ in wr], exp, c2)
                    hist = t.call_names().count('COEmcyHistAdd')
                    if hist != (1 if state else 0):
                        bad = 'history entries added: %d' % hist
                if bad:
                    ctx.ob(P, 'RF1-emcy-register', f, site, None)
                    ctx.find(P, 'RF1-emcy-register', f, 'register:%s' % bad.split(',')[0][:40], m.loc(f, m.funcs[f].line), '%s: %s' % (site, bad))
                else:
                    ctx.ob(P, 'RF1-emcy-register', f, site, 'invariant preserved')
    ctx.inst('RF1.emcy-register.states', n)
    # COEmcyCnt sums all class counters
    trs = _run(m, 'COEmcyCnt', dict(('emcy->Cnt[%d]' % i, i) for i in range(8)))
    bad = None
    for t in trs:
        if t.ret != sum(range(8)):
            bad = 'returns %s for counters 0..7' % t.ret
    if bad:
        ctx.ob(P, 'RF1-emcy-register', 'COEmcyCnt', 'sum of class counters', None)
        ctx.find(P, 'RF1-emcy-register', 'COEmcyCnt', 'count', m.loc('COEmcyCnt', m.funcs['COEmcyCnt'].line), bad)
    else:
        ctx.ob(P, 'RF1-emcy-register', 'COEmcyCnt', 'sum of class counters', 'ok')


def hist_read(ctx):
    """1003h:n reads the n-th newest entry: ring slot = Off-(n-1), wrapping by the depth; entries above the fill
    level read 0; the reset clears position and fill level"""
    m = ctx.m
    f = 'COTEmcyHistRead'
    m.need(f, 'COEmcyHistReset')
    NONE = m.enum('CO_ERR_NONE')
    for mx in (1, 3, 5):
        for num in range(0, mx + 1):
            for off in range(0, mx + 1):
                if num and not off:
                    continue
                if num < mx and off != num:
                    continue        # before the first wrap the newest entry sits at position == fill level
                for sub in range(1, mx + 1):
                    trs = _run(m, f, {'obj->Key': 0x10030000 | (sub << 8), 'node->Emcy.Hist.Max': mx, 'node->Emcy.Hist.Num': num,
                                      'node->Emcy.Hist.Off': off, 'emcy->Hist.Max': mx, 'emcy->Hist.Num': num, 'emcy->Hist.Off': off,
                                      'call:CODictFind': 1, 'call:COTInt32Read': NONE, 'size': 4},
                               filt=lambda k, fld: True)
                    site = '1003h:%d depth=%d fill=%d position=%d' % (sub, mx, num, off)
                    bad = None
                    for t in trs:
                        finds = [c[2][1] for c in t.calls() if c[1] == 'CODictFind']
                        if sub <= num:
                            slot = off - (sub - 1)
                            if slot < 1:
                                slot += mx
                            if finds != [0x10030000 | (slot << 8)]:
                                bad = 'reads ring slot %s, required slot %d (newest first)' % (
                                    [((x or 0) >> 8) & 0xFF for x in finds], slot)
                        else:
                            if finds:
                                bad = 'entry above the fill level reads ring slot %s' % [((x or 0) >> 8) & 0xFF for x in finds]
                    if bad:
                        ctx.ob(P, 'RF1-emcy-histread', f, site, None)
                        ctx.find(P + ['C01'], 'RF1-emcy-histread', f, 'histread:%s' % bad.split(',')[0][:30], m.loc(f, m.funcs[f].line), '%s: %s' % (site, bad))
                    else:
                        ctx.ob(P, 'RF1-emcy-histread', f, site, 'ok')
    f = 'COEmcyHistReset'
    trs = _run(m, f, {'emcy->Node': 1, 'call:CODictFind': 1, 'emcy->Hist.Max': 3, 'emcy->Hist.Off': 2, 'emcy->Hist.Num': 2},
               filt=lambda k, fld: fld is not None and fld[0] == 'CO_EMCY_HIST')
    bad = None
    for t in trs:
        d = dict((e[1], e[2]) for e in t.stores())
        finds = [c[2][1] for c in t.calls() if c[1] == 'CODictFind']
        if d.get('emcy->Hist.Off') != 0 or d.get('emcy->Hist.Num') != 0:
            bad = 'after the reset position=%s fill=%s (both must be 0)' % (d.get('emcy->Hist.Off', 'unchanged'), d.get('emcy->Hist.Num', 'unchanged'))
        elif finds != [0x10030000, 0x10030100, 0x10030200, 0x10030300]:
            bad = 'cleared entries %s' % [hex(x) if x is not None else None for x in finds]
    if bad:
        ctx.ob(P, 'RF1-emcy-histread', f, 'history reset', None)
        ctx.find(P + ['C01'], 'RF1-emcy-histread', f, 'histreset', m.loc(f, m.funcs[f].line), 'COEmcyHistReset: %s' % bad)
    else:
        ctx.ob(P, 'RF1-emcy-histread', f, 'history reset', 'count, all entries, position and fill level cleared')


def run(ctx):
    getter_table(ctx)
    register_step(ctx)
    hist_read(ctx)
    transitions(ctx)
    send_gates(ctx)
    frame_shape(ctx)
    hist_write(ctx)
    ring_shape(ctx)
