"""Dictionary and typed access rules (C06): init walk, binary-search shape, key masking, typed accessor
and integer-type sibling agreement, buffer length path, domain clipping."""
from canalyze.ir import is_pointer, walk, strip, strip_impl, const_eval, show, callee_name, int_type
from canalyze import flow
from canalyze.peval import PEval

P = ['C06']
KEYMASK = 0xFFFFFF00
FL_W, FL_R, FL_P, FL_A, FL_N, FL_D = 0x01, 0x02, 0x04, 0x08, 0x40, 0x80


def _run(m, fname, inputs, filt=None, sets=False):
    pe = PEval(m, fname)
    pe.record_sets = sets
    if filt is not None:
        pe.store_filter = filt
    base = {}
    for prm in m.funcs[fname].params:
        if is_pointer(prm[2]):
            base[prm[0]] = 1
    base.update(inputs)
    return pe.run(base)


# ------------------------------------------------------------------ (a) init walk
def init_walk(ctx):
    m = ctx.m
    f = 'CODictObjInit'
    m.need(f, 'COObjInit')
    g = m.cfg(f)
    loops = [l for l in g.loops]
    site = 'CODictObjInit walk'
    if len(loops) != 1:
        ctx.ob(P + ['C20'], 'RF2-dict-init', f, site, None)
        ctx.find(P, 'RF2-dict-init', f, 'loop-count', m.loc(f, m.funcs[f].line),
                 'the initialisation walk has %d loops (one flat loop expected: each entry exactly once)' % len(loops))
        return
    lp = loops[0]
    calls = []
    cursor = None
    for nid in lp.nodes:
        node = g.nodes[nid]
        if node.x is None:
            continue
        for c in walk(node.x):
            if c.k == 'call' and callee_name(c) == 'COObjInit':
                a = strip(c.kids[1])
                if a.k == 'ref':
                    calls.append(nid)
                    cursor = a
    if not calls or cursor is None:
        ctx.ob(P, 'RF2-dict-init', f, site, None)
        ctx.find(P, 'RF2-dict-init', f, 'no-init-call', m.loc(f, m.funcs[f].line), 'no call of COObjInit on the cursor inside the walk')
        return
    adv = []
    for nid in lp.nodes:
        node = g.nodes[nid]
        if node.x is None:
            continue
        for (p, rhs, n) in flow.assigned_paths(node.x):
            if p is not None and len(p) == 1 and p[0][1] == cursor.ref:
                adv.append(nid)
    bad = None
    if len(adv) != 1:
        bad = 'the cursor is advanced at %d places per iteration' % len(adv)
    else:
        a = adv[0]
        body_entry = [t for (t, lab) in g.nodes[lp.cond_nodes[-1]].succ if t in lp.nodes]
        r = flow.reach_from(g, body_entry[0], avoid=set(calls), include_start=True) if body_entry else set()
        if a in r:
            bad = 'the cursor can advance past an entry the loop condition has just tested without initialising it ' \
                  '(some entry - on this tree shape the first one - is never initialised)'
        r2 = flow.reach_from(g, a, avoid=set([lp.head]))
        if set(calls) & r2:
            bad = 'an entry is initialised after the advance, i.e. before the loop condition has tested it (the end ' \
                  'marker could be initialised / an entry initialised twice)'
    # the loop condition tests the entry under the cursor
    cond_ok = False
    for cnid in lp.cond_nodes:
        for n in walk(g.nodes[cnid].x):
            if n.k == 'mem' and n.field == ('CO_OBJ', 'Key') and strip(n.kids[0]).k == 'ref' and strip(n.kids[0]).ref == cursor.ref:
                cond_ok = True
    if not cond_ok:
        bad = 'the loop condition does not test the key of the entry under the cursor (end marker)'
    # the walk ends ONLY at the end marker: an initialiser that reports an error must not keep the entries behind it from
    # being initialised (their type initialisers arm timers, activate consumers, rewind offsets)
    early = None
    for nid in lp.nodes:
        node = g.nodes[nid]
        for (t, lab) in node.succ:
            if t in lp.nodes or t == lp.head:
                continue
            tests_key = node.kind == 'br' and node.x is not None and any(
                n.k == 'mem' and n.field == ('CO_OBJ', 'Key') and strip(n.kids[0]).k == 'ref' and strip(n.kids[0]).ref == cursor.ref
                for n in walk(node.x))
            if not tests_key:
                early = node
    if early is not None:
        ctx.ob(P + ['C20'], 'RF2-dict-init', f, site + ' ends only at the end marker', None)
        ctx.find(P + ['C20'], 'RF2-dict-init', f, 'early-exit', m.loc(f, early.line or m.funcs[f].line),
                 'the initialisation walk can end before the end marker (%s): every entry behind that point keeps an '
                 'uninitialised type state (no heartbeat producer / consumer / SYNC activation, stale domain and string '
                 'offsets)' % (show(early.x) if early.x is not None else early.kind))
    else:
        ctx.ob(P + ['C20'], 'RF2-dict-init', f, site + ' ends only at the end marker', 'every loop exit is the end-marker test')
    if bad:
        ctx.ob(P, 'RF2-dict-init', f, site, None)
        ctx.find(P, 'RF2-dict-init', f, 'init-order', m.loc(f, g.nodes[adv[0]].line if adv else m.funcs[f].line), bad)
    else:
        ctx.ob(P, 'RF2-dict-init', f, site, 'every tested entry is initialised exactly once before the single advance')
    # CODictInit: count bounded by max and by the end marker
    f = 'CODictInit'
    g = m.cfg(f)
    fn = m.funcs[f]
    mx = [p for p in fn.params if p[0] == 'max']
    ok = False
    for lp2 in g.loops:
        conds = [g.nodes[c].x for c in lp2.cond_nodes]
        txt = ' '.join(show(c) for c in conds)
        if 'Key' in txt and 'max' in txt and any(strip(c).k == 'bin' and strip(c).op == '<' for c in conds):
            ok = True
    if ok:
        ctx.ob(P, 'RF2-dict-init', f, 'CODictInit count loop', 'stops at the end marker and below max')
    else:
        ctx.ob(P, 'RF2-dict-init', f, 'CODictInit count loop', None)
        ctx.find(P, 'RF2-dict-init', f, 'count-bound', m.loc(f, fn.line), 'the counting loop is not bounded by both the end marker and max')


# ------------------------------------------------------------------ (e)(g) search shape
def _masked_key(x, m):
    """x == (E & 0xFFFFFF00) with E loading CO_OBJ.Key  -> 'key' ; same mask on a variable -> ('var', ref)"""
    x = strip(x)
    if x is not None and x.k == 'bin' and x.op == '&':
        a, b = x.kids
        for (u, v) in ((a, b), (b, a)):
            if const_eval(v, m) == KEYMASK:
                u0 = strip(u)
                if u0.k == 'mem' and u0.field == ('CO_OBJ', 'Key'):
                    return ('key', u0)
                if u0.k == 'ref':
                    return ('var', u0.ref)
    return None


def search_shape(ctx):
    m = ctx.m
    f = 'CODictFind'
    m.need(f)
    g = m.cfg(f)
    fn = m.funcs[f]
    d = m.defs_of(f)
    loc0 = m.loc(f, fn.line)

    def fail(key, msg, line=None, broken=False):
        ctx.ob(P, 'RF-search', f, 'binary search shape', None)
        if broken:
            ctx.broke(P, 'RF-search: CODictFind is written in a form the shape rule does not recognise (%s)' % msg)
        else:
            ctx.find(P, 'RF-search', f, key, m.loc(f, line or fn.line), msg)

    if len(g.loops) != 1:
        return fail('loops', '%d loops' % len(g.loops), broken=True)
    lp = g.loops[0]
    # loop condition lo <= hi  (inclusive) or lo < hi (half open)
    if len(lp.cond_nodes) != 1:
        return fail('cond', 'compound loop condition', broken=True)
    c = strip(g.nodes[lp.cond_nodes[0]].x)
    if not (c.k == 'bin' and c.op in ('<=', '<', '>=', '>') and strip(c.kids[0]).k == 'ref' and strip(c.kids[1]).k == 'ref'):
        return fail('cond', 'loop condition %s' % show(c), broken=True)
    lo, hi = strip(c.kids[0]), strip(c.kids[1])
    if c.op in ('>=', '>'):
        lo, hi = hi, lo                   # `hi >= lo` is `lo <= hi`
    inclusive = c.op in ('<=', '>=')
    for v in (lo, hi):
        it = int_type(v.cty)
        if it is None:
            return fail('bounds-type', 'search bound %s is not an integer' % v.name, broken=True)
        if inclusive and not it[1]:
            return fail('unsigned-bounds', 'inclusive search range with unsigned bound `%s`: `hi = mid - 1` wraps below the '
                                           'first entry and the search reads far outside the dictionary' % v.name)
    # pattern variable: defined as key & mask
    pat_ok = None
    match = None
    direction = None
    for nid in lp.nodes:
        node = g.nodes[nid]
        if node.kind != 'br' or nid in lp.cond_nodes:
            continue
        x = strip(node.x)
        if x.k != 'bin':
            continue
        a, b = x.kids
        # ordering through a signed difference?
        for side in (a, b):
            s0 = strip_impl(side)
            s1 = strip(side)
            if s1.k == 'ref' and s1.refk == 'VarDecl':
                u = d.unique_def(nid, s1.ref)
                if u is not None:
                    r = u[1]
                    inner = strip(r)
                    if inner.k == 'bin' and inner.op == '-' and int_type(s1.cty) and int_type(s1.cty)[1]:
                        return fail('signed-difference',
                                    'the search decides on the sign of `%s = %s`: the difference of two 32-bit keys wraps when '
                                    'they are 80000000h or more apart, the search then turns the wrong way and existing '
                                    'entries are reported as missing' % (s1.name, show(r)), node.line)
        def _mk(side, nid=nid):
            # the masked element key may have been hoisted into a local (`dev = CO_GET_DEV(obj->Key)`)
            r = _masked_key(side, m)
            s1 = strip(side)
            if r is None and s1.k == 'ref' and s1.refk == 'VarDecl':
                u = d.unique_def(nid, s1.ref)
                if u is not None:
                    r2 = _masked_key(u[1], m)
                    if r2 is not None and r2[0] == 'key':
                        return r2
            return r
        ka, kb = _mk(a), _mk(b)
        if x.op == '==':
            match = (node, ka, kb, a, b)
        elif x.op in ('>', '<', '>=', '<='):
            direction = (node, ka, kb, a, b, x.op)
    if match is None or direction is None:
        return fail('branches', 'match / direction comparisons not found', broken=True)
    # both comparisons: masked element key against the pattern; pattern defined as masked search key
    for (node, ka, kb, a, b) in (match, direction[:5]):
        sides = [ka, kb]
        keyside = [s for s in sides if s is not None and s[0] == 'key']
        other = [strip(s_) for s_, k_ in ((a, ka), (b, kb)) if not (k_ is not None and k_[0] == 'key')]
        if len(keyside) != 1:
            return fail('unmasked-key', 'comparison %s does not mask the access flags out of the element key '
                                        '(& FFFFFF00h): entries would be found or missed depending on their flags' % show(node.x), node.line)
        o = other[0] if other else None
        if o is None:
            return fail('pattern', 'comparison %s' % show(node.x), node.line, broken=True)
        if o.k == 'ref':
            u = d.unique_def(node.id, o.ref)
            if u is None or _masked_key(u[1], m) is None:
                return fail('unmasked-pattern', 'the search pattern `%s` is not the search key with the flag byte masked out' % o.name, node.line)
        elif _masked_key(o, m) is None:
            return fail('unmasked-pattern', 'comparison %s does not mask the search key' % show(node.x), node.line)
        # unsigned 32-bit comparison
        for side in (a, b):
            it = int_type(strip_impl(side).cty)
            if it is None or it[1] or it[0] < 32:
                return fail('signed-compare', 'key comparison %s is not an unsigned 32-bit comparison' % show(node.x), node.line)
    # element index = mid, mid between the bounds
    elem = match[1][1] if match[1] is not None and match[1][0] == 'key' else match[2][1]
    base = strip(elem.kids[0])
    mid = None
    if base.k == 'ref':
        u = d.unique_def(match[0].id, base.ref)
        if u is not None:
            r = strip(u[1])
            if r.k == 'un' and r.op == '&':
                e = strip(r.kids[0])
                if e.k == 'idx' and strip(e.kids[1]).k == 'ref':
                    mid = strip(e.kids[1])
    if mid is None:
        return fail('element', 'the compared element is not Root[mid]', broken=True)
    um = d.unique_def(match[0].id, mid.ref)
    if um is None:
        return fail('mid', 'mid has no unique definition', broken=True)
    mtxt = show(strip(um[1]))
    ok_mid = mtxt in ('(%s + ((%s - %s) / 2))' % (lo.name, hi.name, lo.name), '((%s + %s) / 2)' % (lo.name, hi.name),
                      '(%s + ((%s - %s) >> 1))' % (lo.name, hi.name, lo.name), '((%s + %s) >> 1)' % (lo.name, hi.name))
    if not ok_mid:
        return fail('mid-formula', 'mid is computed as %s, which is not between the bounds for every range' % mtxt, um[0].line)
    # direction: on "element > pattern" the upper bound moves below mid, otherwise the lower bound above mid
    node, ka, kb, a, b, op = direction
    key_left = ka is not None and ka[0] == 'key'
    greater_on_true = (op in ('>', '>=')) == key_left
    t_succ = [t for (t, lab) in node.succ if lab is True]
    f_succ = [t for (t, lab) in node.succ if lab is False]

    def first_assign(start):
        seen = set()
        st = list(start)
        while st:
            v = st.pop()
            if v in seen or v not in lp.nodes:
                continue
            seen.add(v)
            nd = g.nodes[v]
            if nd.x is not None:
                for (p, rhs, n) in flow.assigned_paths(nd.x):
                    if p is not None and len(p) == 1 and p[0][1] in (lo.ref, hi.ref):
                        return (p[0][1], show(strip(rhs)) if rhs is not None else None, nd.line)
            st.extend(t for (t, lab) in nd.succ)
        return None
    at, af = first_assign(t_succ), first_assign(f_succ)
    if at is None or af is None:
        return fail('progress', 'a branch of the direction test moves neither bound: the search does not terminate', node.line)
    hi_move = '(%s - 1)' % mid.name if inclusive else mid.name
    lo_move = '(%s + 1)' % mid.name
    exp_true = (hi.ref, hi_move) if greater_on_true else (lo.ref, lo_move)
    exp_false = (lo.ref, lo_move) if greater_on_true else (hi.ref, hi_move)
    if (at[0], at[1]) != exp_true or (af[0], af[1]) != exp_false:
        return fail('direction', 'bounds move as [%s: %s=%s | else: %s=%s]; for a sorted dictionary the upper bound must move '
                                 'below mid exactly when the element key is greater than the pattern, and the moved bound '
                                 'must exclude mid' % (show(node.x), 'hi' if at[0] == hi.ref else 'lo', at[1],
                                                       'hi' if af[0] == hi.ref else 'lo', af[1]), node.line)
    # upper bound initialised from Num (inclusive form relies on the end marker at index Num)
    uh = [g.nodes[dn] for dn in d.defs(lp.head, hi.ref) if dn >= 0 and dn not in lp.nodes]
    init_txt = [show(strip(r)) for nd in uh for (p, r, n) in flow.assigned_paths(nd.x) if r is not None]
    if not any('Num' in t for t in init_txt):
        return fail('upper-init', 'the upper bound starts at %s, not at the number of entries' % init_txt)
    ctx.ob(P, 'RF-search', f, 'binary search shape',
           '%s range [%s, %s], mid = %s, unsigned masked comparison, bounds exclude mid' % ('inclusive' if inclusive else 'half-open', lo.name, hi.name, mtxt))


# ------------------------------------------------------------------ (c) typed accessors
def typed_accessors(ctx):
    m = ctx.m
    NONE = m.enum('CO_ERR_NONE')
    for (f, w, kind) in (('CODictRdByte', 1, 'rd'), ('CODictRdWord', 2, 'rd'), ('CODictRdLong', 4, 'rd'),
                         ('CODictWrByte', 1, 'wr'), ('CODictWrWord', 2, 'wr'), ('CODictWrLong', 4, 'wr')):
        m.need(f)
        acc = 'COObjRdValue' if kind == 'rd' else 'COObjWrValue'
        for found in (0, 1):
            for size in (0, 1, 2, 4, 8):
                trs = _run(m, f, {'key': 0x20000100, 'val': 1 if kind == 'rd' else 0x55, 'call:CODictFind': found,
                                  'call:COObjGetSize': size, 'call:' + acc: NONE})
                site = '%s found=%d object-size=%d' % (f, found, size)
                bad = None
                for t in trs:
                    a = [c for c in t.calls() if c[1] == acc]
                    gs = [c for c in t.calls() if c[1] == 'COObjGetSize']
                    if not found:
                        if a or gs or t.ret in (NONE, None):
                            bad = 'missing entry: access=%d returns %s' % (len(a), t.ret)
                    else:
                        if len(gs) != 1 or gs[0][2][2] != w:
                            bad = 'size query with width %s, required %d' % ([c[2][2] for c in gs], w)
                        elif size == w:
                            if len(a) != 1 or a[0][2][3] != w or t.ret != NONE:
                                bad = 'matching width: access %s returns %s' % ([c[2][3] for c in a], t.ret)
                        else:
                            if a or t.ret in (NONE, None):
                                bad = 'entry of width %d accessed as %d-byte value (returns %s)' % (size, w, t.ret)
                if bad:
                    ctx.ob(P, 'RF10-accessor', f, site, None)
                    ctx.find(P, 'RF10-accessor', f, 'accessor:%d:%d' % (found, size), m.loc(f, m.funcs[f].line), '%s: %s' % (site, bad))
                else:
                    ctx.ob(P, 'RF10-accessor', f, site, 'ok')
    # buffer accessors: the requested length reaches the object layer unconverted
    for f in ('CODictRdBuffer', 'CODictWrBuffer'):
        fn = m.funcs[f]
        ln = [p for p in fn.params if p[0] == 'len']
        for n in walk(fn.body):
            if n.k == 'call' and callee_name(n) in ('COObjRdBufStart', 'COObjWrBufStart'):
                a = n.kids[4]
                narrowed = [c for c in walk(a) if c.k == 'cast' and int_type(c.cty) is not None and int_type(c.cty)[0] < 32]
                src = strip(a)
                site = '%s: %s' % (m.loc(f, n), show(n)[:80])
                if narrowed or not (src.k == 'ref' and ln and src.ref == ln[0][3]):
                    ctx.ob(P, 'RF7-dict-len', f, site, None)
                    ctx.find(P, 'RF7-dict-len', f, 'buffer-length', m.loc(f, n),
                             'the requested length reaches the object layer as %s: %s' % (
                                 show(a), 'converted to %s, so lengths above its range are truncated' % narrowed[0].cty if narrowed
                                 else 'not the caller\'s length'))
                else:
                    ctx.ob(P, 'RF7-dict-len', f, site, 'len passed on unchanged (32 bit)')


# ------------------------------------------------------------------ (d) integer siblings
def integer_siblings(ctx):
    m = ctx.m
    NONE = m.enum('CO_ERR_NONE')
    for (pref, w, mask) in (('COTInt8', 1, 0xFF), ('COTInt16', 2, 0xFFFF), ('COTInt32', 4, 0xFFFFFFFF)):
        rd, wr, sz = pref + 'Read', pref + 'Write', pref + 'Size'
        m.need(rd, wr, sz)
        nodeid = 5
        stored = 0x10
        for direct in (0, 1):
            for nflag in (0, 1):
                flags = (FL_D if direct else 0) | (FL_N if nflag else 0) | FL_R | FL_W
                for size in (w, w + 1 if w < 4 else 2):
                  for stored_r in (stored, 0, mask):
                    inputs = {'obj->Key': 0x20000000 | flags, 'node->NodeId': nodeid, 'size': size,
                              'obj->Data': stored_r if direct else 0x7000, '*obj->Data': stored_r}
                    trs = _run(m, rd, inputs, filt=lambda k, fld: True)
                    site = '%s direct=%d nodeid=%d size=%d stored=%s' % (rd, direct, nflag, size, hex(stored_r))
                    bad = None
                    for t in trs:
                        outs = [e[2] for e in t.stores() if e[1].startswith('*buffer')]
                        if size == w:
                            exp = (stored_r + (nodeid if nflag else 0)) & mask
                            if outs != [exp] or t.ret != NONE:
                                bad = 'reads %s, required %d (stored value%s)' % (outs, exp, ' + node id' if nflag else '')
                        else:
                            if outs or t.ret in (NONE, None):
                                bad = 'width mismatch is not refused (returns %s, wrote %s)' % (t.ret, outs)
                    _rep(ctx, rd, site, bad, 'RF10-integer')
                    for old_eq in (0, 1):
                        for (a_, p_) in ((0, 0), (1, 0), (0, 1), (1, 1)):
                            fl2 = flags | (FL_A if a_ else 0) | (FL_P if p_ else 0)
                            newv = (stored + (nodeid if nflag else 0)) if old_eq else 0x33
                            inputs = {'obj->Key': 0x20000000 | fl2, 'node->NodeId': nodeid, 'size': size, '*buffer': newv,
                                      'obj->Data': stored if direct else 0x7000, '*obj->Data': stored}
                            trs = _run(m, wr, inputs, filt=lambda k, fld: True)
                            site = '%s direct=%d nodeid=%d size=%d same-value=%d async=%d mappable=%d' % (wr, direct, nflag, size, old_eq, a_, p_)
                            bad = None
                            for t in trs:
                                st = [e for e in t.stores() if e[1] in ('obj->Data', '*obj->Data')]
                                trig = t.call_names().count('COTPdoTrigObj')
                                if size == w:
                                    exp = (newv - (nodeid if nflag else 0)) & mask
                                    tgt = 'obj->Data' if direct else '*obj->Data'
                                    if [(e[1], e[2]) for e in st] != [(tgt, exp)] or t.ret != NONE:
                                        bad = 'stores %s, required %s := %d (written value%s)' % ([(e[1], e[2]) for e in st], tgt, exp, ' - node id' if nflag else '')
                                    want = 1 if (a_ and p_ and not old_eq) else 0
                                    if trig != want:
                                        bad = 'TPDO trigger %d times, required %d (asynchronous, mappable and changed)' % (trig, want)
                                else:
                                    if st or trig or t.ret in (NONE, None):
                                        bad = 'width mismatch is not refused'
                            _rep(ctx, wr, site, bad, 'RF10-integer', ['C06', 'C12'])
                    if size == w:
                        # boundary values and a value-independence run: with the written value left unbound no path
                        # may refuse the write or skip the store (any guard on the value itself splits the paths);
                        # the value currently stored is a class of its own: a directly stored 0 makes obj->Data == 0
                      for stored2 in (stored, 0, mask):
                        for newv in (0, 1, mask, None):
                            inputs = {'obj->Key': 0x20000000 | flags, 'node->NodeId': nodeid, 'size': size,
                                      'obj->Data': stored2 if direct else 0x7000, '*obj->Data': stored2}
                            if newv is not None:
                                inputs['*buffer'] = newv
                            trs = _run(m, wr, inputs, filt=lambda k, fld: True)
                            site = '%s direct=%d nodeid=%d stored=%s value=%s' % (wr, direct, nflag, hex(stored2), 'any' if newv is None else hex(newv))
                            bad = None
                            tgt = 'obj->Data' if direct else '*obj->Data'
                            for t in trs:
                                st = [e for e in t.stores() if e[1] in ('obj->Data', '*obj->Data')]
                                if [e[1] for e in st] != [tgt] or t.ret != NONE:
                                    bad = 'a full-width value is refused or not stored on some path (stores %s, returns %s)' % (
                                        [(e[1], e[2]) for e in st], t.ret)
                                elif newv is not None and st[0][2] != ((newv - (nodeid if nflag else 0)) & mask):
                                    bad = 'stores %s, required %d' % (st[0][2], (newv - (nodeid if nflag else 0)) & mask)
                            if not trs:
                                bad = 'no path'
                            _rep(ctx, wr, site, bad, 'RF10-integer')
        for direct in (0, 1):
            for data in (0, 0x7000):
                trs = _run(m, sz, {'obj->Key': 0x20000000 | (FL_D if direct else 0), 'obj->Data': data, 'width': 0})
                exp = w if (direct or data) else 0
                bad = None
                for t in trs:
                    if t.ret != exp:
                        bad = 'size %s, required %d' % (t.ret, exp)
                _rep(ctx, sz, '%s direct=%d data=%d' % (sz, direct, data), bad, 'RF10-integer')


def _rep(ctx, f, site, bad, rule, props=None):
    m = ctx.m
    props = props or P
    if bad:
        ctx.ob(props, rule, f, site, None)
        ctx.find(props, rule, f, '%s' % bad.split(',')[0].split('(')[0][:50].strip(), m.loc(f, m.funcs[f].line), '%s: %s' % (site, bad))
    else:
        ctx.ob(props, rule, f, site, 'ok')


# ------------------------------------------------------------------ domain clipping
def domain_clip(ctx):
    """length moved by a domain access = min(requested, Size - Offset): decided on the guard that selects the
    length (the copy loop itself is not evaluated)"""
    m = ctx.m
    for f in ('COTDomainRead', 'COTDomainWrite'):
        m.need(f)
        for (size_, off, req) in ((10, 0, 4), (10, 0, 10), (10, 0, 12), (10, 7, 2), (10, 7, 3), (10, 7, 6), (10, 10, 1), (4, 2, 3)):
            pe = PEval(m, f)
            pe.record_sets = True
            pe.store_filter = lambda k, fld: False
            trs = pe.run({'obj': 1, 'node': 1, 'buffer': 1, 'obj->Data': 1, 'dom->Size': size_, 'dom->Offset': off, 'size': req})
            exp = min(req, size_ - off)
            site = '%s size=%d offset=%d requested=%d' % (f, size_, off, req)
            bad = None
            # the local that holds the number of bytes to move = the down-counter the copy loop tests (by role, not by name)
            cnt = 'len'
            g_ = m.cfg(f)
            for lp_ in g_.loops:
                for cn_ in lp_.cond_nodes:
                    cx_ = strip(g_.nodes[cn_].x)
                    if cx_ is not None and cx_.k == 'bin' and cx_.op in ('>', '!=') and strip(cx_.kids[0]).k == 'ref' \
                            and const_eval(cx_.kids[1]) == 0:
                        cnt = strip(cx_.kids[0]).name
            for t in trs:
                lens = [e[2] for e in t.events if e[0] == 'set' and e[1] == cnt]
                if not lens or lens[0] != exp:
                    bad = 'moves %s bytes, required min(requested, remaining) = %d' % (lens[:1], exp)
            _rep(ctx, f, site, bad, 'RF6-domain')
    for f in ('COTDomainSize',):
        for (size_, width) in ((10, 0), (10, 4), (10, 10), (10, 12)):
            trs = _run(m, f, {'obj->Data': 1, 'dom->Size': size_, 'width': width})
            exp = size_ if width == 0 else min(width, size_)
            bad = None
            for t in trs:
                if t.ret != exp:
                    bad = 'returns %s, required %d' % (t.ret, exp)
            _rep(ctx, f, '%s size=%d width=%d' % (f, size_, width), bad, 'RF6-domain')
    # start of a buffered access resets the offset: COObjRdBufStart / COObjWrBufStart call COObjReset(obj, node, 0) first
    for f in ('COObjRdBufStart', 'COObjWrBufStart'):
        pe = PEval(m, f)
        pe.record_sets = False
        pe.store_filter = lambda k, fld: False
        trs = pe.run({'obj': 1, 'node': 1, 'buffer': 1, 'obj->Type': 1, 'type->Read': 1, 'type->Write': 1, 'type->Reset': 1, 'size': 5})
        bad = None
        for t in trs:
            names = t.call_names()
            # the rewind: COObjReset(obj, node, 0) or the type's Reset function called directly with offset 0
            rs = [c for c in t.calls() if c[1] == 'COObjReset' or c[1].endswith('.Reset')]
            acc = [i for i, n in enumerate(names) if n.endswith('.Read') or n.endswith('.Write')]
            if len(rs) != 1 or rs[0][2][2] != 0 or not acc or names.index(rs[0][1]) > acc[0]:
                bad = 'calls %s' % names
            ac = [c for c in t.calls() if c[1].endswith('.Read') or c[1].endswith('.Write')]
            if ac and ac[0][2][3] != 5:
                bad = 'type function called with size %s' % ac[0][2][3]
        _rep(ctx, f, '%s offset reset before the first access' % f, bad, 'RF6-domain')


def offset_discipline(ctx):
    """Streaming types (domain, string) keep a read/write offset.  (1) Their Reset function stores the requested
    offset unconditionally (the object layer rewinds with offset 0 before every buffered access and ignores the
    result: a reset that can decline leaves a stale offset behind).  (2) A read whose copy loop can stop early on the
    data (string terminator) advances the offset by what was copied: the stored offset must depend on a variable the
    copy loop changes once per copied byte - a value computed from the requested size alone over-runs the string."""
    m = ctx.m
    NONE = m.enum('CO_ERR_NONE')
    for f, rec in (('COTDomainReset', 'CO_OBJ_DOM'), ('COTStringReset', 'CO_OBJ_STR')):
        m.need(f)
        for para in (0, 7, 0xFFFFFFFF):
            pe = PEval(m, f)
            pe.record_sets = False
            pe.store_filter = lambda k, fld, rec=rec: fld == (rec, 'Offset')
            # size / start of the object left unbound: no guard on them may skip the store
            trs = pe.run({'obj': 1, 'node': 1, 'obj->Data': 1, 'para': para})
            bad = None
            for t in trs:
                vals = [e[2] for e in t.stores()]
                if vals != [para] or t.ret != NONE:
                    bad = 'a path stores offset %s and returns %s, required offset := %d, no refusal' % (vals, t.ret, para)
            if not trs:
                bad = 'no path'
            _rep(ctx, f, '%s offset=%d' % (f, para), bad, 'RF2-offset')
    # (2) data-dependent copy loops
    n_loops = 0
    # (2) is decided by RF17-O2 (rules/rf17_copy.py): on every path the position advances by exactly the bytes moved



def object_layer_forwarding(ctx):
    """The object layer (co_obj.c) is a thin dispatch onto the type functions: with valid pointers and the type function
    present, every wrapper calls its type function exactly once on EVERY path - whatever the entry's key flags (direct,
    node-id, access) or data are (left unbound here) - and hands the numeric argument (size / width / reset parameter) on
    unchanged.  The parameter reload on NMT reset (COObjReset on 1010h:0, usually a direct entry), the SDO transfers and the
    typed accessors all go through these wrappers."""
    m = ctx.m
    from canalyze.ir import callee_slot
    props = ['C06', 'C17']
    n = 0
    for f, fn in sorted(m.funcs.items()):
        if not fn.unit.endswith('co_obj.c'):
            continue
        slots = set()
        for x in walk(fn.body):
            if x.k == 'call' and callee_name(x) is None and callee_slot(x):
                slots.add(callee_slot(x))
        if not slots:
            continue
        n += 1
        pe = PEval(m, f)
        pe.record_sets = False
        pe.store_filter = lambda k, fld: False
        inputs = dict((prm[0], 1) for prm in fn.params if is_pointer(prm[2]))
        inputs.update({'obj->Type': 1, 'type->Reset': 1})
        for sl_ in slots:
            inputs.update({'type->%s' % sl_[1]: 1, 'obj->Type->%s' % sl_[1]: 1})
        # the function's own type function is the last one it calls (a rewind through the Reset function may precede it)
        sl = sorted(slots, key=lambda q: (q[1] == 'Reset', q[1]))[0]
        nums = {}
        for i, prm in enumerate(fn.params):
            if not is_pointer(prm[2]):
                inputs[prm[0]] = 40 + i
                nums[prm[0]] = 40 + i
        trs = pe.run(inputs)
        site = '%s forwards to %s.%s' % (f, sl[0], sl[1])
        bad = None
        name = '%s.%s' % sl
        for t in trs:
            cs = [c for c in t.calls() if c[1] == name]
            if len(cs) != 1:
                bad = 'a path calls the type function %d times (calls: %s)' % (len(cs), t.call_names())
            elif nums and not all(v in cs[0][2] for v in nums.values()):
                bad = 'numeric argument not handed on unchanged (%s, required %s)' % (cs[0][2], sorted(nums.values()))
        if not trs:
            bad = 'no path'
        if bad:
            ctx.ob(props, 'RF2-obj-forward', f, site, None)
            ctx.find(props, 'RF2-obj-forward', f, 'forward:%s' % sl[1], m.loc(f, fn.line), '%s: %s' % (site, bad))
        else:
            ctx.ob(props, 'RF2-obj-forward', f, site, 'on every path, independent of the key flags and data')
    ctx.inst('DICT.obj-wrappers', n)
    ctx.require_min(props, 'RF2-obj-forward', n, 8, 'object-layer wrappers')


def run(ctx):
    object_layer_forwarding(ctx)
    offset_discipline(ctx)
    init_walk(ctx)
    search_shape(ctx)
    typed_accessors(ctx)
    integer_siblings(ctx)
    domain_clip(ctx)
