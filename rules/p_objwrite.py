"""RF2-refusal - a refused object write stores nothing (all parameter objects: 1005h, 1006h, 1014h, 1016h, 1017h,
1200h.., 1400h.., 1600h.., 1800h.., 1A00h.. ).
Every function in the CO_OBJ_TYPE.Write slot that delegates the actual store to a basic integer type
(COTInt8/16/32Write) is folded with everything left unbound except: the delegated store succeeds, and the services it
calls afterwards (timer, dictionary reads) succeed.  Then no path may contain the store and still return an error:
such a path is one where the entry already holds a value the client was told had been refused - the value is read
back, and takes effect at the next reset.  (Paths with two stores are roll-backs: old value written back.)"""
from canalyze.ir import is_pointer, walk, strip, callee_name, callee_slot
from canalyze.peval import PEval

BASIC = ('COTInt8Write', 'COTInt16Write', 'COTInt32Write')
# properties by translation unit of the Write function
UNIT_PROPS = {
    'co_sdo_id.c': ['C04', 'C05'], 'co_pdo_id.c': ['C14'], 'co_pdo_map.c': ['C14'], 'co_pdo_num.c': ['C14'], 'co_pdo_type.c': ['C14'],
    'co_pdo_event.c': ['C14', 'C12'], 'co_sync_id.c': ['C16'], 'co_sync_cycle.c': ['C16'], 'co_emcy_id.c': ['C15'],
    'co_hb_prod.c': ['C10'], 'co_hb_cons.c': ['C11'], 'co_emcy_hist.c': ['C15'],
}
MIN_FUNCS = 8


def run(ctx):
    m = ctx.m
    NONE = m.enum('CO_ERR_NONE')
    writers = sorted(f for f in m.slots.get(('CO_OBJ_TYPE', 'Write'), ()) if f in m.funcs and f not in BASIC)
    n = 0
    for f in writers:
        fn = m.funcs[f]
        props = UNIT_PROPS.get(fn.unit.split('/')[-1])
        if props is None:
            continue
        # does it delegate to a basic store?
        pe = PEval(m, f)
        pe.record_sets = False
        pe.store_filter = lambda k, fld: False
        inputs = dict((prm[0], 1) for prm in fn.params if is_pointer(prm[2]))
        for b in BASIC:
            inputs['call:' + b] = NONE
        # services used after the store succeed (their failure is a legitimate "stored, then error")
        inputs.update({'call:COTmrDelete': 0, 'call:COTmrCreate': 5, 'call:CODictRdLong': NONE, 'call:CODictRdByte': NONE,
                       'call:CODictRdWord': NONE, 'call:COTInt32Read': NONE, 'call:COTInt16Read': NONE, 'call:COTInt8Read': NONE,
                       'call:CONmtHbConsActivate': NONE, 'size': 4 if 'Int32' in ''.join(c for c in ()) else None})
        inputs = dict((k, v) for k, v in inputs.items() if v is not None)
        try:
            trs = pe.run(inputs)
        except Exception as e:      # AnalysisBroken propagates as such
            raise
        stores_any = any(any(c[1] in BASIC for c in t.calls()) for t in trs)
        if not stores_any:
            continue
        n += 1
        bad = None
        for t in trs:
            st = [c for c in t.calls() if c[1] in BASIC]
            if len(st) == 1 and t.ret not in (NONE, None):
                # node->Error based refusals after activation are handled by the roll-back (two stores)
                bad = 'a path stores the new value (%s) and then returns error %s' % (st[0][1], t.ret)
                break
        site = '%s: refusal paths (%d paths)' % (f, len(trs))
        if bad:
            ctx.ob(props, 'RF2-refusal', f, site, None)
            ctx.find(props, 'RF2-refusal', f, 'stored-then-refused', m.loc(f, fn.line),
                     '%s: %s: the client is told the write was refused but the entry already holds the new value (read back, '
                     'used at the next reset / re-initialisation)' % (f, bad))
        else:
            ctx.ob(props, 'RF2-refusal', f, site, 'no path stores and then refuses')
    accepted_value(ctx, writers)
    ctx.inst('RF2-refusal.functions', n)
    ctx.require_min(sorted(set(p for v in UNIT_PROPS.values() for p in v)), 'RF2-refusal', n, MIN_FUNCS, 'parameter Write functions that delegate the store')


WIDTH = {'COTInt8Write': 8, 'COTInt16Write': 16, 'COTInt32Write': 32}


def accepted_value(ctx, writers):
    """RF2-accept - the converse: an ACCEPTED write stores exactly the value the client wrote.  Each writer is folded
    with the written value bound (values with the top bits set, small values, zero) and everything else unbound; on
    every path that returns success, the value handed to the delegated basic store is the written value - not a masked,
    shifted or stale one (a COB-ID stored without its valid / producer bit silently enables the service)."""
    m = ctx.m
    NONE = m.enum('CO_ERR_NONE')
    n = 0
    for f in writers:
        fn = m.funcs[f]
        props = UNIT_PROPS.get(fn.unit.split('/')[-1])
        if props is None:
            continue
        for V in (0x80000101, 0xC0000080, 0x00000181, 0x1234, 5, 0):
            pe = PEval(m, f)
            pe.record_sets = False
            pe.store_filter = lambda k, fld: False
            inputs = dict((prm[0], 1) for prm in fn.params if is_pointer(prm[2]))
            for b in BASIC:
                inputs['call:' + b] = NONE
            inputs.update({'call:COTmrDelete': 0, 'call:COTmrCreate': 5, 'call:CODictRdLong': NONE, 'call:CODictRdByte': NONE,
                           'call:CODictRdWord': NONE, 'call:COTInt32Read': NONE, 'call:COTInt16Read': NONE, 'call:COTInt8Read': NONE,
                           'call:CONmtHbConsActivate': NONE, '*buffer': V})
            trs = pe.run(inputs)
            for t in trs:
                if t.ret != NONE:
                    continue
                st = [c for c in t.calls() if c[1] in BASIC]
                if len(st) != 1:
                    continue          # roll-backs (two stores) are the refusal rule's business
                c = st[0]
                got = c[5].get(2) if len(c) > 5 and isinstance(c[5], dict) else None
                if got is None:
                    continue
                mask = (1 << WIDTH[c[1]]) - 1
                n += 1
                site = '%s: written %Xh' % (f, V & mask)
                if (got & mask) == (V & mask):
                    ctx.ob(props, 'RF2-accept', f, site, 'stored as written')
                else:
                    ctx.ob(props, 'RF2-accept', f, site, None)
                    ctx.find(props, 'RF2-accept', f, 'stored-differs', m.loc(f, c[4]) if len(c) > 4 else m.loc(f, fn.line),
                             '%s accepts the write of %Xh but stores %Xh: the entry reads back - and takes effect - with a value the '
                             'client did not write (e.g. a COB-ID without its valid bit)' % (f, V & mask, got & mask))
    ctx.inst('RF2-accept.rows', n)
    ctx.require_min(sorted(set(p for v in UNIT_PROPS.values() for p in v)), 'RF2-accept', n, 12, 'accepted-write rows with a known stored value')
