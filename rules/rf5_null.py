"""RF5 - nullable-location dereference (contradiction rule).

A location is *nullable* when the library itself stores a literal null into it after
initialisation (frozen table below, found by the store statistic and confirmed by reading)
or when it is the result of CODictFind.  Every dereference of a value loaded from such a
location must be dominated by a non-null test of the same variable / access path with no
intervening store, or be covered by a named exception whose invariant is stated."""
from canalyze.ir import walk, strip, const_eval, show, callee_name, is_pointer
from canalyze import flow
from canalyze.canon import Canon

# (record, field) -> properties (besides C01) the location belongs to
NULLABLE = {
    ('CO_TMR', 'Use'): ['C08'], ('CO_TMR', 'Elapsed'): ['C08'], ('CO_TMR', 'Free'): ['C08'], ('CO_TMR', 'Acts'): ['C08'],
    ('CO_TMR_TIME', 'Next'): ['C08'], ('CO_TMR_TIME', 'Action'): ['C08'], ('CO_TMR_TIME', 'ActionEnd'): ['C08'],
    ('CO_TMR_ACTION', 'Next'): ['C08'],
    ('CO_SYNC', 'RPdo'): ['C13'], ('CO_SYNC', 'TPdo'): ['C12'],
    ('CO_RPDO', 'Map'): ['C13'], ('CO_TPDO_LINK', 'Obj'): ['C12'],
    ('CO_SDO', 'Obj'): [], ('CO_SDO', 'Frm'): [],
    ('CO_NMT', 'HbCons'): ['C11'], ('CO_HBCONS', 'Next'): ['C11'],
    ('CO_CSDO', 'Frm'): ['C19'], ('CO_CSDO_TRANSFER', 'Buf'): ['C19'], ('CO_CSDO_TRANSFER', 'Call'): ['C19'],
}
NULLABLE_CALLS = {'CODictFind': []}

# B.3 exceptions: (function or '*', description of deref) -> invariant
EXC_FIELD_IN_FUNCS = {
    # srv->Frm is assigned non-null by COSdoCheck on the only path to COSdoResponse (checked: RF12c per-request refresh)
    ('CO_SDO', 'Frm'): ('*', 'assigned from the received frame by COSdoCheck on every path that selects the server (RF12c); '
                             'handlers run only below COSdoResponse'),
    ('CO_CSDO', 'Frm'): ('*', 'assigned by COCSdoCheck on every path that selects the client; handlers run only below COCSdoResponse'),
    ('CO_CSDO_TRANSFER', 'Buf'): ('*', 'response handlers run only while State == BUSY, entered only after Buf is set (RF3-H4 context rule)'),
    ('CO_TMR_TIME', 'ActionEnd'): ('*', 'an event that is linked into a list holds at least one action (Action/ActionEnd set together in COTmrInsert)'),
}
# cursor-origin exceptions: a load of FIELD through a cursor that walks the list starting at HEAD is non-null
ORIGIN_EXC = {
    (('CO_TMR_TIME', 'Action'), ('CO_TMR', 'Use')):
        'an event is removed from the used list when its last action goes (COTmrDelete / COTmrRemove), so used events always '
        'hold an action',
}
# the interrupt-level service relies on the driver contract
FUNC_EXC = {
    ('COTmrService', ('CO_TMR', 'Use')): 'driver contract: COIfTimerUpdate() > 0 only while an event is loaded in the used list',
    ('COSdoGetSize', ('CO_SDO', 'Obj')): 'passed to COObjGetSize which checks its argument (ASSERT_PTR_ERR)',
}
# initialisation loops that are safe for a value relation the analysis does not track
FUNC_WHOLE_EXC = {
    'COTmrReset': 'pool initialisation: the null link is stored exactly in the last iteration (blk == Max), after which the '
                  'loop ends; the cursors are not dereferenced again',
}
MIN_SITES = 40


class NullFlow(object):
    """forward analysis: variable ids / canonical paths -> 'N' (known non-null) or 'M' (may be null by table)"""

    def __init__(self, ctx, an, fname):
        self.ctx = ctx
        self.an = an
        self.m = ctx.m
        self.fname = fname
        self.g = self.m.cfg(fname)
        self.cn = Canon(self.m, fname)
        self.info = {}      # path string -> (var ids, fields)
        self.why = {}       # key -> description of the nullable source
        ltr, ljoin, ledge, collapse, freeze = flow.lift_disjunctive(self._tr, self._join, self._edge, K=8)
        LIN, LOUT = flow.forward(self.g, (freeze({}),), ltr, ljoin, edge=ledge)
        self.LIN = LIN
        self.IN = dict((n, collapse(S)) for n, S in LIN.items())
        self.OUT = dict((n, collapse(S)) for n, S in LOUT.items())

    # -- classification of a pointer-valued expression
    def pkey(self, x, nid):
        x = strip(x)
        if x is None:
            return None
        if x.k == 'ref' and x.refk == 'VarDecl' and is_pointer(x.cty):
            return ('v', x.ref, x.name)
        if x.k in ('mem', 'idx') and is_pointer(x.cty):
            c = self.cn.canon(nid, x)
            if c is not None:
                self.info[c[0]] = (c[1], c[2])
                return ('p', c[0])
        return None

    def cls(self, x, s, nid):
        """'N', 'M' or None (unknown: not reported)"""
        x = strip(x)
        if x is None:
            return None
        if const_eval(x) == 0 and x.k in ('int', 'cast'):
            return 'M'
        if x.k == 'un' and x.op == '&':
            return 'N'
        if x.k == 'str':
            return 'N'
        if x.k in ('mem', 'idx') and x.cty is not None and '[' in x.cty and '(*' not in x.cty:
            return 'N'
        if x.k == 'ref':
            if x.refk == 'FunctionDecl':
                return 'N'
            if x.refk == 'VarDecl' and is_pointer(x.cty):
                return s.get(('v', x.ref, x.name))
            return None
        if x.k in ('mem', 'idx'):
            key = self.pkey(x, nid)
            if key is not None and key in s:
                return s[key]
            fld = self.an.field_of_load(x)
            if fld is not None:
                if fld in EXC_FIELD_IN_FUNCS:
                    self.ctx.exception('RF5', '%s.%s' % fld, EXC_FIELD_IN_FUNCS[fld][1])
                    return 'N'
                if (self.fname, fld) in FUNC_EXC:
                    self.ctx.exception('RF5', '%s:%s.%s' % (self.fname, fld[0], fld[1]), FUNC_EXC[(self.fname, fld)])
                    return 'N'
                # cursor-origin exception
                t = x
                while t is not None and t.k == 'idx':
                    t = strip(t.kids[0])
                b = strip(t.kids[0]) if t is not None and t.k == 'mem' else None
                if b is not None and b.k == 'ref' and b.refk == 'VarDecl':
                    org = self.an.origins(self.fname, nid, b.ref)
                    for (f2, head), why in ORIGIN_EXC.items():
                        if f2 == fld and org and org <= set([head]):
                            self.ctx.exception('RF5', '%s.%s via %s.%s cursor' % (fld[0], fld[1], head[0], head[1]), why)
                            return 'N'
                if key is not None:
                    self.why[key] = '%s.%s' % fld
                return 'M'
            return None
        if x.k == 'call':
            if callee_name(x) in NULLABLE_CALLS:
                return 'M'
            return None
        if x.k == 'bin' and x.op in ('+', '-'):
            return self.cls(x.kids[0], s, nid)
        if x.k == 'cond':
            a = self.cls(x.kids[1], s, nid)
            b = self.cls(x.kids[2], s, nid)
            if a == 'M' or b == 'M':
                return 'M'
            return a if a == b else None
        return None

    def _kill_var(self, s, vid):
        out = None
        for k in list(s.keys()):
            if (k[0] == 'p' and vid in self.info.get(k[1], ((), ()))[0]) or \
                    (k[0] == 'e' and (vid in self.info.get(k[1], ((), ()))[0] or vid in self.info.get(s[k], ((), ()))[0])):
                if out is None:
                    out = dict(s)
                out.pop(k, None)
        return out if out is not None else s

    def _kill_field(self, s, fld, keep=None, stored=None):
        """a store to field fld (any base): paths through that field are forgotten - except that storing a
        non-null value cannot make a path that is known non-null null (alias or not)"""
        out = None
        for k in list(s.keys()):
            hit = False
            if k[0] == 'p' and k != keep and fld in self.info.get(k[1], ((), ()))[1]:
                last = self.info.get(k[1], ((), (), None))
                if stored == 'N' and s[k] == 'N' and k[1].endswith(fld[1]):
                    continue
                hit = True
            elif k[0] == 'e' and (fld in self.info.get(k[1], ((), ()))[1] or fld in self.info.get(s[k], ((), ()))[1]):
                hit = True
            if hit:
                if out is None:
                    out = dict(s)
                out.pop(k, None)
        return out if out is not None else s

    def _set(self, s, key, c, why=None):
        s = dict(s)
        if c is None:
            s.pop(key, None)
        else:
            s[key] = c
            if why and c == 'M':
                self.why[key] = why
        return s

    def _tr(self, node, s):
        x = node.x
        if x is None:
            return s
        nid = node.id
        order = []

        def po(n):
            for kk in n.kids:
                if kk is not None:
                    po(kk)
            order.append(n)
        po(x)
        for n in order:
            if n.k == 'call':
                flds, unknown = self.m.call_modset(n)
                if unknown:
                    s = dict((k, v) for k, v in s.items() if k[0] != 'p')
                else:
                    for f in flds:
                        if f[0] != '*':
                            s = self._kill_field(s, f)
                for a in n.kids[1:]:
                    a = strip(a)
                    if a.k == 'un' and a.op == '&':
                        t = strip(a.kids[0])
                        if t.k == 'ref':
                            s = dict(s)
                            for k in [k for k in s if k[0] == 'v' and k[1] == t.ref]:
                                s.pop(k, None)
                            s = self._kill_var(s, t.ref)
            elif n.k == 'var':
                if n.kids and is_pointer(n.cty):
                    c = self.cls(n.kids[0], s, nid)
                    s = self._kill_var(s, n.ref)
                    s = self._set(s, ('v', n.ref, n.name), c, self._src(n.kids[0], nid))
            elif n.k == 'bin' and n.op == '=':
                l = strip(n.kids[0])
                if l.k == 'ref' and l.refk in ('VarDecl', 'ParmVarDecl'):
                    c = self.cls(n.kids[1], s, nid) if is_pointer(l.cty) else None
                    s = self._kill_var(s, l.ref)
                    if is_pointer(l.cty) and l.refk == 'VarDecl':
                        s = self._set(s, ('v', l.ref, l.name), c, self._src(n.kids[1], nid))
                    continue
                t = l
                while t is not None and t.k == 'idx':
                    t = strip(t.kids[0])
                if t is not None and t.k == 'mem':
                    c = self.cls(n.kids[1], s, nid) if is_pointer(l.cty) else None
                    key = self.pkey(l, nid) if is_pointer(l.cty) else None
                    rkey = self.pkey(n.kids[1], nid) if is_pointer(l.cty) else None
                    s = self._kill_field(s, t.field, keep=None, stored=c)
                    if key is not None and not ('[' in key[1] and not key[1].split('[')[-1].split(']')[0].isdigit()):
                        s = self._set(s, key, c, self._src(n.kids[1], nid))
                        if rkey is not None and rkey[0] == 'p' and rkey != key:
                            s = dict(s)
                            s[('e', key[1])] = rkey[1]      # key holds the same value as rkey until either is stored to
                elif t is not None and t.k == 'un':
                    s = dict((k, v) for k, v in s.items() if k[0] != 'p')
            elif n.k == 'bin' and n.op.endswith('=') and n.op not in ('==', '!=', '<=', '>='):
                l = strip(n.kids[0])
                if l.k == 'ref':
                    s = self._kill_var(s, l.ref)
                else:
                    t = l
                    while t is not None and t.k == 'idx':
                        t = strip(t.kids[0])
                    if t is not None and t.k == 'mem':
                        s = self._kill_field(s, t.field)
            elif n.k == 'un' and n.op in ('++', '--', 'post++', 'post--'):
                l = strip(n.kids[0])
                if l.k == 'ref':
                    s = self._kill_var(s, l.ref)
                    # pointer increments keep non-nullness unknown -> keep class
                else:
                    t = l
                    while t is not None and t.k == 'idx':
                        t = strip(t.kids[0])
                    if t is not None and t.k == 'mem':
                        s = self._kill_field(s, t.field)
        # a pointer that was dereferenced in this statement is non-null afterwards
        for n in order:
            base = None
            if n.k == 'mem' and n.arrow:
                base = strip(n.kids[0])
            elif n.k == 'un' and n.op == '*':
                base = strip(n.kids[0])
            if base is not None:
                key = self.pkey(base, nid)
                if key is not None and s.get(key) == 'M':
                    # only if the statement did not just assign it
                    assigned = False
                    for (p_, r_, n_) in flow.assigned_paths(x):
                        l_ = strip(n_.kids[0]) if n_.k != 'var' else None
                        if l_ is not None and self.pkey(l_, nid) == key:
                            assigned = True
                        if n_.k == 'var' and key[0] == 'v' and key[1] == n_.ref:
                            assigned = True
                    if not assigned:
                        s = self._set(s, key, 'N')
        return s

    def _src(self, rhs, nid):
        r = strip(rhs)
        if r is None:
            return None
        if const_eval(r) == 0:
            return 'literal null (line %d)' % r.line
        if r.k == 'call':
            return '%s() (line %d)' % (callee_name(r), r.line)
        fld = self.an.field_of_load(r)
        if fld is not None:
            return '%s.%s (line %d)' % (fld[0], fld[1], r.line)
        k = self.pkey(r, nid)
        if k is not None:
            return self.why.get(k)
        return None

    def _edge(self, node, lab, s):
        if node.kind != 'br' or lab not in (True, False):
            return s
        x = strip(node.x)
        tgt = None
        want_nonnull = None
        if x.k == 'bin' and x.op in ('==', '!='):
            a, b = x.kids
            if const_eval(b) == 0:
                tgt = strip(a)
            elif const_eval(a) == 0:
                tgt = strip(b)
            if tgt is not None:
                want_nonnull = ((x.op == '!=') == lab)
        elif x.k in ('ref', 'mem', 'idx'):
            tgt = x
            want_nonnull = lab
        if tgt is None:
            return s
        key = self.pkey(tgt, node.id)
        if key is None:
            return s
        cur = s.get(key)
        if want_nonnull:
            s = self._set(s, key, 'N')
            if key[0] == 'p':
                for k2 in list(s.keys()):
                    if k2[0] == 'e' and (s[k2] == key[1]):
                        s[('p', k2[1])] = 'N'
                    elif k2[0] == 'e' and k2[1] == key[1]:
                        s[('p', s[k2])] = 'N'
            return s
        # null edge: infeasible if known non-null
        if cur == 'N':
            return None
        return s

    def _join(self, a, b):
        if a == b:
            return a
        out = {}
        for k in set(a.keys()) | set(b.keys()):
            va, vb = a.get(k), b.get(k)
            if k[0] == 'e':
                if va == vb:
                    out[k] = va
                continue
            if k[0] == 'w':
                if va is None or vb is None or va == vb:
                    out[k] = va or vb
                else:
                    parts = sorted(set(va.split('; ') + vb.split('; ')))
                    out[k] = '; '.join(parts[:4])
                continue
            if va == 'M' or vb == 'M':
                # maybe-null on one side; unknown on the other stays reportable only if the other is not 'N'... keep M
                out[k] = 'M'
            elif va == 'N' and vb == 'N':
                out[k] = 'N'
        return out


class Analyzer(object):
    def __init__(self, ctx):
        self.ctx = ctx
        self.m = ctx.m
        self._pc = {}
        self._nf = {}

    def nullflow(self, fname):
        r = self._nf.get(fname)
        if r is None:
            r = self._nf[fname] = NullFlow(self.ctx, self, fname)
        return r

    def field_of_load(self, x):
        """nullable field identity if x loads a pointer from a nullable location"""
        x = strip(x)
        t = x
        while t is not None and t.k == 'idx':
            t = strip(t.kids[0])
        if t is not None and t.k == 'mem' and t.field in NULLABLE and is_pointer(x.cty):
            return t.field
        return None

    def origins(self, fname, nid, varref, depth=0, seen=None):
        """head fields a list cursor may derive from"""
        m = self.m
        d = m.defs_of(fname)
        g = m.cfg(fname)
        seen = seen or set()
        out = set()
        for dn in d.defs(nid, varref):
            if dn < 0:
                out.add('?')
                continue
            if (dn, varref) in seen:
                continue
            seen.add((dn, varref))
            node = g.nodes[dn]
            rhs = None
            for (p, r, n) in flow.assigned_paths(node.x):
                if p is not None and len(p) == 1 and p[0][1] == varref:
                    rhs = r
            if rhs is None:
                out.add('?')
                continue
            r0 = strip(rhs)
            if r0.k == 'mem' and strip(r0.kids[0]).k == 'ref' and r0.arrow and strip(r0.kids[0]).refk == 'VarDecl' \
                    and r0.field[1] == 'Next':
                out |= self.origins(fname, dn, strip(r0.kids[0]).ref, depth + 1, seen)
            elif r0.k == 'mem':
                out.add(r0.field)
            elif r0.k == 'ref' and r0.refk == 'VarDecl' and depth < 4:
                out |= self.origins(fname, dn, r0.ref, depth + 1, seen)
            else:
                out.add('?')
        return out

    def param_checked(self, fname, idx):
        """does callee test parameter idx against null before every dereference of it?"""
        key = (fname, idx)
        if key in self._pc:
            return self._pc[key]
        m = self.m
        fn = m.funcs.get(fname)
        if fn is None or idx >= len(fn.params):
            self._pc[key] = True
            return True
        self._pc[key] = True
        pid = fn.params[idx][3]
        g = m.cfg(fname)
        facts = m.facts(fname)
        ok = True
        for node in g.nodes:
            if node.x is None or node.id not in g.reachable:
                continue
            for n in walk(node.x):
                base = None
                if n.k == 'mem' and n.arrow:
                    base = strip(n.kids[0])
                elif n.k == 'un' and n.op == '*':
                    base = strip(n.kids[0])
                elif n.k == 'idx' and is_pointer(strip(n.kids[0]).cty):
                    base = strip(n.kids[0])
                if base is not None and base.k == 'ref' and base.ref == pid:
                    if not _param_fact(facts.get(node.id), pid):
                        ok = False
                elif n.k == 'call':
                    for j, a in enumerate(n.kids[1:]):
                        a0 = strip(a)
                        if a0.k == 'ref' and a0.ref == pid and not _param_fact(facts.get(node.id), pid):
                            tg, ext, d = m.resolve_call(n, fn)
                            for t in (tg or ()):
                                if not self.param_checked(t, j):
                                    ok = False
        self._pc[key] = ok
        return ok


def _param_fact(facts, pid):
    for f in facts or ():
        x = strip(f.x)
        tgt = None
        want = None
        if x.k == 'bin' and x.op in ('==', '!='):
            a, b = x.kids
            if const_eval(b) == 0:
                tgt = strip(a)
            elif const_eval(a) == 0:
                tgt = strip(b)
            want = (x.op == '!=')
        elif x.k == 'ref':
            tgt = x
            want = True
        if tgt is not None and tgt.k == 'ref' and tgt.ref == pid and f.pol == want:
            return True
    return False


def run(ctx):
    m = ctx.m
    an = Analyzer(ctx)
    stores = {}
    for fname, fn in m.funcs.items():
        for n in walk(fn.body):
            if n.k == 'bin' and n.op == '=':
                l = strip(n.kids[0])
                t = l
                while t is not None and t.k == 'idx':
                    t = strip(t.kids[0])
                if t is not None and t.k == 'mem' and is_pointer(l.cty):
                    if const_eval(n.kids[1]) == 0 or an.field_of_load(n.kids[1]) is not None:
                        stores[t.field] = stores.get(t.field, 0) + 1
    for fld in NULLABLE:
        if fld[0].startswith('CO_CSDO') and not getattr(m, 'has_csdo', True):
            continue          # the SDO client is compiled out in this configuration
        if fld[0].startswith('CO_LSS') and not getattr(m, 'has_lss', True):
            continue
        if fld not in stores:
            ctx.broke(['C01'], 'RF5: frozen nullable location %s.%s no longer receives a null (or nullable) store: table stale' % fld)
    ctx.table('C01', 'RF5 store statistic (pointer fields receiving null / nullable values; frozen nullable set marked *)',
              dict(('%s.%s%s' % (f[0], f[1], '*' if f in NULLABLE else ''), c) for f, c in sorted(stores.items())))
    n_sites = 0
    for fname in sorted(m.funcs):
        fn = m.funcs[fname]
        g = m.cfg(fname)
        nf = None
        for node in g.nodes:
            if node.x is None or node.id not in g.reachable:
                continue
            for n in walk(node.x):
                base = None
                if n.k == 'mem' and n.arrow:
                    base = strip(n.kids[0])
                elif n.k == 'un' and n.op == '*':
                    base = strip(n.kids[0])
                elif n.k == 'idx' and is_pointer(strip(n.kids[0]).cty):
                    base = strip(n.kids[0])
                elif n.k == 'call':
                    f0 = strip(n.kids[0])
                    if f0.k == 'ref' and f0.refk == 'VarDecl':
                        base = f0
                    if nf is None:
                        nf = an.nullflow(fname)
                    _check_args(ctx, an, nf, m, fname, node, n)
                if base is None:
                    continue
                is_load = an.field_of_load(base) is not None
                is_var = base.k == 'ref' and base.refk == 'VarDecl'
                if not (is_load or is_var):
                    continue
                if nf is None:
                    nf = an.nullflow(fname)
                st = nf.IN.get(node.id)
                if st is None:
                    continue
                c = nf.cls(base, st, node.id)
                if c is None:
                    continue
                n_sites += 1
                fld = an.field_of_load(base)
                key = nf.pkey(base, node.id)
                src = None
                if base.k == 'ref':
                    # describe the nullable reaching definitions of the variable at this point
                    d = m.defs_of(fname)
                    parts = []
                    for dn in sorted(d.defs(node.id, base.ref)):
                        if dn < 0:
                            continue
                        for (p_, r_, n_) in flow.assigned_paths(g.nodes[dn].x):
                            if p_ is not None and len(p_) == 1 and p_[0][1] == base.ref and r_ is not None:
                                sdesc = nf._src(r_, dn)
                                if sdesc:
                                    parts.append(sdesc)
                    src = '; '.join(sorted(set(parts))[:4]) or None
                if src is None:
                    src = nf.why.get(key) if key else None
                if fld is not None and src is None:
                    src = '%s.%s' % fld
                props = ['C01']
                for f2, ps in NULLABLE.items():
                    if src and ('%s.%s' % f2) in src:
                        for p_ in ps:
                            if p_ not in props:
                                props.append(p_)
                what = show(n)[:80]
                site = '%s: %s' % (m.loc(fname, n), what)
                if fname in FUNC_WHOLE_EXC and c == 'M':
                    ctx.exception('RF5', fname, FUNC_WHOLE_EXC[fname])
                    ctx.ob(props, 'RF5', fname, site, 'exception: ' + FUNC_WHOLE_EXC[fname], nontrivial=False)
                    continue
                if c == 'N':
                    ctx.ob(props, 'RF5', fname, site, 'non-null on every path (test / address / non-null store)')
                else:
                    import re as _re
                    srcn = ','.join(sorted(set(_re.sub(r' \(line \d+\)', '', x_) for x_ in (src or '?').split('; '))))
                    ctx.ob(props, 'RF5', fname, site, None)
                    ctx.find(props, 'RF5', fname, 'deref:%s<-%s' % (show(base)[:40], srcn), m.loc(fname, n),
                             '%s dereferences `%s`, which may be null (source: %s - the library stores null there), '
                             'without a dominating non-null test' % (what, show(base), src or '?'))
    ctx.inst('RF5.deref-sites', n_sites)
    ctx.require_min(['C01'], 'RF5', n_sites, MIN_SITES, 'dereference sites of nullable values')


def _check_args(ctx, an, nf, m, fname, node, call):
    """nullable value handed to a callee that dereferences the parameter unchecked"""
    tg, ext, d = m.resolve_call(call, m.funcs[fname])
    if not tg:
        return
    st = nf.IN.get(node.id)
    if st is None:
        return
    for j, a in enumerate(call.kids[1:]):
        a0 = strip(a)
        if not is_pointer(a0.cty):
            continue
        c = nf.cls(a0, st, node.id)
        if c != 'M' or const_eval(a0) == 0:
            continue
        bad = [t for t in tg if not an.param_checked(t, j)]
        key = nf.pkey(a0, node.id)
        src = nf.why.get(key) if key else None
        site = '%s: %s argument %d' % (m.loc(fname, call), show(call)[:60], j)
        props = ['C01']
        if bad:
            ctx.ob(props, 'RF5', fname, site, None)
            ctx.find(props, 'RF5', fname, 'arg:%s->%s' % (show(a0)[:30], sorted(bad)[0]), m.loc(fname, call),
                     '`%s` may be null (source: %s) and is passed to %s which dereferences that parameter without a null check'
                     % (show(a0), src or '?', sorted(bad)[:3]))
        else:
            ctx.ob(props, 'RF5', fname, site, 'callee checks the parameter before use')
