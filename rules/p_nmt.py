"""NMT state machine and per-state service gating (C09): RF1 tables + RF2 gates."""
from canalyze.ir import walk, strip, const_eval, show, callee_name, Env
from canalyze import flow
from canalyze.peval import PEval
from tables import spec

P = ['C09']
MODES = ['CO_INVALID', 'CO_INIT', 'CO_PREOP', 'CO_OPERATIONAL', 'CO_STOP']
DECODERS = {'COSdoCheck': 'SDO', 'COCSdoCheck': 'SDO', 'CONmtCheck': 'NMT', 'CONmtHbConsCheck': 'NMT',
            'CORPdoCheck': 'PDO', 'COSyncUpdate': 'SYNC'}
# B.1: every COIfCanSend site and the gate it needs
SEND_SITES = {
    'CONodeProcess': 'dispatch',
    'COSdoUploadBlock': 'below-dispatch',
    'COCSdoInitUploadSegmented': 'below-dispatch', 'COCSdoUploadSegmented': 'below-dispatch',
    'COCSdoInitDownloadSegmented': 'below-dispatch', 'COCSdoDownloadSegmented': 'below-dispatch',
    'COCSdoRequestUpload': 'client-api', 'COCSdoRequestDownload': 'client-api', 'COCSdoAbort': 'client-api',
    'CONmtBootup': 'boot',
    'CONmtHbProdSend': ('gate', 'NMT'),
    'COTPdoTx': ('gate', 'PDO'),
    'COEmcySend': ('gate', 'EMCY'),
    'COSyncProdSend': ('gate', 'SYNC'),
}
GATE_MODES = {'PDO': set(['CO_OPERATIONAL']), 'EMCY': set(['CO_PREOP', 'CO_OPERATIONAL']),
              'SYNC': set(['CO_PREOP', 'CO_OPERATIONAL']), 'NMT': set(['CO_PREOP', 'CO_OPERATIONAL', 'CO_STOP'])}


def mode_table(m):
    g = m.globals.get('CONmtModeObj')
    if g is None or g[2] is None or g[2].k != 'init':
        from canalyze.front import AnalysisBroken
        raise AnalysisBroken('anchor table CONmtModeObj not found')
    vals = [const_eval(k, m) for k in g[2].kids]
    return dict((mode, vals[m.enum(mode)] if m.enum(mode) < len(vals) else 0) for mode in MODES)


def nmt_check_table(ctx):
    m = ctx.m
    m.need('CONmtCheck', 'CONmtSetMode', 'CONmtReset')
    pe = PEval(m, 'CONmtCheck')
    rows = {}
    own = 5
    for ident in (0, 1, 0x700):
        for tgt in (own, 0, 9, 4, 127, 255):
            for cs in range(256):
                trs = pe.run({'frm->Identifier': ident, 'frm->Data[0]': cs, 'frm->Data[1]': tgt,
                              'nmt->Node->NodeId': own})
                got = set()
                for t in trs:
                    acts = []
                    for c in t.calls():
                        if c[1] == 'CONmtSetMode':
                            acts.append(('mode', c[2][1]))
                        elif c[1] == 'CONmtReset':
                            acts.append(('reset', c[2][1]))
                        elif c[1] == 'CONmtResetRequest':
                            acts.append(('resetreq', c[2][1]))
                        else:
                            acts.append(('other', c[1]))
                    got.add((tuple(acts), t.ret))
                exp_acts = ()
                if ident == 0 and tgt in (own, 0) and cs in spec.NMT_CMD:
                    kind, name = spec.NMT_CMD[cs]
                    if kind == 'mode':
                        exp_acts = (('mode', m.enum(name)),)
                    else:
                        exp_acts = (('reset', m.enum(name)), ('resetreq', m.enum(name)))
                site = 'id=%Xh target=%d cs=%d' % (ident, tgt, cs)
                ok = len(got) == 1
                if ok:
                    (acts, ret) = list(got)[0]
                    ok = (acts == exp_acts) and ((ret is not None and ret >= 0) == (ident == 0))
                if ok:
                    ctx.ob(P, 'RF1-nmt-cmd', 'CONmtCheck', site, 'actions %s' % (exp_acts,),
                           nontrivial=bool(exp_acts) or cs in spec.NMT_CMD)
                else:
                    ctx.ob(P, 'RF1-nmt-cmd', 'CONmtCheck', site, None)
                    ctx.find(P, 'RF1-nmt-cmd', 'CONmtCheck', 'cmd:%s' % site, m.loc('CONmtCheck', m.funcs['CONmtCheck'].line),
                             'NMT frame [%s] leads to %s; CiA 301 requires actions %s and "claimed" iff identifier 0'
                             % (site, sorted(got, key=str), exp_acts))
                if exp_acts or (ident == 0 and cs in spec.NMT_CMD):
                    rows[site] = str(sorted(got, key=str))
    ctx.inst('RF1.nmt-cmd.rows', 3 * 6 * 256)
    ctx.table('C09', 'CONmtCheck (commands that act)', rows)


def dispatch_cascade(ctx):
    """decoders reacting per NMT mode, LSS first, at most one claim, leftover to the application once"""
    m = ctx.m
    m.need('CONodeProcess')
    mt = mode_table(m)
    pe = PEval(m, 'CONodeProcess')
    pe.store_filter = lambda k, f: False
    tbl = {}
    ntr = 0
    exp_dec = {
        'CO_INVALID': set(), 'CO_INIT': set(),
        'CO_PREOP': set(['SDO', 'NMT', 'SYNC']),
        'CO_OPERATIONAL': set(['SDO', 'NMT', 'SYNC', 'PDO']),
        'CO_STOP': set(['NMT']),
    }
    for mode in MODES:
        allowed = mt[mode]
        reacted = set()
        for lss in ((-1, 0, 1) if getattr(m, 'has_lss', True) else (0,)):
            for rd in (0, 1):
                trs = pe.run({'call:COIfCanRead': rd, 'node->Nmt.Allowed': allowed, 'call:COLssCheck': lss})
                for t in trs:
                    ntr += 1
                    names = t.call_names()
                    decs = [n for n in names if n in DECODERS]
                    sends = names.count('COIfCanSend')
                    recv = names.count('COIfCanReceive')
                    site = 'mode %s read=%d lss=%d decoders=%s' % (mode, rd, lss, decs)
                    bad = None
                    if rd == 0 and (decs or sends or recv or 'COLssCheck' in names):
                        bad = 'no frame was read but services run'
                    if rd == 1:
                        if 'COLssCheck' in names and decs and names.index('COLssCheck') > names.index(decs[0]):
                            bad = 'LSS is not decoded before the other services'
                        if 'COLssCheck' not in names and m.funcs.get('COLssCheck') is not None:
                            bad = 'LSS decoder not consulted'
                        if lss != 0 and (decs or recv):
                            bad = 'an LSS frame is passed on to other services / the application'
                        if lss != 0 and sends != (1 if lss > 0 else 0):
                            bad = 'LSS result %d sends %d frames' % (lss, sends)
                    # claims: allowed := 0 after a decoder
                    claims = 0
                    last_dec = None
                    after_claim = []
                    evs = [e for e in t.events if e[0] in ('call', 'set')]
                    claimed_by = None
                    for e in evs:
                        if e[0] == 'call' and e[1] in DECODERS:
                            if claimed_by is not None:
                                after_claim.append((claimed_by, e[1]))
                            last_dec = e[1]
                        elif e[0] == 'set' and e[1] == 'allowed' and e[2] == 0 and last_dec is not None:
                            if claimed_by is None:
                                claimed_by = last_dec
                            claims += 1
                    for (a, b) in after_claim:
                        if (a, b) == ('CONmtCheck', 'CONmtHbConsCheck'):
                            ctx.exception('RF2-cascade', 'CONmtCheck/CONmtHbConsCheck',
                                          'both run in one block: their identifier predicates are disjoint '
                                          '(== 0 vs 700h..77Fh), checked by RF1-nmt-disjoint')
                            continue
                        if (a, b) == ('COSdoCheck', 'COCSdoCheck'):
                            continue
                        bad = 'decoder %s runs after %s already claimed the frame' % (b, a)
                    if rd == 1 and lss == 0:
                        # "unless the node has been stopped (CONodeStop: CO_INVALID) a frame no service claims is handed to
                        # the application exactly once" - in INIT as well, where no service is permitted
                        if claimed_by is None and mode != 'CO_INVALID' and recv != 1:
                            bad = 'unclaimed frame handed to the application %d times in %s' % (recv, mode)
                        if claimed_by is None and allowed != 0 and recv != 1:
                            bad = 'unclaimed frame handed to the application %d times' % recv
                        if claimed_by is None and allowed != 0 and sends:
                            bad = 'transmission on the unclaimed-frame path'
                        if claimed_by is not None and recv:
                            bad = 'claimed frame also handed to the application'
                        if allowed == 0 and (decs or (recv and mode == 'CO_INVALID')):
                            bad = 'services react although nothing is allowed'
                    for d in decs:
                        reacted.add(DECODERS[d])
                    if bad:
                        ctx.ob(P, 'RF2-cascade', 'CONodeProcess', site, None)
                        # an LSS frame (request or answer) that leaks past the LSS stage: also the LSS property
                        ctx.find(P + (['C18'] if 'LSS' in bad else []), 'RF2-cascade', 'CONodeProcess', 'cascade:%s' % bad, m.loc('CONodeProcess', m.funcs['CONodeProcess'].line),
                                 '%s (path: %s)' % (bad, site))
                    else:
                        ctx.ob(P, 'RF2-cascade', 'CONodeProcess', site, 'one claim at most, leftover once')
        tbl[mode] = sorted(reacted)
        site = 'mode %s (mask %02Xh)' % (mode, allowed)
        if reacted == exp_dec[mode]:
            ctx.ob(P, 'RF1-nmt-services', 'CONodeProcess', site, 'decoders reacting: %s' % sorted(reacted))
        else:
            ctx.ob(P, 'RF1-nmt-services', 'CONodeProcess', site, None)
            ctx.find(P, 'RF1-nmt-services', 'CONodeProcess', 'services:%s' % mode, m.loc('CONodeProcess', m.funcs['CONodeProcess'].line),
                     'in NMT mode %s the frame decoders of %s react, CiA 301 allows exactly %s'
                     % (mode, sorted(reacted), sorted(exp_dec[mode])))
    # second pass with every decoder result bound: the claimant is the first decoder that recognises the frame
    import itertools
    NONE, ABRT, SIL = m.enum('CO_ERR_NONE'), m.enum('CO_ERR_SDO_ABORT'), m.enum('CO_ERR_SDO_SILENT')
    dom = [('COSdoCheck', (0, 1)), ('COSdoResponse', (NONE, ABRT, SIL)), ('COCSdoCheck', (0, 1)), ('COCSdoResponse', (NONE, SIL)),
           ('CONmtCheck', (-1, 0)), ('CONmtHbConsCheck', (-1, 5)), ('CORPdoCheck', (0, 1)), ('COSyncUpdate', (-1, 0))]
    dom = [(n, v) for (n, v) in dom if n in m.funcs]
    positive = {'COSdoCheck': lambda v: v != 0, 'COCSdoCheck': lambda v: v != 0, 'CONmtCheck': lambda v: v >= 0,
                'CONmtHbConsCheck': lambda v: v >= 0, 'CORPdoCheck': lambda v: v != 0, 'COSyncUpdate': lambda v: v >= 0}
    seen_bad = set()
    for mode in MODES:
        allowed = mt[mode]
        if allowed == 0:
            continue
        for combo in itertools.product(*[v for (n, v) in dom]):
            inputs = {'call:COIfCanRead': 1, 'node->Nmt.Allowed': allowed, 'call:COLssCheck': 0}
            vals = {}
            for (n, _), v in zip(dom, combo):
                inputs['call:' + n] = v
                vals[n] = v
            trs = pe.run(inputs)
            for t in trs:
                ntr += 1
                names = t.call_names()
                decs = [n for n in names if n in DECODERS]
                claimant = None
                bad = None
                for d_ in decs:
                    if claimant is None:
                        if positive[d_](vals[d_]):
                            claimant = d_
                    else:
                        if (claimant, d_) == ('CONmtCheck', 'CONmtHbConsCheck'):
                            continue
                        bad = '%s still runs after %s recognised the frame: one frame is handled by two services' % (d_, claimant)
                recv = names.count('COIfCanReceive')
                sends = names.count('COIfCanSend')
                if claimant is not None and recv:
                    bad = 'a frame that %s recognised is also handed to the application callback' % claimant
                if claimant is None and recv != 1:
                    bad = 'unclaimed frame handed to the application %d times' % recv
                if claimant is None and sends:
                    bad = 'transmission although no service claimed the frame'
                if claimant in ('COSdoCheck', 'COCSdoCheck'):
                    rn = 'COSdoResponse' if claimant == 'COSdoCheck' else 'COCSdoResponse'
                    want = 1 if vals.get(rn) in (NONE, ABRT) else 0
                    if sends != want:
                        bad = '%d frames sent for %s result %s' % (sends, rn, vals.get(rn))
                elif claimant is not None and sends:
                    bad = 'dispatcher transmits for %s' % claimant
                if bad and bad not in seen_bad:
                    seen_bad.add(bad)
                    ctx.ob(P, 'RF2-cascade', 'CONodeProcess', 'mode %s results %s' % (mode, vals), None)
                    ctx.find(P, 'RF2-cascade', 'CONodeProcess', 'claim:%s' % bad.split(':')[0][:60], m.loc('CONodeProcess', m.funcs['CONodeProcess'].line),
                             '%s (mode %s, decoder results %s)' % (bad, mode, vals))
                elif not bad:
                    ctx.ob(P, 'RF2-cascade', 'CONodeProcess', 'mode %s claimant %s' % (mode, claimant), 'one service at most; leftover once',
                           nontrivial=False)
    ctx.inst('RF2.cascade.traces', ntr)
    ctx.require_min(P, 'RF2-cascade', ntr, 40, 'dispatch traces')
    ctx.table('C09', 'decoders reacting per NMT mode', tbl)
    # disjointness of the two NMT-block decoders
    pe1 = PEval(m, 'CONmtCheck')
    pe2 = PEval(m, 'CONmtHbConsCheck')
    for ident in (0, 0x6FF, 0x700, 0x77F, 0x780):
        r1 = set(t.ret for t in pe1.run({'frm->Identifier': ident}))
        c1 = any(r is None or r >= 0 for r in r1)
        r2 = set(t.ret for t in pe2.run({'frm->Identifier': ident}))
        c2 = any(r is None or r >= 0 for r in r2)
        site = 'identifier %Xh' % ident
        if c1 and c2:
            ctx.ob(P, 'RF1-nmt-disjoint', 'CONmtCheck', site, None)
            ctx.find(P, 'RF1-nmt-disjoint', 'CONmtCheck', 'overlap', m.loc('CONmtCheck', m.funcs['CONmtCheck'].line),
                     'NMT command decoder and heartbeat consumer can both claim identifier %Xh' % ident)
        else:
            ctx.ob(P, 'RF1-nmt-disjoint', 'CONmtCheck', site, 'claimed by at most one of the two')


def _mask_gate(m, fname, node, field=('CO_NMT', 'Allowed')):
    """masks M such that the fact (X.Allowed & M) != 0 holds at node"""
    out = []
    for f in (m.facts(fname).get(node) or ()):
        x = strip(f.x)
        if x.k == 'bin' and x.op in ('==', '!=', '>'):
            a, b = x.kids
            for (l, r) in ((a, b), (b, a)):
                ls = strip(l)
                if ls.k == 'bin' and ls.op == '&' and const_eval(r, m) == 0:
                    p, q = ls.kids
                    for (u, v) in ((p, q), (q, p)):
                        mk = const_eval(v, m)
                        us = strip(u)
                        if mk is not None and us.k == 'mem' and us.field == field:
                            nonzero = (x.op in ('!=', '>')) == f.pol
                            if nonzero:
                                out.append(mk)
    return out


def producer_gates(ctx):
    m = ctx.m
    mt = mode_table(m)
    sites = m.call_sites('COIfCanSend')
    ctx.inst('RF2.send-sites', len(sites))
    ctx.require_min(P, 'RF2-send-gate', len(sites), 14 if getattr(m, 'has_csdo', True) else 8, 'COIfCanSend call sites')
    for (fname, call) in sorted(sites, key=lambda s: (s[0], s[1].line)):
        site = '%s: %s' % (m.loc(fname, call), fname)
        kind = SEND_SITES.get(fname)
        if kind is None:
            ctx.ob(P, 'RF2-send-gate', fname, site, None)
            ctx.find(P, 'RF2-send-gate', fname, 'new-send-site', m.loc(fname, call),
                     'new transmission site: %s sends a CAN frame but is not in the table of senders with a checked '
                     'NMT gate (who-may-send rule)' % fname)
            continue
        if isinstance(kind, tuple):
            svc = kind[1]
            nid = m.node_of(fname, call)
            masks = _mask_gate(m, fname, nid)
            good = None
            for mk in masks:
                modes = set(mo for mo in MODES if mt[mo] & mk)
                if modes == GATE_MODES[svc]:
                    good = mk
            if good is not None:
                ctx.ob(P, 'RF2-send-gate', fname, site, 'dominated by (Allowed & %02Xh) != 0, set exactly in %s'
                       % (good, sorted(GATE_MODES[svc])))
            else:
                ctx.ob(P, 'RF2-send-gate', fname, site, None)
                ctx.find(P, 'RF2-send-gate', fname, 'gate:%s' % svc, m.loc(fname, call),
                         '%s transmits without a dominating NMT gate that holds exactly in %s (gates seen: %s)'
                         % (fname, sorted(GATE_MODES[svc]), [hex(x) for x in masks]))
        elif kind == 'below-dispatch':
            roots = [f for f in m.funcs if fname in m.reachable_funcs([f]) and not m.callers.get(f)
                     and f not in m.addr_taken]
            ok = all(r == 'CONodeProcess' for r in roots) and fname not in m.addr_taken
            if ok:
                ctx.ob(P, 'RF2-send-gate', fname, site, 'reached only below the gated dispatch in CONodeProcess')
            else:
                ctx.ob(P, 'RF2-send-gate', fname, site, None)
                ctx.find(P, 'RF2-send-gate', fname, 'ungated-entry', m.loc(fname, call),
                         '%s can be entered from %s, outside the gated frame dispatch' % (fname, roots))
        elif kind == 'client-api':
            ctx.exception('RF2-send-gate', fname, 'SDO client API / timeout abort: outside C09\'s alphabet')
            ctx.ob(P, 'RF2-send-gate', fname, site, 'exempt (client API)', nontrivial=False)
        elif kind == 'dispatch':
            ctx.ob(P, 'RF2-send-gate', fname, site, 'inside the dispatch cascade (checked by RF2-cascade)')
        elif kind == 'boot':
            pass
    # boot-up
    m.need('CONmtBootup')
    pe = PEval(m, 'CONmtBootup')
    for mode in MODES:
        trs = pe.run({'nmt->Mode': m.enum(mode), 'nmt->Node->NodeId': 5})
        for t in trs:
            names = t.call_names()
            sends = names.count('COIfCanSend')
            st = dict((e[1], e[2]) for e in t.stores())
            site = 'CONmtBootup in mode %s' % mode
            if mode == 'CO_INIT':
                ok = sends == 1 and names[:1] == ['CONmtSetMode'] and \
                    [c[2][1] for c in t.calls() if c[1] == 'CONmtSetMode'] == [m.enum('CO_PREOP')] and \
                    st.get('frm.Identifier') == 0x700 + 5 and st.get('frm.DLC') == 1 and st.get('frm.Data[0]') == 0
            else:
                ok = sends == 0 and not names
            if ok:
                ctx.ob(P, 'RF1-bootup', 'CONmtBootup', site, 'boot-up frame 700h+id/1/00h after entering PRE-OPERATIONAL'
                       if mode == 'CO_INIT' else 'nothing sent')
            else:
                ctx.ob(P, 'RF1-bootup', 'CONmtBootup', site, None)
                ctx.find(P, 'RF1-bootup', 'CONmtBootup', 'bootup:%s' % mode, m.loc('CONmtBootup', m.funcs['CONmtBootup'].line),
                         'boot-up in mode %s: calls %s, stores %s' % (mode, names, st))
    callers = sorted(set(c for (c, n) in m.callers.get('CONmtBootup', [])))
    if callers == ['CONmtReset', 'CONodeStart']:
        ctx.ob(P, 'RF1-bootup', 'CONmtBootup', 'callers', 'only CONodeStart and CONmtReset')
    else:
        ctx.ob(P, 'RF1-bootup', 'CONmtBootup', 'callers', None)
        ctx.find(P, 'RF1-bootup', 'CONmtBootup', 'callers', m.loc('CONmtBootup', m.funcs['CONmtBootup'].line),
                 'boot-up is triggered from %s; only node start and reset may' % callers)


def mode_writer(ctx):
    """CONmtSetMode is the only writer of Mode/Allowed and assigns Allowed from the table on every path"""
    m = ctx.m
    for fname, fn in sorted(m.funcs.items()):
        for n in walk(fn.body):
            if n.k == 'bin' and n.op.endswith('=') and n.op not in ('==', '!=', '<=', '>='):
                l = strip(n.kids[0])
                if l.k == 'mem' and l.field in (('CO_NMT', 'Mode'), ('CO_NMT', 'Allowed')):
                    site = '%s: %s' % (m.loc(fname, n), show(n))
                    if fname == 'CONmtSetMode':
                        ctx.ob(P, 'RF2-mode-writer', fname, site, 'the state-machine writer')
                    else:
                        ctx.ob(P, 'RF2-mode-writer', fname, site, None)
                        ctx.find(P, 'RF2-mode-writer', fname, 'foreign-writer:%s' % l.field[1], m.loc(fname, n),
                                 '%s writes CO_NMT.%s directly; mode and service mask must change together through '
                                 'CONmtSetMode' % (fname, l.field[1]))
    pe = PEval(m, 'CONmtSetMode')
    mt = mode_table(m)
    for old in MODES:
        for new in MODES:
            trs = pe.run({'nmt': 1, 'mode': m.enum(new), 'nmt->Mode': m.enum(old)})
            for t in trs:
                st = dict((e[1], e[2]) for e in t.stores())
                site = 'CONmtSetMode %s -> %s' % (old, new)
                names = t.call_names()
                ok = st.get('nmt->Mode') == m.enum(new) and st.get('nmt->Allowed') == mt[new]
                cb = names.count('CONmtModeChange')
                ok = ok and cb == (1 if old != new else 0)
                # PDO (re-)initialisation exactly on a real transition INTO operational: a redundant start command on a
                # node that is operational already must not re-initialise the PDOs (deferred / timed transmissions in
                # flight would be lost), and leaving or staying elsewhere must not initialise them either
                pdo_inits = names.count('COTPdoInit') + names.count('CORPdoInit')
                want_inits = 2 if (new == 'CO_OPERATIONAL' and old != new) else 0
                if ok and pdo_inits != want_inits:
                    ctx.ob(P + ['C12', 'C13'], 'RF1-setmode', 'CONmtSetMode', site + ' (PDO initialisation)', None)
                    ctx.find(P + ['C12', 'C13', 'C14', 'C16'], 'RF1-setmode', 'CONmtSetMode', 'setmode-pdo-init:%s:%s' % (old, new),
                             m.loc('CONmtSetMode', m.funcs['CONmtSetMode'].line),
                             'transition %s -> %s initialises the PDOs %d times, required %d (exactly on a real transition into '
                             'OPERATIONAL: TPDO and RPDO once each)' % (old, new, pdo_inits, want_inits))
                    continue
                if ok:
                    ctx.ob(P, 'RF1-setmode', 'CONmtSetMode', site, 'Mode and Allowed=%02Xh stored, %d change callback' % (mt[new], cb))
                else:
                    ctx.ob(P, 'RF1-setmode', 'CONmtSetMode', site, None)
                    ctx.find(P, 'RF1-setmode', 'CONmtSetMode', 'setmode:%s:%s' % (old, new),
                             m.loc('CONmtSetMode', m.funcs['CONmtSetMode'].line),
                             'transition %s -> %s stores %s and calls %s; required Mode=%d Allowed=%02Xh and the change '
                             'callback exactly when the mode differs' % (old, new, st, names, m.enum(new), mt[new]))


def hb_code_table(ctx, props=('C09', 'C10')):
    m = ctx.m
    g = m.globals.get('CONmtModeCode')
    if g is None or g[2] is None:
        ctx.broke(list(props), 'anchor table CONmtModeCode not found')
        return
    vals = [const_eval(k, m) for k in g[2].kids]
    for mode, code in spec.NMT_HB_CODE.items():
        got = vals[m.enum(mode)] if m.enum(mode) < len(vals) else None
        site = 'CONmtModeCode[%s]' % mode
        if got == code:
            ctx.ob(list(props), 'RF1-hb-code', 'CONmtModeCode', site, 'state byte %d' % code)
        else:
            ctx.ob(list(props), 'RF1-hb-code', 'CONmtModeCode', site, None)
            ctx.find(list(props), 'RF1-hb-code', 'CONmtModeCode', 'code:%s' % mode, 'src/core/co_nmt.c:%d' % (g[4] or 0),
                     'heartbeat state byte for %s is %s, CiA 301 requires %d' % (mode, got, code))
    # the encode function reads the table with the mode as index
    pe = PEval(m, 'CONmtModeEncode')
    for mode, code in spec.NMT_HB_CODE.items():
        trs = pe.run({'mode': m.enum(mode)})
        rets = set(t.ret for t in trs)
        site = 'CONmtModeEncode(%s)' % mode
        if rets == set([code]):
            ctx.ob(list(props), 'RF1-hb-code', 'CONmtModeEncode', site, 'returns %d' % code)
        else:
            ctx.ob(list(props), 'RF1-hb-code', 'CONmtModeEncode', site, None)
            ctx.find(list(props), 'RF1-hb-code', 'CONmtModeEncode', 'encode:%s' % mode,
                     m.loc('CONmtModeEncode', m.funcs['CONmtModeEncode'].line),
                     'encoding of %s returns %s, required %d' % (mode, sorted(rets, key=str), code))
    # the decode function (heartbeat consumer side) inverts the table for every defined state byte and
    # maps everything else to CO_INVALID
    m.need('CONmtModeDecode')
    pd = PEval(m, 'CONmtModeDecode')
    dprops = ['C11']
    inv = dict((code, mode) for mode, code in spec.NMT_HB_CODE.items())
    for code in sorted(set(list(inv) + [1, 2, 3, 6, 126, 128, 255])):
        want = m.enum(inv[code]) if code in inv else m.enum('CO_INVALID')
        trs = pd.run({'code': code})
        rets = set(t.ret for t in trs)
        site = 'CONmtModeDecode(%d)' % code
        if rets == set([want]):
            ctx.ob(dprops, 'RF1-hb-code', 'CONmtModeDecode', site, 'returns %s' % (inv.get(code, 'CO_INVALID')))
        else:
            ctx.ob(dprops, 'RF1-hb-code', 'CONmtModeDecode', site, None)
            ctx.find(dprops, 'RF1-hb-code', 'CONmtModeDecode', 'decode:%d' % code,
                     m.loc('CONmtModeDecode', m.funcs['CONmtModeDecode'].line),
                     'heartbeat state byte %d decodes to %s, required %s (%d)' % (code, sorted(rets, key=str), inv.get(code, 'CO_INVALID'), want))


def cascade_order(ctx):
    """Identifier 0 belongs to NMT.  A decoder whose cached identifier is 0 while its service is not configured (SYNC after
    COSyncInit / without 1005h / after every reset communication) would claim every NMT command if it saw the frame
    first: in the dispatch cascade the NMT decoder is consulted before every such decoder."""
    m = ctx.m
    f = 'CONodeProcess'
    m.need(f, 'CONmtCheck', 'COSyncUpdate')
    g = m.cfg(f)

    def reaches(callee, name, depth=0):
        # a stage may have been extracted into a helper the tables do not know: look through such helpers
        if callee == name:
            return True
        if callee is None or depth > 3 or not m.is_new_helper(callee):
            return False
        return any(reaches(c2, name, depth + 1) for c2 in m.callees(callee))

    def call_nodes(name):
        return [nd.id for nd in g.nodes if nd.x is not None and any(c.k == 'call' and reaches(callee_name(c), name) for c in walk(nd.x))]
    nmt_nodes = call_nodes('CONmtCheck')
    checked = 0
    for (dec, binding) in (('COSyncUpdate', {'sync': 1, 'frm': 1, 'frm->Identifier': 0, 'sync->CobId': 0}),):
        pe = PEval(m, dec)
        trs = pe.run(dict(binding))
        claims0 = any(t.ret is None or t.ret >= 0 for t in trs)
        site = '%s: identifier 0 while its cached identifier is 0' % dec
        if not claims0:
            ctx.ob(P, 'RF2-cascade-order', f, site, 'never claims identifier 0', nontrivial=False)
            continue
        for dn in call_nodes(dec):
            checked += 1
            after = flow.reach_from(g, dn)
            before_ok = any(dn in flow.reach_from(g, nn) for nn in nmt_nodes)
            wrong = [nn for nn in nmt_nodes if nn in after]
            s2 = '%s: %s is consulted after CONmtCheck' % (m.loc(f, g.nodes[dn].line), dec)
            if wrong or not before_ok:
                ctx.ob(P + ['C16'], 'RF2-cascade-order', f, s2, None)
                ctx.find(P + ['C16'], 'RF2-cascade-order', f, 'before-nmt:%s' % dec, m.loc(f, g.nodes[dn].line),
                         '%s claims identifier 0 while its cached identifier is 0 (not configured / after reset communication) and is '
                         'consulted before CONmtCheck in the dispatch cascade: every NMT command is consumed as a %s frame and '
                         'the node stops following start / stop / reset' % (dec, dec.replace('CO', '').replace('Update', '').upper()))
            else:
                ctx.ob(P + ['C16'], 'RF2-cascade-order', f, s2, 'NMT decoder first')
    ctx.require_min(P, 'RF2-cascade-order', len(nmt_nodes), 1, 'CONmtCheck call in the dispatch cascade')


def run(ctx):
    nmt_check_table(ctx)
    dispatch_cascade(ctx)
    cascade_order(ctx)
    producer_gates(ctx)
    mode_writer(ctx)
    hb_code_table(ctx)
