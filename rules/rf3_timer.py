"""RF3 - timer-handle typestate (H1 no armed handle overwritten, H2 no dangling
handle, H3 release-on-reset via requirement propagation, H4 state-implies-
released invariants).  See DESIGN.md section 4."""
from canalyze.ir import (walk, strip, const_eval, show, callee_name, Env)
from canalyze import flow
from canalyze.canon import Canon, translate
from tables import api
from canalyze.front import AnalysisBroken

R, A, E, D, F_, DE = 'R', 'A', 'E', 'D', 'F', 'd'
DEFAULT = frozenset([R, E])

# which property talks about which handle (B.2); handles absent here -> NOTE only
HANDLE_PROPS = {
    ('CO_NMT', 'Tmr'): ['C10'],
    ('CO_TPDO', 'EvTmr'): ['C12'],
    ('CO_TPDO', 'InTmr'): ['C12'],
    ('CO_SYNC', 'Tmr'): ['C16'],
    ('CO_HBCONS', 'Tmr'): ['C11'],
    ('CO_CSDO_TRANSFER', 'Tmr'): ['C19'],
    ('CO_LSS', 'Tmr'): [],
}
MIN_HANDLES = 7
MIN_SITES = 50
PROP_BOUND = 4

# H4 invariants: predicate field, sibling handle, relation
#  kind 'ne-const': handle released whenever  pred != <enumerator>
#  kind 'bit-clear': handle released iff (pred & <mask enumerator/macro value>) == 0
H4 = [
    {'name': 'csdo-busy', 'pred': ('CO_CSDO', 'State'), 'kind': 'ne-const', 'const': 'CO_CSDO_STATE_BUSY',
     'handle': ('CO_CSDO_TRANSFER', 'Tmr'), 'suffix_from_pred': ('State', 'Tfer.Tmr'), 'iff': False},
    {'name': 'tpdo-inhibit', 'pred': ('CO_TPDO', 'Flags'), 'kind': 'bit-clear', 'mask': 0x02,
     'handle': ('CO_TPDO', 'InTmr'), 'suffix_from_pred': ('Flags', 'InTmr'), 'iff': True},
]

# (iii) exceptions: releasing InTmr without clearing the I flag
H4_III_EXCEPT = {
    'COTmrClear': 'stack-timer clear on node stop / reset: TPDOs are not used again before '
                  'COTPdoInit->COTPdoReset stores Flags = 0 on the way back to OPERATIONAL',
}


def _is_create(x):
    x = strip(x)
    return x is not None and x.k == 'call' and callee_name(x) == 'COTmrCreate'


def _is_delete(x):
    x = strip(x)
    return x is not None and x.k == 'call' and callee_name(x) == 'COTmrDelete'


def _last_field(x):
    x = strip(x)
    if x is not None and x.k == 'mem':
        return x.field
    return None


class Handles(object):
    """Discovery of handle fields, their callbacks and all handle sites."""

    def __init__(self, m):
        self.m = m
        self.fields = {}       # field -> {'creates': [(func, node X)], 'cbs': set}
        self.cb_oneshot = {}   # callback function -> set of fields for which it is the one-shot callback
        self.sites = 0
        cb_fields = {}
        cb_cyc = {}
        for fname, fn in m.funcs.items():
            for n in walk(fn.body):
                if n.k == 'bin' and n.op == '=' and _is_create(n.kids[1]):
                    fld = _last_field(n.kids[0])
                    if fld is None:
                        continue
                    c = strip(n.kids[1])
                    rec = self.fields.setdefault(fld, {'creates': [], 'cbs': set()})
                    rec['creates'].append((fname, n))
                    args = c.kids[1:]
                    if len(args) >= 4:
                        cb = strip(args[3])
                        if cb.k == 'un' and cb.op == '&':
                            cb = strip(cb.kids[0])
                        if cb.k == 'ref' and cb.refk == 'FunctionDecl':
                            rec['cbs'].add(cb.name)
                            cb_fields.setdefault(cb.name, set()).add(fld)
                            cyc = const_eval(args[2])
                            cb_cyc.setdefault(cb.name, []).append(cyc)
        for cb, flds in cb_fields.items():
            if len(flds) == 1 and all(c == 0 for c in cb_cyc[cb]):
                self.cb_oneshot[cb] = set(flds)
        # every create must store into a field (a create whose result is dropped or kept in a local is refused)
        for fname, fn in m.funcs.items():
            for n in walk(fn.body):
                if n.k == 'call' and callee_name(n) == 'COTmrCreate':
                    self.sites += 1
                elif n.k == 'call' and callee_name(n) == 'COTmrDelete':
                    self.sites += 1
                elif n.k == 'bin' and n.op.endswith('=') and n.op not in ('==', '!=', '<=', '>=') \
                        and _last_field(n.kids[0]) in self.fields:
                    self.sites += 1

    def is_handle(self, fld):
        return fld in self.fields


def _touchsets(m, handles):
    """per function: (arm, rel) handle fields it may arm (create/other store) or release
    (delete / store -1), transitively through resolved calls"""
    arm = {}
    rel = {}
    for fname, fn in m.funcs.items():
        a = set()
        r = set()
        for n in walk(fn.body):
            if n.k == 'call' and callee_name(n) == 'COTmrDelete' and len(n.kids) >= 3:
                f = _last_field(n.kids[2])
                if f in handles.fields:
                    r.add(f)
            elif n.k == 'bin' and n.op.endswith('=') and n.op not in ('==', '!=', '<=', '>='):
                f = _last_field(n.kids[0])
                if f in handles.fields:
                    cv = const_eval(n.kids[1], m) if n.op == '=' else None
                    if cv is not None and cv < 0:
                        r.add(f)
                    else:
                        a.add(f)
        arm[fname] = a
        rel[fname] = r
    ch = True
    while ch:
        ch = False
        for f in m.funcs:
            b = (len(arm[f]), len(rel[f]))
            for (n, tg, ext, d) in m.calls[f]:
                for t in (tg or ()):
                    arm[f] |= arm.get(t, set())
                    rel[f] |= rel.get(t, set())
            if (len(arm[f]), len(rel[f])) != b:
                ch = True
    return arm, rel


class FnResult(object):
    def __init__(self):
        self.IN = None
        self.h1_local = []     # (node, path, field, tags)
        self.h1_entry = []     # (node, path, field, root param index or None, suffix)
        self.h2 = []           # (exit node, path, field)
        self.h4_i_local = []   # (node, inv, path)
        self.h4_i_entry = []
        self.stores = []       # (node, path, field, kind, tags-before)
        self.deletes = []
        self.obl = []


class Typestate(object):
    def __init__(self, m, handles, ctx):
        self.m = m
        self.h = handles
        self.ctx = ctx
        self.arm, self.rel = _touchsets(m, handles)
        self.touch = dict((f, self.arm[f] | self.rel[f]) for f in m.funcs)
        self.memo = {}
        self.summ = {}
        self.inprog = set()

    # ---------------------------------------------------------- callee summaries
    def summary(self, fname):
        """(paths, anyfx): paths = [(callee path string, field, exit tags)] for instances
        expressible over the callee's parameters; anyfx = {field: 'arm'|'rel'} for the rest."""
        if fname in self.summ:
            return self.summ[fname]
        if fname in self.inprog:
            return None
        self.inprog.add(fname)
        try:
            res = self.analyse(fname)
        finally:
            self.inprog.discard(fname)
        fn = self.m.funcs[fname]
        g = self.m.cfg(fname)
        params = set(prm[3] for prm in fn.params) - res.canon.assigned
        exit_state = None
        for (pred, lab) in g.exit.pred:
            st = res.OUT.get(pred)
            if st is None:
                continue
            exit_state = st if exit_state is None else res.join(exit_state, st)
        paths = []
        anyfx = {}

        def bump(fld, kind):
            if kind == 'arm' or anyfx.get(fld) == 'arm':
                anyfx[fld] = 'arm'
            else:
                anyfx[fld] = 'rel'
        if exit_state is None:
            self.summ[fname] = ([], {})
            return self.summ[fname]
        tracked = set()
        for k, t in exit_state.items():
            if k[0] == 'P':
                deps, fld = res.pathinfo[k[1]]
                if deps <= params:
                    paths.append((k[1], fld, t))
                    tracked.add(k[1])
                else:
                    bump(fld, 'arm' if A in t else 'rel')
            elif k[0] == 'F':
                if A in t:
                    bump(k[1], 'arm')
                elif t != DEFAULT:
                    bump(k[1], 'rel')
        relall = {}
        for (node, p, fld, kind, t, n) in res.stores:
            if p not in tracked:
                bump(fld, 'rel' if kind == 'release' else 'arm')
                if kind == 'release' and not (t & frozenset([A, E])) and \
                        (self._full_loop(fname, node, p) or self._chain_loop(fname, node, p, res)) and \
                        self._released_at_iteration_end(fname, node, p, fld, res):
                    relall.setdefault(fld, True)
                else:
                    relall[fld] = False
        for (node, p, fld, t) in res.deletes:
            if p not in tracked:
                bump(fld, 'rel')
        for fld, ok in relall.items():
            if ok and anyfx.get(fld) == 'rel':
                anyfx[fld] = 'relall'
        self.summ[fname] = (paths, anyfx)
        return self.summ[fname]

    def _released_at_iteration_end(self, fname, node, p, fld, res):
        """at the end of every iteration of the loop around `node` (before the index / cursor advances) the
        instance p is released on every path - including the paths that skip the release block"""
        g = self.m.cfg(fname)
        if not node.loops:
            return False
        lp = g.loops[node.loops[-1]]
        # nodes that advance the loop variable / cursor: sources of back edges or the for-increment
        ends = set()
        for nid in lp.nodes:
            for (t, lab) in g.nodes[nid].succ:
                if t == lp.head:
                    ends.add(nid)
        if not ends:
            return False
        deps = res.pathinfo[p][0]
        for e in ends:
            # state before the statement that changes a variable the path depends on
            cur = e
            nd = g.nodes[cur]
            st = res.IN.get(cur)
            # walk back over statements that assign the path's variables (i++ / cursor = cursor->Next)
            while st is not None and ('P', p) not in st and len(nd.pred) == 1:
                cur = nd.pred[0][0]
                nd = g.nodes[cur]
                st = res.IN.get(cur)
            if st is None:
                continue
            tags = st.get(('P', p))
            if tags is None or not tags <= frozenset([R]):
                return False
        return True

    def _chain_loop(self, fname, node, p, res):
        """the store at `node` to cursor->H sits in `while (cursor != 0) { ...; cursor = cursor->Next; }`
        whose cursor starts at a list head field: every chained instance is visited"""
        m = self.m
        g = m.cfg(fname)
        for lid in node.loops:
            lp = g.loops[lid]
            if lp.kind not in ('while', 'for'):
                continue
            cond = lp.x.kids[0] if lp.kind == 'while' else lp.x.kids[2]
            c0 = strip(cond) if cond is not None else None
            if c0 is None:
                continue
            cur = None
            if c0.k == 'bin' and c0.op == '!=' and const_eval(c0.kids[1]) == 0 and strip(c0.kids[0]).k == 'ref':
                cur = strip(c0.kids[0])
            elif c0.k == 'ref':
                cur = c0
            if cur is None or not p.startswith(cur.name + '->'):
                continue
            # every path through the body advances the cursor along a link field
            adv = set()
            for nid in lp.nodes:
                nd = g.nodes[nid]
                if nd.x is None:
                    continue
                for (pp, rhs, n2) in flow.assigned_paths(nd.x):
                    if pp is not None and len(pp) == 1 and pp[0][1] == cur.ref and rhs is not None:
                        r = strip(rhs)
                        if r.k == 'mem' and r.arrow and strip(r.kids[0]).k == 'ref' and strip(r.kids[0]).ref == cur.ref:
                            adv.add(nid)
                        else:
                            return False
            if not adv:
                continue
            # no way round the loop body that skips the advance or the release
            body_entry = [t for (t, lab) in g.nodes[lp.cond_nodes[-1]].succ if t in lp.nodes] if lp.cond_nodes else []
            if not body_entry:
                continue
            skip = flow.reach_from(g, body_entry[0], avoid=set([node.id]), include_start=True)
            if lp.head in skip:
                continue
            return True
        return False

    def _full_loop(self, fname, node, p):
        """the store at `node` to instance p = base[i].H sits in `for (i = 0; i < N; i++)` with N the
        extent of the array field `base` ends in: every instance is visited"""
        from canalyze.ir import array_extent
        m = self.m
        g = m.cfg(fname)
        for lid in node.loops:
            cl = m.counted_loop(fname, lid, at=node.id)
            if cl is None:
                continue
            ref, name, bound = cl
            if ('[%s]' % name) not in p:
                continue
            base = p.split('[%s]' % name)[0]
            fldname = base.replace('->', '.').split('.')[-1]
            for rec, flds in m.records.items():
                for (fn_, ty, cty) in flds:
                    if fn_ == fldname and array_extent(cty) is not None and array_extent(cty) == bound:
                        return True
        return False

    # ---------------------------------------------------------- per function analysis
    def analyse(self, fname, pconst=()):
        key = (fname, tuple(pconst))
        if key in self.memo:
            return self.memo[key]
        m = self.m
        g = m.cfg(fname)
        fn = m.funcs[fname]
        cn = Canon(m, fname)
        res = FnResult()
        envvars = {}
        for (idx, val) in pconst:
            pid = fn.params[idx][3]
            if pid not in cn.assigned:
                envvars[pid] = val
        env = Env(vars=envvars, enums=m.enums)
        own = self.h.cb_oneshot.get(fname, set())
        init = {}
        for fld in own:
            init[('F', fld)] = frozenset([R])
        pathinfo = {}    # pathstr -> (vars, field)
        handles = self.h
        ARMED = frozenset([A, E, D, DE, F_])

        def dflt(fld):
            return frozenset([R]) if fld in own else DEFAULT

        def hpath(nid, x):
            fld = _last_field(x)
            if fld is None or not handles.is_handle(fld):
                return None
            c = cn.canon(nid, x)
            if c is None:
                return None
            pathinfo[c[0]] = (c[1], fld)
            return c[0]

        def get(s, p):
            t = s.get(('P', p))
            if t is not None:
                return t
            fld = pathinfo[p][1]
            return s.get(('F', fld), dflt(fld))

        def setp(s, p, tags):
            s = dict(s)
            s[('P', p)] = frozenset(tags)
            return s

        def invalidate_var(s, vid, keep_bind=None):
            out = None
            for k in list(s.keys()):
                dead = False
                if k[0] == 'P' and vid in pathinfo[k[1]][0]:
                    dead = True
                elif k[0] in ('B', 'PRE', 'C') and k[1] == vid and k[1] != keep_bind:
                    dead = True
                elif k[0] == 'B' and vid in pathinfo.get(s[k], (frozenset(),))[0]:
                    dead = True
                if dead:
                    if out is None:
                        out = dict(s)
                    out.pop(k, None)
            return out if out is not None else s

        def havoc(s, fld, kind):
            """a callee may arm / release some instance of handle field fld"""
            out = dict(s)
            add = frozenset([R, A]) if kind == 'arm' else frozenset([R])
            for k in list(out.keys()):
                if k[0] == 'P' and pathinfo[k[1]][1] == fld:
                    out[k] = out[k] | add
            out[('F', fld)] = out.get(('F', fld), dflt(fld)) | add
            return out

        record = [False]

        def apply_call(s, node, n):
            tg, ext, descr = m.resolve_call(n, fn)
            if tg is None:
                for f in handles.fields:
                    s = havoc(s, f, 'arm')
                return s
            tg = [t for t in tg if self.touch.get(t)]
            if not tg:
                return s
            if len(tg) == 1:
                sm = self.summary(tg[0])
                if sm is not None:
                    paths, anyfx = sm
                    for (cp, fld, et) in paths:
                        tr_ = translate(m, tg[0], n, cn, node.id, cp)
                        if tr_ is None:
                            if et != DEFAULT:
                                s = havoc(s, fld, 'arm' if A in et else 'rel')
                            continue
                        P, deps = tr_
                        pathinfo.setdefault(P, (deps, fld))
                        old = get(s, P)
                        new = set(et) - set([E])
                        if E in et:
                            new |= set(old)
                        s = setp(s, P, new)
                    for fld, kind in anyfx.items():
                        s = havoc(s, fld, kind)
                    return s
            for t in tg:
                for f in self.arm.get(t, ()):
                    s = havoc(s, f, 'arm')
                for f in self.rel.get(t, ()):
                    s = havoc(s, f, 'rel')
            return s

        def tr(node, s):
            if node.x is None:
                return s
            x = node.x
            order = []

            def po(n):
                for k in n.kids:
                    if k is not None:
                        po(k)
                order.append(n)
            po(x)
            bind_target = None
            create_target = None
            top = x
            if top.k == 'var' and top.kids and _is_create(top.kids[0]):
                create_target = top.ref
            elif top.k == 'bin' and top.op == '=' and _is_create(top.kids[1]):
                l0 = strip(top.kids[0])
                if l0.k == 'ref' and l0.refk == 'VarDecl':
                    create_target = l0.ref
            if create_target is not None:
                snap = dict(s)
                res.create_snap[node.id] = snap
            if top.k == 'var' and top.kids:
                if _is_delete(top.kids[0]):
                    bind_target = top.ref
            elif top.k == 'bin' and top.op == '=' and _is_delete(top.kids[1]):
                l = strip(top.kids[0])
                if l.k == 'ref' and l.refk == 'VarDecl':
                    bind_target = l.ref
            for n in order:
                if n.k == 'call':
                    name = callee_name(n)
                    if name == 'COTmrDelete' and len(n.kids) >= 3:
                        p = hpath(node.id, n.kids[2])
                        if p is not None:
                            t = get(s, p)
                            nt = set()
                            if R in t:
                                nt.add(R)
                            if t & frozenset([A, D, DE, F_]):
                                nt.add(D)
                            if E in t:
                                nt.add(DE)
                            if record[0]:
                                res.deletes.append((node, p, pathinfo[p][1], t))
                            s = setp(s, p, nt)
                            if bind_target is not None:
                                s = dict(s)
                                s[('B', bind_target)] = p
                        continue
                    if name == 'COTmrCreate':
                        continue
                    s = apply_call(s, node, n)
                elif n.k == 'var' and n.kids:
                    s = invalidate_var(s, n.ref, keep_bind=bind_target)
                    if create_target == n.ref:
                        s = dict(s)
                        s[('C', n.ref)] = node.id
                elif (n.k == 'bin' and n.op.endswith('=') and n.op not in ('==', '!=', '<=', '>=')) or \
                        (n.k == 'un' and n.op in ('++', '--', 'post++', 'post--')):
                    lhs = strip(n.kids[0])
                    if lhs.k == 'ref' and lhs.refk in ('VarDecl', 'ParmVarDecl'):
                        s = invalidate_var(s, lhs.ref, keep_bind=bind_target)
                        if create_target == lhs.ref:
                            s = dict(s)
                            s[('C', lhs.ref)] = node.id
                        continue
                    fld = _last_field(lhs)
                    if fld is not None and handles.is_handle(fld):
                        p = hpath(node.id, lhs)
                        if p is None:
                            raise AnalysisBroken('RF3: cannot canonicalise handle store %s in %s' % (show(n), fname))
                        t = get(s, p)
                        rhs = n.kids[1] if (n.k == 'bin' and n.op == '=') else None
                        cv = const_eval(rhs, env) if rhs is not None else None
                        r0 = strip(rhs) if rhs is not None else None
                        if cv is not None and cv < 0:
                            kind = 'release'
                            nt = frozenset([R])
                        elif r0 is not None and r0.k == 'ref' and ('C', r0.ref) in s:
                            # result of an earlier COTmrCreate kept in a local: the handle must have been
                            # released when that action was created (the pool slot is freed first)
                            kind = 'create'
                            snap = res.create_snap.get(s[('C', r0.ref)], {})
                            t = snap.get(('P', p), snap.get(('F', fld), dflt(fld)))
                            nt = frozenset([R, A])
                        elif rhs is not None and _is_create(rhs):
                            kind = 'create'
                            nt = frozenset([R, A])
                        else:
                            kind = 'other'
                            nt = frozenset([R, A])
                        if record[0]:
                            res.stores.append((node, p, fld, kind, t, n))
                        s = setp(s, p, nt)
                    if fld is not None and record[0]:
                        for inv in H4:
                            if fld == inv['pred']:
                                res.obl.append(('pred-store', node, n, inv, dict(s)))
            return s

        def classify(node):
            x = strip(node.x)
            if x.k != 'bin' or x.op not in ('<', '>', '<=', '>=', '==', '!='):
                return None
            a, b = x.kids
            ca = const_eval(a, env)
            cb = const_eval(b, env)
            if cb is not None and ca is None:
                return (x.op, a, cb)
            if ca is not None and cb is None:
                flip = {'<': '>', '>': '<', '<=': '>=', '>=': '<=', '==': '==', '!=': '!='}[x.op]
                return (flip, b, ca)
            return None

        def cmp(op, v, c):
            return {'<': v < c, '>': v > c, '<=': v <= c, '>=': v >= c, '==': v == c, '!=': v != c}[op]

        def ed(node, lab, s):
            if node.kind == 'sw':
                # `switch (x) { case v: ... default: ... }` refines like the chain `x == v` / `x != v1 && x != v2 ...`
                if isinstance(lab, tuple) and lab[0] == 'case' and lab[1] is not None:
                    return ed_cmp(node, '==', node.x, lab[1], True, s)
                if lab == 'default':
                    for (t2, l2) in node.succ:
                        if isinstance(l2, tuple) and l2[0] == 'case' and l2[1] is not None:
                            s = ed_cmp(node, '!=', node.x, l2[1], True, s)
                            if s is None:
                                return None
                return s
            if node.kind != 'br' or lab not in (True, False):
                return s
            cv = const_eval(node.x, env)
            if cv is not None:
                if bool(cv) != lab:
                    return None
                return s
            cl = classify(node)
            if cl is None:
                return s
            op, e, c = cl
            return ed_cmp(node, op, e, c, lab, s)

        def ed_cmp(node, op, e, c, lab, s):
            e0 = strip(e)
            fld = _last_field(e0)
            if fld is not None and handles.is_handle(fld):
                p = hpath(node.id, e0)
                if p is not None:
                    t = get(s, p)
                    tR = cmp(op, -1, c)
                    tA0 = cmp(op, 0, c)
                    tA1 = cmp(op, 32767, c)
                    keep = set()
                    if R in t and tR == lab:
                        keep.add(R)
                    for tag in (A, E, D, DE, F_):
                        if tag in t and (tA0 == lab or tA1 == lab):
                            keep.add(tag)
                    if not keep:
                        return None
                    return setp(s, p, keep)
            if e0.k == 'call' and callee_name(e0) == 'COTmrDelete' and len(e0.kids) >= 3:
                # the result of the delete is tested directly in the condition (no local in between)
                p = hpath(node.id, strip(e0.kids[2]))
                if p is not None:
                    failed = cmp(op, -1, c)
                    ok = cmp(op, 0, c)
                    t = get(s, p)
                    if failed == lab and ok != lab:
                        nt = set(t)
                        if D in nt or DE in nt:
                            nt.discard(D)
                            nt.discard(DE)
                            nt.add(F_)
                        return setp(s, p, nt)
                    return s
            if e0.k == 'ref' and ('B', e0.ref) in s:
                p = s[('B', e0.ref)]
                failed = cmp(op, -1, c)
                ok = cmp(op, 0, c)
                t = get(s, p)
                if failed == lab and ok != lab:
                    nt = set(t)
                    if D in nt or DE in nt:
                        nt.discard(D)
                        nt.discard(DE)
                        nt.add(F_)
                    return setp(s, p, nt)
                return s
            for inv in H4:
                if inv['kind'] == 'ne-const' and fld == inv['pred']:
                    busy = m.enum(inv['const'])
                    vals_ne = False
                    if op == '==' and c == busy and lab is False:
                        vals_ne = True
                    elif op == '!=' and c == busy and lab is True:
                        vals_ne = True
                    elif op == '==' and c != busy and lab is True:
                        vals_ne = True
                    elif op in ('<', '<=') and lab is True and ((op == '<' and c <= busy) or (op == '<=' and c < busy)):
                        vals_ne = True
                    if vals_ne:
                        pc = cn.canon(node.id, e0)
                        if pc is not None and pc[0].endswith(inv['suffix_from_pred'][0]):
                            hp = pc[0][:-len(inv['suffix_from_pred'][0])] + inv['suffix_from_pred'][1]
                            pathinfo[hp] = (pc[1], inv['handle'])
                            res.h4_used.add((inv['name'], node.line))
                            return setp(s, hp, [R])
                if inv['kind'] == 'bit-clear' and e0.k == 'bin' and e0.op == '&':
                    l, r = e0.kids
                    mk = const_eval(r, env)
                    other = l
                    if mk is None:
                        mk = const_eval(l, env)
                        other = r
                    if mk is not None and mk == inv['mask'] and _last_field(other) == inv['pred']:
                        z = cmp(op, 0, c)
                        nz = cmp(op, mk, c)
                        if z == lab and nz != lab:
                            pc = cn.canon(node.id, strip(other))
                            if pc is not None and pc[0].endswith(inv['suffix_from_pred'][0]):
                                hp = pc[0][:-len(inv['suffix_from_pred'][0])] + inv['suffix_from_pred'][1]
                                pathinfo[hp] = (pc[1], inv['handle'])
                                res.h4_used.add((inv['name'], node.line))
                                return setp(s, hp, [R])
            return s

        def jn(a, b):
            if a == b:
                return a
            out = {}
            keys = set(a.keys()) | set(b.keys())
            for k in keys:
                if k[0] == 'P':
                    ta = a.get(k)
                    tb = b.get(k)
                    fld = pathinfo[k[1]][1]
                    if ta is None:
                        ta = a.get(('F', fld), dflt(fld))
                    if tb is None:
                        tb = b.get(('F', fld), dflt(fld))
                    out[k] = ta | tb
                elif k[0] == 'F':
                    out[k] = a.get(k, dflt(k[1])) | b.get(k, dflt(k[1]))
                elif k[0] in ('B', 'C'):
                    if a.get(k) == b.get(k):
                        out[k] = a[k]
            return out

        res.h4_used = set()
        res.create_snap = {}
        res.pathinfo = pathinfo
        res.canon = cn
        res.get = get
        res.join = jn
        IN, OUT = flow.forward(g, init, tr, jn, edge=ed)
        record[0] = True
        for nid in sorted(IN.keys()):
            node = g.nodes[nid]
            if node.x is not None and IN.get(nid) is not None:
                tr(node, IN[nid])
        res.IN = IN
        res.OUT = OUT
        for (pred, lab) in g.exit.pred:
            s = OUT.get(pred)
            if s is None:
                continue
            for k, t in s.items():
                if k[0] == 'P' and (D in t or DE in t):
                    res.h2.append((g.nodes[pred], k[1], pathinfo[k[1]][1], D in t))
        self.memo[key] = res
        return res


def handle_as_value(ctx, handles):
    """H7 - a timer handle is an identifier, not a quantity: the only call it may be handed to is COTmrDelete (as the action
    id).  A handle passed where a time, a length or a count is expected (`COTmrGetTicks(tmr, x->Tmr, ...)` for `x->Tmt`: the two
    fields sit next to each other and have convertible types) arms the timeout with the id of the action - a few
    milliseconds, or 65535 ms for -1 - instead of the configured time."""
    m = ctx.m
    n = 0
    for fname, fn in sorted(m.funcs.items()):
        for c in walk(fn.body):
            if c.k != 'call':
                continue
            nm = callee_name(c)
            for i, a in enumerate(c.kids[1:]):
                a0 = strip(a)
                if a0 is None or a0.k != 'mem' or not handles.is_handle(a0.field):
                    continue
                n += 1
                props = HANDLE_PROPS.get(a0.field, ['C08'])
                site = '%s: %s as argument %d of %s' % (m.loc(fname, c), show(a0), i, nm or 'an indirect call')
                if nm == 'COTmrDelete' and i == 1:
                    ctx.ob(props, 'RF3-H7', fname, site, 'action id of COTmrDelete', nontrivial=False)
                else:
                    ctx.ob(props, 'RF3-H7', fname, site, None)
                    ctx.find(props, 'RF3-H7', fname, 'handle-as-value:%s.%s:%s' % (a0.field[0], a0.field[1], nm), m.loc(fname, c),
                             '%s passes the timer handle %s to %s (argument %d): a handle is an action id, not a time or a count - the '
                             'callee computes with the id of the action (or with -1)' % (fname, show(a0), nm or 'an indirect call', i))
    ctx.inst('RF3.handle-arguments', n)
    ctx.require_min(sorted(set(p for v in HANDLE_PROPS.values() for p in v)), 'RF3-H7', n, 8, 'timer handles passed as call arguments')


# -------------------------------------------------------------------------- driver
def run(ctx):
    m = ctx.m
    m.need('COTmrCreate', 'COTmrDelete', 'COTmrInit', 'CONodeInit', 'CONmtReset')
    handles = Handles(m)
    ctx.inst('RF3.handles', len(handles.fields))
    ctx.inst('RF3.sites', handles.sites)
    allp = sorted(set(p for v in HANDLE_PROPS.values() for p in v) | set(['C20']))
    ctx.require_min(allp, 'RF3', len(handles.fields), MIN_HANDLES - (0 if getattr(m, 'has_lss', True) else 1) - (0 if getattr(m, 'has_csdo', True) else 1), 'timer handle fields')
    ctx.require_min(allp, 'RF3', handles.sites, MIN_SITES, 'create/delete/store sites')
    for fld in handles.fields:
        if fld not in HANDLE_PROPS:
            ctx.broke(allp, 'RF3: new timer handle field %s.%s is not attributed to a property '
                            '(tables: HANDLE_PROPS)' % fld)
    handle_as_value(ctx, handles)
    ts = Typestate(m, handles, ctx)
    ctor = set(f for f in m.funcs if any(callee_name(n) == 'COTmrInit' for (n, tg, e, d) in m.calls[f]))
    toplevel_slots = set(m.addr_taken)
    # functions reachable only from the constructor (direct and registry-resolved callers)
    ctor_only = set()
    ch = True
    while ch:
        ch = False
        for f in m.funcs:
            if f in ctor_only or f in ctor or f in api.PUBLIC_API:
                continue
            cs = m.callers.get(f, [])
            if f in m.cb_args.get(('COTmrCreate', 3), ()) or not cs:
                continue
            if all((g in ctor or g in ctor_only) for (g, c) in cs):
                ctor_only.add(f)
                ch = True

    def props_of(fld, extra=()):
        ps = list(HANDLE_PROPS.get(fld, []))
        for e in extra:
            if e not in ps:
                ps.append(e)
        return ps

    funcs = sorted(f for f in m.funcs if ts.touch.get(f))
    results = {}
    for f in funcs:
        results[f] = ts.analyse(f)

    def site_tags(sub, fld, pstr, what):
        """tags the analysis (under constant arguments) sees at the site in question"""
        out = set()
        if what == 'store':
            for (node, p, f2, kind, t, n) in sub.stores:
                if f2 == fld and p == pstr:
                    out |= set(t)
        else:
            for (node, p, f2, t) in sub.deletes:
                if f2 == fld and p == pstr:
                    out |= set(t)
        return out

    def propagate(fname, fld, pstr, chain, depth, what):
        """Entry requirement 'instance pstr of fld is released' of fname: list of failing chains."""
        fails = []
        if fname in ctor or fname in ctor_only:
            if fname in ctor_only:
                ctx.exception('RF3', fname, 'reachable only from the constructor CONodeInit (call graph)')
            return []
        callers = m.callers.get(fname, [])
        is_top = (fname in toplevel_slots) or (fname in api.PUBLIC_API) or not callers
        if is_top:
            # entered from outside (API, registered slot or callback): nobody above can release the handle
            return [list(chain)]
        if depth >= PROP_BOUND and not is_top:
            fails.append(list(chain) + ['<propagation bound %d>' % PROP_BOUND])
            return fails
        fn = m.funcs[fname]
        for (gname, call) in callers:
            if gname in ctor:
                ctx.exception('RF3', gname, 'constructor: node memory is uninitialised on entry and the timer pool '
                                            'is reset by COTmrInit in the same function')
                continue
            pc = []
            for i, a in enumerate(call.kids[1:]):
                v = const_eval(a, m)
                if v is not None and i < len(fn.params):
                    pc.append((i, v))
            if pc and depth == 0:
                sub = ts.analyse(fname, tuple(pc))
                if not (E in site_tags(sub, fld, pstr, what)):
                    ctx.ob(props_of(fld), 'RF3-H1', fname, 'call from %s with constant arguments %s' % (gname, pc),
                           'site unreachable or handle released for these arguments')
                    continue
            gres = results.get(gname) or ts.analyse(gname)
            results[gname] = gres
            cnode_id = m.node_of(gname, call)
            if cnode_id is None or gres.IN.get(cnode_id) is None:
                continue
            st = gres.IN[cnode_id]
            gp = None
            tr_ = translate(m, fname, call, gres.canon, cnode_id, pstr) if pstr is not None else None
            if tr_ is not None:
                gp, deps = tr_
                gres.pathinfo.setdefault(gp, (deps, fld))
                tags = gres.get(st, gp)
            else:
                own = handles.cb_oneshot.get(gname, set())
                tags = st.get(('F', fld), DEFAULT if fld not in own else frozenset([R]))
                # plus any tracked instance of the field
                for k, t in st.items():
                    if k[0] == 'P' and gres.pathinfo[k[1]][1] == fld:
                        tags = tags | t
            if not (tags & frozenset([A, E])):
                ctx.ob(props_of(fld), 'RF3-H1', fname, 'call from %s (%s)' % (gname, m.loc(gname, call)),
                       'handle %s released at the call site' % (gp or '%s.%s' % fld))
                continue
            if A in tags:
                fails.append(list(chain) + ['%s (armed at the call in line %d)' % (gname, call.line)])
                continue
            fails += propagate(gname, fld, gp, chain + [gname], depth + 1, 'call')
            # at depth > 0 the "site" is the call itself: constant pruning is not repeated
        return fails

    for f in funcs:
        res = results[f]
        fn = m.funcs[f]
        for (node, p, fld, kind, t, n) in res.stores:
            site = '%s: %s' % (m.loc(f, node.line), show(n))
            props = props_of(fld)
            key = 'H1:%s.%s:%s' % (fld[0], fld[1], kind)
            if A in t:
                ctx.ob(props, 'RF3-H1', f, site, None)
                ctx.find(props, 'RF3-H1', f, key, m.loc(f, node.line),
                         'store to timer handle %s (%s) while the handle may still be armed by an action '
                         'created earlier on the same path (state %s): the old action can no longer be deleted'
                         % (p, show(n), ''.join(sorted(t))), note=not props)
            elif E in t:
                fails = propagate(f, fld, p, [f], 0, 'store')
                if fails and kind == 'release':
                    ok_exc, why_exc = _chain_member_exception(m, ts, handles, f, fld, p)
                    if ok_exc:
                        ctx.exception('RF3-H1', '%s:%s.%s' % (f, fld[0], fld[1]), why_exc)
                        ctx.ob(props, 'RF3-H1', f, site, 'exception: ' + why_exc)
                        continue
                if fails:
                    reset_reach = m.reachable_funcs(['CONmtReset'])
                    extra = ['C20'] if any(('CONmtReset' in c) or (c.split(' ')[0].split('(')[0] in reset_reach)
                                           for ch in fails for c in ch) else []
                    ps = props_of(fld, extra)
                    ctx.ob(ps, 'RF3-H1', f, site, None)
                    chains = sorted(set(' <- '.join(ch) for ch in fails))
                    # identity of the finding: a store inside a helper extracted from a known function belongs to that function
                    # (known findings are keyed by function; the extraction must not turn a recorded defect into a "new" one)
                    f_id = f
                    hops = 0
                    while m.is_new_helper(f_id) and hops < 3:
                        cs_ = sorted(set(c_[0] for c_ in m.call_sites(f_id)))
                        if len(cs_) != 1:
                            break
                        f_id = cs_[0]
                        hops += 1
                    ctx.find(ps, 'RF3-H1', f_id, key, m.loc(f, node.line),
                             'store to timer handle %s (%s) although the handle may be armed on entry and no '
                             'caller on these chains releases it first: %s'
                             % (p, show(n), '; '.join(chains[:6])), witness=chains, note=not ps)
                else:
                    ctx.ob(props, 'RF3-H1', f, site, 'released at every call site (or constructor only)')
            else:
                ctx.ob(props, 'RF3-H1', f, site, 'handle state %s before the store' % ''.join(sorted(t)),
                       nontrivial=(kind != 'release' or D in t or DE in t))
        # ---- H2
        seen = {}
        for (node, p, fld, definite) in res.h2:
            k = (p, fld)
            if k in seen and (seen[k] or not definite):
                continue
            seen[k] = definite
        for (p, fld), definite in sorted(seen.items()):
            dl = sorted(set(d[0].line for d in res.deletes if d[1] == p))
            exits = sorted(set(node.line for (node, p2, f2, d2) in res.h2 if p2 == p))
            props = props_of(fld, ['C10'])
            site = '%s COTmrDelete(%s)' % (m.loc(f, dl[0] if dl else exits[0]), p)
            if not definite:
                fails = propagate(f, fld, p, [f], 0, 'delete')
                if not fails:
                    ctx.ob(props, 'RF3-H2', f, site, 'delete branch unreachable: handle released at every call site')
                    continue
            ctx.ob(props, 'RF3-H2', f, site, None)
            ctx.find(props, 'RF3-H2', f, 'H2:%s.%s' % fld, m.loc(f, dl[0] if dl else exits[0]),
                     'timer handle %s is passed to COTmrDelete (line %s) and keeps the stale id on a path to the '
                     'normal exit at line %s: a later delete through this handle removes whichever action re-uses '
                     'the slot' % (p, ','.join(map(str, dl)), ','.join(map(str, exits))),
                     witness=['delete@%s' % dl, 'exit@%s' % exits], note=not props)
        for (node, p, fld, t) in res.deletes:
            if (p, fld) not in seen:
                ctx.ob(props_of(fld, ['C10']), 'RF3-H2', f, '%s: COTmrDelete(%s)' % (m.loc(f, node.line), p),
                       're-stored or failure-tested on every path to the exit')

    _h4(ctx, m, ts, results, handles, props_of)
    _reset_releases_all(ctx, m, ts, handles, props_of)
    _id_zero(ctx, m, handles, props_of)
    _oneshot_expiry(ctx, m, handles, props_of)
    ctx.table('C20', 'RF3.release_all', dict((k, sorted('%s.%s' % f for f in fl)) for k, fl in release_all(ts).items()))
    return ts


def _id_zero(ctx, m, handles, props_of):
    """H6: action ids start at 0 - the first action taken from the pool (often the very service under test) has id 0.  A
    test of a handle against a constant must treat 0 like every other valid id: a guard `h > 0` skips the delete / the
    re-arm for exactly that action."""
    n = 0
    for fname, fn in sorted(m.funcs.items()):
        g = m.cfg(fname)
        for node in g.nodes:
            if node.kind != 'br' or node.x is None:
                continue
            x = strip(node.x)
            if x.k != 'bin' or x.op not in ('<', '>', '<=', '>=', '==', '!='):
                continue
            a, b = x.kids
            ca, cb = const_eval(a, m), const_eval(b, m)
            if cb is not None and ca is None:
                op, e, c = x.op, strip(a), cb
            elif ca is not None and cb is None:
                op, e, c = {'<': '>', '>': '<', '<=': '>=', '>=': '<=', '==': '==', '!=': '!='}[x.op], strip(b), ca
            else:
                continue
            fld = _last_field(e)
            if fld is None or not handles.is_handle(fld):
                continue
            n += 1

            def cmpv(v):
                return {'<': v < c, '>': v > c, '<=': v <= c, '>=': v >= c, '==': v == c, '!=': v != c}[op]
            props = props_of(fld, ['C10'])
            site = '%s: %s' % (m.loc(fname, node.line), show(x))
            if cmpv(0) == cmpv(1) == cmpv(32767):
                ctx.ob(props, 'RF3-H6', fname, site, 'id 0 is treated like every other valid id')
            else:
                ctx.ob(props, 'RF3-H6', fname, site, None)
                ctx.find(props, 'RF3-H6', fname, 'H6:%s.%s:id-zero' % fld, m.loc(fname, node.line),
                         '%s separates action id 0 from the other valid ids: the action that got the first slot of the pool is '
                         'not deleted / not recognised as running by this guard' % show(x), note=not props)
    ctx.inst('RF3.handle-comparisons', n)
    ctx.require_min(sorted(set(p for v in HANDLE_PROPS.values() for p in v)), 'RF3-H6', n, 10, 'comparisons of timer handles with constants')


def _storing_nodes(m, fname, fld, memo, depth=0):
    """nodes of fname that store to handle field fld on every execution: a direct store, or a direct call to a
    function all of whose paths store it"""
    g = m.cfg(fname)
    out = set()
    for nd in g.nodes:
        if nd.x is None:
            continue
        if m.field_stores(nd.x, fld):
            out.add(nd.id)
            continue
        if depth < 3:
            for c in walk(nd.x):
                if c.k == 'call':
                    nm = callee_name(c)
                    if nm in m.funcs and nm != fname and _must_store(m, nm, fld, memo, depth + 1):
                        out.add(nd.id)
    return out


def _must_store(m, fname, fld, memo, depth):
    if (fname, fld) in memo:
        return memo[(fname, fld)]
    memo[(fname, fld)] = False
    g = m.cfg(fname)
    storing = _storing_nodes(m, fname, fld, memo, depth)
    seen = set()
    st = [g.entry.id]
    ok = True
    while st:
        a = st.pop()
        if a in seen or a in storing:
            continue
        seen.add(a)
        if a == g.exit.id:
            ok = False
            break
        st.extend(t for (t, lab) in g.nodes[a].succ)
    memo[(fname, fld)] = ok
    return ok


def _oneshot_expiry(ctx, m, handles, props_of):
    """H5: when a one-shot action fires, the timer manager has already returned it to the pool: the handle field
    still holds the (now free, soon re-used) id.  The action's callback must redefine its own handle (to -1 or to
    a newly created action) on every path to its exit, and must not hand the expired id to COTmrDelete first -
    otherwise a later delete through this handle removes whichever action re-uses the slot."""
    n_cb = 0
    for cb, flds in sorted(handles.cb_oneshot.items()):
        if cb not in m.funcs:
            continue
        (fld,) = tuple(flds)
        n_cb += 1
        g = m.cfg(cb)
        props = props_of(fld, ['C10'])
        storing = _storing_nodes(m, cb, fld, {})
        # exit reachable from entry without passing a store to the handle?
        seen = set()
        st = [g.entry.id]
        leak = None
        while st:
            a = st.pop()
            if a in seen or a in storing:
                continue
            seen.add(a)
            if a == g.exit.id:
                leak = a
                break
            st.extend(t for (t, lab) in g.nodes[a].succ)
        site = '%s: one-shot callback %s of %s.%s' % (m.loc(cb, m.funcs[cb].line), cb, fld[0], fld[1])
        if leak is not None:
            ctx.ob(props, 'RF3-H5', cb, site, None)
            ctx.find(props, 'RF3-H5', cb, 'H5:%s.%s:expired-id-kept' % fld, m.loc(cb, m.funcs[cb].line),
                     '%s is the one-shot callback of %s.%s: when it runs the action is already back in the pool, but there is '
                     'a path to its exit that never redefines the handle; the stale id stays in the handle and a later '
                     'COTmrDelete through it removes whichever action re-uses the slot (e.g. the heartbeat producer)'
                     % (cb, fld[0], fld[1]), note=not props)
        else:
            ctx.ob(props, 'RF3-H5', cb, site, 'own handle redefined on every path to the exit')
        # deletes of the expired id before the first redefinition
        bad = None
        for nid in seen:
            nd = g.nodes[nid]
            if nd.x is None:
                continue
            for c in walk(nd.x):
                if c.k == 'call' and callee_name(c) == 'COTmrDelete' and len(c.kids) > 2 and _last_field(c.kids[2]) == fld:
                    bad = nd
        if bad is not None:
            ctx.ob(props, 'RF3-H5', cb, site + ' (no delete of the expired id)', None)
            ctx.find(props, 'RF3-H5', cb, 'H5:%s.%s:expired-id-deleted' % fld, m.loc(cb, bad.line),
                     '%s deletes its own, already expired one-shot action id before redefining the handle' % cb, note=not props)
    ctx.inst('RF3.oneshot-callbacks', n_cb)
    ctx.require_min(sorted(set(p for v in HANDLE_PROPS.values() for p in v)), 'RF3-H5', n_cb, 3, 'one-shot timer callbacks')


# handles that are armed only for members of a linked chain: (handle field) -> chain head field
CHAIN_HANDLES = {('CO_HBCONS', 'Tmr'): ('CO_NMT', 'HbCons')}


def _chain_member_exception(m, ts, handles, f, fld, p):
    """An entry that is not a member of the chain has no running action, so resetting its handle without a
    delete is harmless - accepted only if (1) every site that arms this handle works on a chain member
    (cursor that walks the chain from its head) or is the action's own callback, (2) the function looks the
    entry up in the chain by identity and deletes the action on the path where it is found."""
    head = CHAIN_HANDLES.get(fld)
    if head is None:
        return (False, '')
    from rules.rf5_null import Analyzer
    an = Analyzer(ts.ctx)
    # (1) arming sites
    def works_on_member(fname, root, nid, depth):
        """the pointer `root` (at node nid of fname) is a chain member: a cursor that walks the chain from its head, the
        callback's own entry, or - for an internal helper that arms the handle of its parameter - that holds at every call"""
        if fld in handles.cb_oneshot.get(fname, set()):
            return None
        if root is None or root.k != 'ref':
            return 'arming site in %s is not a chain cursor' % fname
        if root.refk == 'ParmVarDecl':
            fn_ = m.funcs[fname]
            idx = [i for i, prm in enumerate(fn_.params) if prm[3] == root.ref]
            sites = m.call_sites(fname)
            if not idx or not fn_.static or not sites or depth >= 3:
                return 'arming site in %s works on its parameter %s, which any caller may pass' % (fname, root.name)
            for (caller, cx) in sites:
                if len(cx.kids) <= 1 + idx[0]:
                    return 'call of %s in %s has too few arguments' % (fname, caller)
                r2 = strip(cx.kids[1 + idx[0]])
                while r2 is not None and r2.k in ('mem', 'idx'):
                    r2 = strip(r2.kids[0])
                why = works_on_member(caller, r2, m.node_of(caller, cx), depth + 1)
                if why:
                    return why
            return None
        if root.refk != 'VarDecl':
            return 'arming site in %s is not a chain cursor' % fname
        org = an.origins(fname, nid, root.ref)
        if not org or not org <= set([head]):
            return 'arming site in %s works on %s, not only on members of the chain' % (fname, sorted(map(str, org)))
        return None

    for (fname, n) in handles.fields[fld]['creates']:
        l = strip(n.kids[0])
        root = l
        while root is not None and root.k in ('mem', 'idx'):
            root = strip(root.kids[0])
        why = works_on_member(fname, root, m.node_of(fname, n), 0)
        if why:
            return (False, why)
    # (2) identity search + delete on the found path in f.  The search may live in a helper extracted from f (a function
    #     the rule tables do not know): then it looks for the parameter that receives f's entry
    owner = p.split('->')[0]
    where = [(f, owner)]
    for h in m.helper_closure(f)[1:]:
        hf = m.funcs[h]
        for (caller, cx) in m.call_sites(h):
            cown = dict(where).get(caller)
            if cown is None:
                continue
            for i_, a_ in enumerate(cx.kids[1:]):
                a0_ = strip(a_)
                if a0_ is not None and a0_.k == 'ref' and a0_.name == cown and i_ < len(hf.params):
                    where.append((h, hf.params[i_][0]))
    search = False
    for (f_, owner_) in where:
        g = m.cfg(f_)
        search_nodes = []
        for node in g.nodes:
            if node.kind != 'br':
                continue
            x = strip(node.x)
            if x.k == 'bin' and x.op in ('==', '!='):
                a, b = strip(x.kids[0]), strip(x.kids[1])
                for (u, v) in ((a, b), (b, a)):
                    if u.k == 'ref' and u.refk == 'VarDecl' and v.k == 'ref' and v.name == owner_:
                        org = an.origins(f_, node.id, u.ref)
                        if org and org <= set([head]):
                            search = True
                            search_nodes.append((node.id, u.ref))
        # the identity search is COMPLETE: the walk that contains it ends only at the end of the chain or when the entry is
        # found - a walk that can also stop for another reason (first entry with the same node id ...) misses an entry
        # that is linked behind that point, and its action keeps running
        for (snid, cref) in search_nodes:
            lps = [lp for lp in g.loops if snid in lp.nodes or snid in lp.cond_nodes]
            if not lps:
                continue
            lp = min(lps, key=lambda l: len(l.nodes))
            for nid_ in lp.nodes:
                nd_ = g.nodes[nid_]
                for (t_, lab_) in nd_.succ:
                    if t_ in lp.nodes or t_ == lp.head:
                        continue
                    ok_exit = False
                    if nd_.kind == 'br' and nd_.x is not None:
                        bx = strip(nd_.x)
                        if nid_ == snid:
                            ok_exit = True
                        elif bx.k == 'bin' and bx.op in ('==', '!='):
                            a_, b_ = strip(bx.kids[0]), strip(bx.kids[1])
                            for (u_, v_) in ((a_, b_), (b_, a_)):
                                if u_.k == 'ref' and u_.ref == cref and const_eval(v_) == 0:
                                    ok_exit = True
                        elif bx.k == 'ref' and bx.ref == cref:
                            ok_exit = True
                    if not ok_exit:
                        return (False, 'the walk that looks %s up by identity can end early at line %d (%s) before the whole chain was '
                                       'visited: an entry linked behind that point is not found and its action keeps running'
                                       % (owner, nd_.line, show(nd_.x) if nd_.x is not None else nd_.kind))
    if not search:
        return (False, 'no identity search of the chain in %s' % f)
    res = ts.analyse(f)
    if not any(d[1] == p for d in res.deletes):
        return (False, 'no delete of %s in %s' % (p, f))
    return (True, 'an entry that is not a member of the %s.%s chain has no running action: every arming site works on a '
                  'chain member (cursor from the chain head) or is the action\'s own callback, and %s looks the entry up '
                  'by identity and deletes its action on the path where it is linked' % (head[0], head[1], f))


def _releases(ts, c, fld):
    """callee c leaves every instance of handle field fld released and does so by deleting, not by overwriting"""
    sm = ts.summary(c)
    if sm is None:
        return False
    paths, anyfx = sm
    ok = anyfx.get(fld) == 'relall' or any(f == fld and t == frozenset([R]) and '[' not in p for (p, f, t) in paths)
    if not ok:
        return False
    res = ts.analyse(c)
    for (node, p, f2, kind, t, n) in res.stores:
        if f2 == fld and (t & frozenset([A, E])):
            return False
    return True


def _reset_releases_all(ctx, m, ts, handles, props_of):
    """H3: on every path of CONmtReset(reset communication) each stack-owned timer handle is released
    (deleted, then -1) by some callee before the services are re-initialised"""
    from canalyze.peval import PEval
    pe = PEval(m, 'CONmtReset')
    pe.store_filter = lambda k, f: False
    pe.record_sets = False
    trs = pe.run({'type': m.enum('CO_RESET_COM'), 'nmt': 1})
    ctx.inst('RF3.H3.reset-traces', len(trs))
    ctx.require_min(['C20'], 'RF3-H3', len(trs), 1, 'reset-communication paths')
    for fld in sorted(handles.fields):
        props = ['C20']
        bad = None
        how = None
        for t in trs:
            rel = [c for c in t.call_names() if c in m.funcs and _releases(ts, c, fld)]
            if not rel:
                bad = t
            else:
                how = rel[0]
        site = 'CONmtReset(CO_RESET_COM) releases %s.%s' % fld
        if bad is None:
            ctx.ob(props, 'RF3-H3', 'CONmtReset', site, 'released by %s on every path' % how)
        else:
            ctx.ob(props, 'RF3-H3', 'CONmtReset', site, None)
            ctx.find(props, 'RF3-H3', 'CONmtReset', 'H3:%s.%s' % fld, m.loc('CONmtReset', m.funcs['CONmtReset'].line),
                     'reset communication has a path on which no callee releases (deletes and clears) every %s.%s timer '
                     'handle: the action stays armed in the pool (slot leaked / fires into the re-initialised service); '
                     'calls on that path: %s' % (fld[0], fld[1], [c for c in bad.call_names() if c in m.funcs]))


def release_all(ts):
    """functions whose summary leaves a handle field released for a whole-array loop or scalar instance
    (reported in the evidence; the dataflow itself uses the per-call summaries)."""
    out = {}
    for f, (paths, anyfx) in ts.summ.items():
        rel = set(fld for (p, fld, t) in paths if t == frozenset([R]))
        if rel:
            out[f] = rel
    return out


def _h4(ctx, m, ts, results, handles, props_of):
    for inv in H4:
        props = props_of(inv['handle'])
        pf = inv['pred']
        n_est = 0
        n_arm = 0
        for f in sorted(m.funcs):
            fn = m.funcs[f]
            touches = any(nn.k == 'mem' and nn.field in (pf, inv['handle']) for nn in walk(fn.body))
            if not touches:
                continue
            res = results.get(f) or ts.analyse(f)
            results[f] = res
            g = m.cfg(f)
            env = Env(enums=m.enums)
            # (i) establishing stores
            for (kind2, node, n, inv2, st) in res.obl:
                if inv2 is not inv:
                    continue
                est = False
                if inv['kind'] == 'ne-const':
                    if n.k == 'bin' and n.op == '=':
                        v = const_eval(n.kids[1], env)
                        est = (v is None) or (v != m.enum(inv['const']))
                    else:
                        est = True
                else:
                    # bit-clear: Flags = c (bit clear) ; Flags &= ~I ; Flags &= c (bit clear)
                    if n.k == 'bin' and n.op == '=':
                        v = const_eval(n.kids[1], env)
                        est = (v is not None and (v & inv['mask']) == 0)
                        if v is None:
                            est = False    # unknown value: neither establishes nor is checked here
                    elif n.k == 'bin' and n.op == '&=':
                        v = const_eval(n.kids[1], env)
                        est = (v is not None and (v & inv['mask']) == 0)
                if not est:
                    continue
                n_est += 1
                pc = res.canon.canon(node.id, strip(n.kids[0]))
                site = '%s: %s' % (m.loc(f, node.line), show(n))
                if pc is None or not pc[0].endswith(inv['suffix_from_pred'][0]):
                    ctx.broke(props, 'RF3-H4: cannot canonicalise predicate store %s' % site)
                    continue
                hp = pc[0][:-len(inv['suffix_from_pred'][0])] + inv['suffix_from_pred'][1]
                res.pathinfo.setdefault(hp, (pc[1], inv['handle']))
                # state *after* the statement does not matter; need state before: IN of node, replay up to n
                tags = res.get(res.IN[node.id], hp) if res.IN.get(node.id) is not None else frozenset([R])
                # replay the statement prefix is unnecessary: predicate stores are single statements
                if A in tags:
                    ctx.ob(props, 'RF3-H4i', f, site, None)
                    ctx.find(props, 'RF3-H4i', f, 'H4i:%s' % inv['name'], m.loc(f, node.line),
                             'invariant %s: %s establishes the "released" predicate while handle %s may be armed '
                             '(state %s)' % (inv['name'], show(n), hp, ''.join(sorted(tags))))
                elif E in tags:
                    # entry requirement: accept when every caller chain ends in constructor or has it released
                    fails = _h4_up(ctx, m, ts, results, handles, f, inv, hp, 0)
                    if fails:
                        ctx.ob(props, 'RF3-H4i', f, site, None)
                        ctx.find(props, 'RF3-H4i', f, 'H4i:%s' % inv['name'], m.loc(f, node.line),
                                 'invariant %s: %s establishes the "released" predicate although handle %s may be '
                                 'armed on entry (callers: %s)' % (inv['name'], show(n), hp, '; '.join(fails[:5])))
                    else:
                        ctx.ob(props, 'RF3-H4i', f, site, 'callers (constructor only) / released at call sites')
                else:
                    ctx.ob(props, 'RF3-H4i', f, site, 'handle %s in state %s' % (hp, ''.join(sorted(tags))))
            # (iv) iff-form, other direction: the flag is set only while the handle is armed (a flag set after a FAILED
            # create is never cleared: nothing will ever fire to clear it)
            if inv['iff'] and inv['kind'] == 'bit-clear':
                for (kind2, node, n, inv2, st) in res.obl:
                    if inv2 is not inv or n.k != 'bin':
                        continue
                    v = const_eval(n.kids[1], env)
                    sets = (n.op == '|=' and (v is None or (v & inv['mask']) != 0)) or (n.op == '=' and v is not None and (v & inv['mask']) != 0)
                    if not sets:
                        continue
                    pc = res.canon.canon(node.id, strip(n.kids[0]))
                    if pc is None or not pc[0].endswith(inv['suffix_from_pred'][0]):
                        continue
                    hp = pc[0][:-len(inv['suffix_from_pred'][0])] + inv['suffix_from_pred'][1]
                    res.pathinfo.setdefault(hp, (pc[1], inv['handle']))
                    tags = res.get(res.IN[node.id], hp) if res.IN.get(node.id) is not None else None
                    site = '%s: %s' % (m.loc(f, node.line), show(n))
                    if tags is None:
                        continue
                    if tags <= frozenset([A]):
                        ctx.ob(props, 'RF3-H4iv', f, site, 'handle %s armed on every path to the store' % hp)
                    else:
                        ctx.ob(props, 'RF3-H4iv', f, site, None)
                        ctx.find(props, 'RF3-H4iv', f, 'H4iv:%s' % inv['name'], m.loc(f, node.line),
                                 'invariant %s: %s sets the flag although handle %s may not be armed (state %s: e.g. the create '
                                 'failed): no action will ever fire to clear the flag again - the service stays blocked'
                                 % (inv['name'], show(n), hp, ''.join(sorted(tags))))
            # (ii) arming sites falsify the predicate on the same path
            for (node, p, fld, kind, t, n) in res.stores:
                if fld != inv['handle'] or kind != 'create':
                    continue
                n_arm += 1
                site = '%s: %s' % (m.loc(f, node.line), show(n))
                ok, how = _falsified(m, f, res, node, p, inv)
                if ok:
                    ctx.ob(props, 'RF3-H4ii', f, site, how)
                else:
                    ctx.ob(props, 'RF3-H4ii', f, site, None)
                    ctx.find(props, 'RF3-H4ii', f, 'H4ii:%s' % inv['name'], m.loc(f, node.line),
                             'invariant %s: handle %s is armed here but the predicate is not made false on every '
                             'path that keeps it armed (%s)' % (inv['name'], p, how))
            # (iii) iff-form: releasing the handle clears the flag
            if inv['iff']:
                for (node, p, fld, t) in res.deletes:
                    if fld != inv['handle']:
                        continue
                    site = '%s: COTmrDelete(%s)' % (m.loc(f, node.line), p)
                    ok, how = _cleared_after(m, f, res, node, p, inv)
                    if f in H4_III_EXCEPT and not ok:
                        ctx.exception('RF3-H4iii', f, H4_III_EXCEPT[f])
                        ctx.ob(props, 'RF3-H4iii', f, site, 'exception: ' + H4_III_EXCEPT[f])
                        continue
                    if ok:
                        ctx.ob(props, 'RF3-H4iii', f, site, how)
                    else:
                        ctx.ob(props, 'RF3-H4iii', f, site, None)
                        ctx.find(props, 'RF3-H4iii', f, 'H4iii:%s' % inv['name'], m.loc(f, node.line),
                                 'invariant %s: %s releases the handle but a path to the exit leaves the flag set, '
                                 'so the guard "(Flags & I) == 0" never becomes true again (%s)'
                                 % (inv['name'], site, how))
        ctx.inst('RF3.H4.%s.establish' % inv['name'], n_est)
        ctx.inst('RF3.H4.%s.arm' % inv['name'], n_arm)
        ctx.require_min(props, 'RF3-H4 ' + inv['name'], n_est, 1, 'predicate-establishing stores')
        ctx.require_min(props, 'RF3-H4 ' + inv['name'], n_arm, 1, 'arming sites')


def _h4_up(ctx, m, ts, results, handles, f, inv, hp, depth):
    """callers of f: constructor chains are fine; anything else must have the handle released."""
    ctor = set(fn for fn in m.funcs if any(callee_name(n) == 'COTmrInit' for (n, tg, e, d) in m.calls[fn]))
    fails = []
    callers = m.callers.get(f, [])
    if f in ctor:
        return []
    if not callers or depth >= PROP_BOUND:
        return [f]
    for (gname, call) in callers:
        if gname in ctor:
            continue
        gres = results.get(gname) or ts.analyse(gname)
        results[gname] = gres
        cn = m.node_of(gname, call)
        st = gres.IN.get(cn)
        if st is None:
            continue
        tags = st.get(('F', inv['handle']), DEFAULT)
        # any tracked path of that field that is not released?
        bad = A in tags
        if not (tags & frozenset([A, E])):
            continue
        if bad:
            fails.append('%s(line %d)' % (gname, call.line))
        else:
            fails += _h4_up(ctx, m, ts, results, handles, gname, inv, hp, depth + 1)
    return fails


def _pred_store_kind(m, n, inv):
    """'false' if statement n makes the predicate false (BUSY stored / flag set), 'true' if it establishes it."""
    env = Env(enums=m.enums)
    if inv['kind'] == 'ne-const':
        if n.k == 'bin' and n.op == '=':
            v = const_eval(n.kids[1], env)
            if v is not None and v == m.enum(inv['const']):
                return 'false'
            return 'true'
        return 'true'
    if n.k == 'bin' and n.op == '|=':
        v = const_eval(n.kids[1], env)
        if v is not None and (v & inv['mask']):
            return 'false'
        return None
    if n.k == 'bin' and n.op == '=':
        v = const_eval(n.kids[1], env)
        if v is not None:
            return 'false' if (v & inv['mask']) else 'true'
        return None
    if n.k == 'bin' and n.op == '&=':
        v = const_eval(n.kids[1], env)
        if v is not None and (v & inv['mask']) == 0:
            return 'true'
    return None


def _pred_nodes(m, f, res, inv, base, want):
    """CFG nodes of f that store the predicate field of the same instance with effect `want`."""
    g = m.cfg(f)
    out = set()
    for node in g.nodes:
        if node.x is None or node.id not in g.reachable:
            continue
        for n in walk(node.x):
            if n.k == 'bin' and n.op.endswith('=') and n.op not in ('==', '!=', '<=', '>='):
                l = strip(n.kids[0])
                if l.k == 'mem' and l.field == inv['pred']:
                    pc = res.canon.canon(node.id, l)
                    if pc is not None and pc[0] == base + inv['suffix_from_pred'][0] and _pred_store_kind(m, n, inv) == want:
                        out.add(node.id)
    return out


def _falsified(m, f, res, node, p, inv):
    """After arming handle p at `node`: on every path to the exit the predicate has been made false,
    unless the create failed (handle < 0 tested) - or a dominating store already made it false and
    nothing re-established it, or the function only runs in a context where it is false."""
    g = m.cfg(f)
    suf = inv['suffix_from_pred'][1]
    if not p.endswith(suf):
        return (False, 'handle path %s does not end in %s' % (p, suf))
    base = p[:-len(suf)]
    fals = _pred_nodes(m, f, res, inv, base, 'false')
    est = _pred_nodes(m, f, res, inv, base, 'true')
    # (a) dominating falsifying store with no establishing store between
    dom = m.dom(f)
    for d in fals:
        if d in dom.get(node.id, ()):
            between = flow.reach_from(g, d) & flow.reach_from(g, node.id, forward_dir=False)
            if not (between & est):
                return (True, 'predicate made false at line %d, which dominates the arming site' % g.nodes[d].line)
    # (b) every path from the arming site to exit passes a falsifying store or a failed-create edge
    #     failed-create: branch testing the handle with the R-edge
    stop = set(fals)
    # nodes reached on edges where the handle is known released ({R} only)
    for nid, st in res.IN.items():
        if st is None:
            continue
        t = st.get(('P', p))
        if t is not None and t == frozenset([R]):
            stop.add(nid)
    seen = flow.reach_from(g, node.id, avoid=stop)
    if g.exit.id not in seen:
        return (True, 'every path from the arming site to the exit sets the flag / state (or the create failed)')
    # (c) context: function only reachable with predicate false (BUSY context)
    ctxok, why = _busy_context(m, f, inv, res)
    if ctxok:
        return (True, why)
    return (False, 'a path from line %d reaches the exit with the handle armed and the predicate unchanged; %s'
            % (node.line, why))


_BUSY_MEMO = {}


def _busy_context(m, f, inv, res, depth=0):
    """ne-const invariants only: f runs only while pred == BUSY for its first parameter.
    True if (1) f itself tests it on entry ... or (2) every in-tree caller passes its own
    BUSY-context object unchanged, (3) root: caller obtained the object from a function whose
    every non-null return is dominated by the fact pred == BUSY."""
    if inv['kind'] != 'ne-const':
        return (False, 'no context rule for this invariant')
    key = (f, inv['name'])
    if key in _BUSY_MEMO:
        return _BUSY_MEMO[key]
    _BUSY_MEMO[key] = (False, 'recursive')
    busy = m.enum(inv['const'])
    callers = m.callers.get(f, [])
    if not callers or depth > PROP_BOUND:
        _BUSY_MEMO[key] = (False, '%s has no in-tree caller that establishes %s == BUSY' % (f, inv['pred'][1]))
        return _BUSY_MEMO[key]
    for (gname, call) in callers:
        cn = m.node_of(gname, call)
        facts = m.facts(gname).get(cn) or frozenset()
        gdefs = m.defs_of(gname)
        arg0 = strip(call.kids[1]) if len(call.kids) > 1 else None
        ok = False
        # (1) a must-fact  arg0->State == BUSY  at the call site
        for fact in facts:
            x = strip(fact.x)
            if x.k == 'bin' and x.op in ('==', '!=') and fact.pol == (x.op == '=='):
                a, b = x.kids
                for (l, r) in ((a, b), (b, a)):
                    ls = strip(l)
                    if ls.k == 'mem' and ls.field == inv['pred'] and const_eval(r, Env(enums=m.enums)) == busy:
                        base = strip(ls.kids[0])
                        if arg0 is not None and show(base) == show(arg0):
                            ok = True
        # (2) caller is itself in BUSY context for the same object (its first parameter passed on)
        if not ok and arg0 is not None and arg0.k == 'ref' and arg0.refk == 'ParmVarDecl':
            gfn = m.funcs[gname]
            if gfn.params and gfn.params[0][3] == arg0.ref:
                sub, why = _busy_context(m, gname, inv, None, depth + 1)
                if sub:
                    # no establishing store of the predicate on a path before the call
                    gres_est = False
                    g = m.cfg(gname)
                    before = flow.reach_from(g, cn, forward_dir=False)
                    for nid in before:
                        node = g.nodes[nid]
                        if node.x is None:
                            continue
                        for n in walk(node.x):
                            if n.k == 'call':
                                tg, ext, d = m.resolve_call(n)
                                for t in (tg or ()):
                                    if inv['pred'] in m.mod.get(t, ()):
                                        gres_est = True
                            elif n.k == 'bin' and n.op.endswith('=') and n.op not in ('==', '!=', '<=', '>='):
                                l = strip(n.kids[0])
                                if l.k == 'mem' and l.field == inv['pred']:
                                    gres_est = True
                    if not gres_est:
                        ok = True
        # (3) root: arg0 is a local assigned from a "finder" whose non-null results are BUSY
        if not ok and arg0 is not None and arg0.k == 'ref' and arg0.refk == 'VarDecl':
            u = gdefs.unique_def(cn, arg0.ref)
            if u is not None:
                dn, rhs = u
                r = strip(rhs)
                if r.k == 'call' and callee_name(r) in m.funcs and _returns_busy(m, callee_name(r), inv):
                    # non-null test of the local dominates the call and nothing between writes the predicate
                    nonnull = False
                    for fact in facts:
                        x = strip(fact.x)
                        if x.k == 'bin' and x.op in ('!=', '==') and fact.pol == (x.op == '!='):
                            a, b = x.kids
                            for (l, r2) in ((a, b), (b, a)):
                                if strip(l).k == 'ref' and strip(l).ref == arg0.ref and const_eval(r2) == 0:
                                    nonnull = True
                    if nonnull:
                        ok = True
        if not ok:
            _BUSY_MEMO[key] = (False, 'call from %s line %d does not establish %s == BUSY'
                               % (gname, call.line, inv['pred'][1]))
            return _BUSY_MEMO[key]
    _BUSY_MEMO[key] = (True, 'function runs only while %s == BUSY (checked at every call site up to the frame dispatcher)'
                       % inv['pred'][1])
    return _BUSY_MEMO[key]


def _returns_busy(m, fname, inv):
    """every assignment of a non-null value to the returned variable is dominated by fact pred == BUSY"""
    g = m.cfg(fname)
    facts = m.facts(fname)
    busy = m.enum(inv['const'])
    ok_any = False
    # returned variable(s)
    rv = set()
    for node in g.nodes:
        if node.kind == 'ret' and node.x.kids:
            r = strip(node.x.kids[0])
            if r.k == 'ref':
                rv.add(r.ref)
            elif not (const_eval(r) == 0):
                return False
    for node in g.nodes:
        if node.x is None or node.id not in g.reachable:
            continue
        for (p, rhs, n) in flow.assigned_paths(node.x):
            if p is not None and len(p) == 1 and p[0][1] in rv:
                if rhs is not None and const_eval(rhs) == 0:
                    continue
                # need fact  X.State == BUSY where rhs == &X
                r = strip(rhs) if rhs is not None else None
                if r is None or not (r.k == 'un' and r.op == '&'):
                    return False
                target = show(strip(r.kids[0]))
                good = False
                for fact in (facts.get(node.id) or ()):
                    x = strip(fact.x)
                    if x.k == 'bin' and x.op in ('==', '!=') and fact.pol == (x.op == '=='):
                        a, b = x.kids
                        for (l, r2) in ((a, b), (b, a)):
                            ls = strip(l)
                            if ls.k == 'mem' and ls.field == inv['pred'] and \
                                    const_eval(r2, Env(enums=m.enums)) == busy and show(strip(ls.kids[0])) == target:
                                good = True
                if not good:
                    return False
                ok_any = True
    return ok_any


def _cleared_after(m, f, res, node, p, inv):
    """(iii) after releasing handle p at `node`, every path to the exit establishes the predicate
    (clears the flag) - or the flag is cleared by a dominating store with nothing setting it between."""
    g = m.cfg(f)
    suf = inv['suffix_from_pred'][1]
    if not p.endswith(suf):
        return (False, 'path shape')
    base = p[:-len(suf)]
    est = _pred_nodes(m, f, res, inv, base, 'true')
    fals = _pred_nodes(m, f, res, inv, base, 'false')
    dom = m.dom(f)
    for d in est:
        if d in dom.get(node.id, ()):
            between = flow.reach_from(g, d) & flow.reach_from(g, node.id, forward_dir=False)
            if not (between & fals):
                return (True, 'flag cleared at line %d (dominates the release)' % g.nodes[d].line)
    # paths on which the delete is known to have failed (result tested) did not release anything
    stop = set(est)
    for nid, st in res.IN.items():
        if st is None:
            continue
        t = st.get(('P', p))
        if t is not None and F_ in t and not (t & frozenset([R, D, DE])):
            stop.add(nid)
    seen = flow.reach_from(g, node.id, avoid=stop)
    if g.exit.id not in seen:
        return (True, 'flag cleared on every path after the release (failed deletes excepted)')
    # the handle's own callback is the other legitimate releaser and is covered by obligation (i)
    return (False, 'exit reachable from line %d without clearing the flag' % node.line)
