"""PDO reconfiguration write rules (C14): each parameter Write function is folded over its
finite input classes; the value is stored iff the CiA 301 preconditions hold, a refused
write stores nothing, the right communication record is consulted."""
import itertools
from canalyze.ir import is_pointer, walk, strip, const_eval, show, callee_name
from canalyze.peval import PEval
from canalyze.front import AnalysisBroken

P = ['C14']
OFF, RTR, EXT = 1 << 31, 1 << 30, 1 << 29
FL_W, FL_R, FL_P = 1, 2, 4


def _run(m, fname, inputs):
    pe = PEval(m, fname)
    pe.record_sets = False
    fn = m.funcs[fname]
    base = {}
    for prm in fn.params:
        if is_pointer(prm[2]):
            base[prm[0]] = 1
    base.update(inputs)
    return pe.run(base)


def _stored(t, writer_prefix='COTInt'):
    return [c for c in t.calls() if c[1].startswith(writer_prefix) and c[1].endswith('Write')]


def _verdict(ctx, fname, site, trs, expect_store, NONE, extra_ok=None, key=None, why=''):
    m = ctx.m
    bad = None
    if len(trs) != 1:
        bad = 'guards do not fold to one path (%d traces)' % len(trs)
    else:
        t = trs[0]
        st = _stored(t)
        if expect_store and len(st) != 1:
            bad = 'legal write is not stored (%d store calls, returns %s)' % (len(st), t.ret)
        if expect_store and t.ret not in (None, NONE):
            bad = 'legal write returns error %s' % t.ret
        if not expect_store and st:
            bad = 'the value is stored although the write must be refused'
        if not expect_store and (t.ret in (None, NONE)):
            bad = 'refusal is not reported (returns %s)' % t.ret
        if bad is None and extra_ok is not None:
            bad = extra_ok(t)
    if bad:
        ctx.ob(P, 'RF2-pdo-write', fname, site, None)
        ctx.find(P, 'RF2-pdo-write', fname, key or ('verdict:' + site), m.loc(fname, m.funcs[fname].line),
                 '%s [%s]: %s%s' % (fname, site, bad, why))
    else:
        ctx.ob(P, 'RF2-pdo-write', fname, site, 'stored' if expect_store else 'refused, nothing stored')


def map_write(ctx):
    m = ctx.m
    f = 'COTPdoMapWrite'
    m.need(f)
    NONE = m.enum('CO_ERR_NONE')
    n = 0
    for idx in (0x1600, 0x1603, 0x1A00, 0x1A02):
        for valid in (0, 1):
            for mapn in (0, 1, 3):
                for found in (0, 1):
                    for flags in (0, FL_P, FL_P | FL_W, FL_P | FL_R, FL_P | FL_R | FL_W, FL_R | FL_W):
                        if not found and flags:
                            continue
                        cob = 0x181 if valid else (OFF | 0x181)
                        trs = _run(m, f, {'obj->Key': (idx << 16) | 0x0100, '*buffer': 0x21000008,
                                          'out:CODictRdLong:2': cob, 'out:CODictRdByte:2': mapn,
                                          'call:CODictFind': found, 'objm->Key': 0x21000000 | flags,
                                          'call:COTInt32Write': NONE})
                        need = FL_W if idx < 0x1800 else FL_R
                        exp = (not valid) and mapn == 0 and found and (flags & FL_P) and (flags & need)
                        site = 'map %04Xh pdo-valid=%d count=%d target-found=%d flags=%s' % (
                            idx, valid, mapn, found, ''.join(c for c, b in (('P', FL_P), ('R', FL_R), ('W', FL_W)) if flags & b) or '-')

                        def extra(t, idx=idx):
                            rd = [c[2][1] for c in t.calls() if c[1] == 'CODictRdLong']
                            if rd and rd[0] != ((idx - 0x200) << 16 | 0x100):
                                return 'the valid bit is read from %s instead of %04Xh:01' % (hex(rd[0]) if rd[0] is not None else '?', idx - 0x200)
                            rb = [c[2][1] for c in t.calls() if c[1] == 'CODictRdByte']
                            if rb and rb[0] != (idx << 16):
                                return 'the mapping count is read from %s instead of %04Xh:00' % (hex(rb[0]) if rb[0] is not None else '?', idx)
                            return None
                        _verdict(ctx, f, site, trs, bool(exp), NONE, extra)
                        n += 1
    # mapping values that name no dictionary entry - in particular the basic data types 0002h..0007h ("dummy" entries, which
    # CiA 301 allows for RPDOs only): a TPDO mapping record never accepts them (nothing could be transmitted for them)
    for idx in (0x1A00, 0x1A02):
        for mapv in (0x00020008, 0x00050008, 0x00070020, 0x00010001):
            trs = _run(m, f, {'obj->Key': (idx << 16) | 0x0100, '*buffer': mapv, 'out:CODictRdLong:2': OFF | 0x181,
                              'out:CODictRdByte:2': 0, 'call:CODictFind': 0, 'call:COTInt32Write': NONE})
            _verdict(ctx, f, 'map %04Xh (TPDO, disabled, count 0) value %08Xh naming no dictionary entry' % (idx, mapv), trs, False, NONE)
            n += 1
    ctx.inst('RF2.pdo-write.map.rows', n)


def num_write(ctx):
    m = ctx.m
    f = 'COTPdoNumWrite'
    m.need(f)
    NONE = m.enum('CO_ERR_NONE')
    n = 0
    for idx in (0x1600, 0x1A01):
        for valid in (0, 1):
            # counts up to the largest a dictionary can hold, and sub-byte mapping entries (1 / 4 bit): with those the byte total
            # never exceeds 8, so only the count limit stands between a 12-entry mapping and Map[8] / Size[8]
            for cnt in list(range(0, 11)) + [12, 64, 255]:
                for bits in (1, 4, 8, 16, 32, 64):
                    cob = 0x181 if valid else (OFF | 0x181)
                    trs = _run(m, f, {'obj->Key': (idx << 16), '*buffer': cnt, 'size': 1,
                                      'out:CODictRdLong#0:2': cob, 'out:CODictRdLong:2': 0x21000000 | bits,
                                      'call:CODictRdLong': NONE, 'call:COTInt8Write': NONE})
                    exp = (not valid) and cnt <= 8 and cnt * bits <= 64
                    site = 'count %04Xh pdo-valid=%d new-count=%d entry-bits=%d' % (idx, valid, cnt, bits)

                    def extra(t, idx=idx):
                        rd = [c[2][1] for c in t.calls() if c[1] == 'CODictRdLong']
                        if rd and rd[0] != ((idx - 0x200) << 16 | 0x100):
                            return 'the valid bit is read from %s instead of %04Xh:01' % (hex(rd[0]) if rd[0] is not None else '?', idx - 0x200)
                        return None
                    _verdict(ctx, f, site, trs, bool(exp), NONE, extra)
                    n += 1
    # an unreadable mapping entry refuses the count
    trs = _run(m, f, {'obj->Key': 0x16000000, '*buffer': 2, 'size': 1, 'out:CODictRdLong#0:2': OFF | 0x181,
                      'call:CODictRdLong#0': NONE, 'call:CODictRdLong': 0x100, 'call:COTInt8Write': NONE})
    _verdict(ctx, f, 'count 1600h with a missing mapping entry', trs, False, NONE)
    ctx.inst('RF2.pdo-write.num.rows', n + 1)


def type_write(ctx):
    m = ctx.m
    f = 'COTPdoTypeWrite'
    m.need(f)
    NONE = m.enum('CO_ERR_NONE')
    for idx in (0x1400, 0x1801):
        for valid in (0, 1):
            for ty in (0, 1, 240, 254, 255):
                cob = 0x181 if valid else (OFF | 0x181)
                trs = _run(m, f, {'obj->Key': (idx << 16) | 0x200, '*buffer': ty, 'size': 1,
                                  'out:CODictRdLong:2': cob, 'call:COTInt8Write': NONE})
                site = 'type %04Xh pdo-valid=%d value=%d' % (idx, valid, ty)

                def extra(t, idx=idx):
                    rd = [c[2][1] for c in t.calls() if c[1] == 'CODictRdLong']
                    if rd and rd[0] != (idx << 16 | 0x100):
                        return 'the valid bit is read from %s instead of %04Xh:01' % (hex(rd[0]) if rd[0] is not None else '?', idx)
                    return None
                _verdict(ctx, f, site, trs, not valid, NONE, extra)


def id_write(ctx):
    m = ctx.m
    f = 'COTPdoIdWrite'
    m.need(f)
    NONE = m.enum('CO_ERR_NONE')
    OPER = m.enum('CO_OPERATIONAL')
    PREOP = m.enum('CO_PREOP')
    n = 0
    for idx in (0x1400, 0x1403, 0x1800, 0x1802):
        is_t = idx >= 0x1800
        for oval in (0, 1):
            for nval in (0, 1):
                for rtr_bit in (0, 1):
                    for ext in (0, 1):
                        for mode in (OPER, PREOP):
                            nid = 0x201 | (0 if nval else OFF) | (RTR if rtr_bit else 0) | (EXT if ext else 0)
                            oid = 0x181 | (0 if oval else OFF) | RTR
                            trs = _run(m, f, {'obj->Key': (idx << 16) | 0x100, '*buffer': nid, 'size': 4,
                                              'out:COTInt32Read:2': oid, 'call:COTInt32Write': NONE,
                                              'node->Nmt.Mode': mode})
                            exp = (not ext) and ((not is_t) or rtr_bit) and not (oval and nval)
                            site = 'cob-id %04Xh old-valid=%d new-valid=%d bit30=%d ext=%d mode=%s' % (
                                idx, oval, nval, rtr_bit, ext, 'OPERATIONAL' if mode == OPER else 'PRE-OP')

                            def extra(t, idx=idx, is_t=is_t, oval=oval, nval=nval, mode=mode, exp=exp):
                                resets = [c for c in t.calls() if c[1] in ('COTPdoReset', 'CORPdoReset')]
                                want = 1 if (exp and mode == OPER and oval != nval) else 0
                                if len(resets) != want:
                                    return 'PDO re-initialised %d times, required %d (live re-validation only in OPERATIONAL ' \
                                           'and only when the valid bit changes)' % (len(resets), want)
                                if resets:
                                    c = resets[0]
                                    if c[1] != ('COTPdoReset' if is_t else 'CORPdoReset') or c[2][1] != (idx & 0x1FF):
                                        return 're-initialises %s(%s) for %04Xh' % (c[1], c[2][1], idx)
                                    names = t.call_names()
                                    if names.index(c[1]) < names.index('COTInt32Write'):
                                        return 'PDO re-initialised before the new COB-ID is stored'
                                return None
                            _verdict(ctx, f, site, trs, bool(exp), NONE, extra)
                            n += 1
    ctx.inst('RF2.pdo-write.id.rows', n)


def activation_revalidates(ctx):
    """COTPdoGetMap / CORPdoGetMap: total mapped bytes > 8 or a missing target refuse the mapping
    before ObjNum is stored."""
    m = ctx.m
    for f, idx in (('COTPdoGetMap', 0x1A00), ('CORPdoGetMap', 0x1600)):
        m.need(f)
        NONE = m.enum('CO_ERR_NONE')
        for (cnt, bits, found, ok) in ((2, 32, 1, True), (3, 32, 1, False), (1, 8, 0, False), (2, 64, 1, False)):
            pe = PEval(m, f)
            pe.record_sets = False
            pe.store_filter = lambda k, fld: fld is not None and fld[1] in ('ObjNum', 'Size', 'Map')
            trs = pe.run({'pdo': 1, 'num': 0, 'out:CODictRdByte:2': cnt, 'call:CODictRdByte': NONE,
                          'call:CODictRdLong': NONE, 'out:CODictRdLong:2': 0x21000000 | bits, 'call:CODictFind': found})
            site = '%s count=%d entry-bits=%d target-found=%d' % (f, cnt, bits, found)
            bad = None
            for t in trs:
                stored = [e for e in t.stores() if e[4][1] == 'ObjNum']
                if ok:
                    # decode of the mapping entry: the object is looked up under the entry itself (index, sub-index in the
                    # upper 24 bits), its width in bytes is the length field / 8, the count stored is the entry count
                    finds = [c[2][1] for c in t.calls() if c[1] == 'CODictFind']
                    sizes = [e[2] for e in t.stores() if e[4][1] == 'Size']
                    if finds != [0x21000000 | bits] * cnt:
                        bad = 'mapped object looked up under %s, the entry is %08Xh' % ([hex(x) if x is not None else None for x in finds], 0x21000000 | bits)
                    elif f == 'COTPdoGetMap' and sizes != [bits >> 3] * cnt:
                        bad = 'widths stored %s, required %d bytes each' % (sizes, bits >> 3)
                    elif [e[2] for e in stored][-1:] != [cnt]:
                        bad = 'number of mapped objects stored %s, required %d' % ([e[2] for e in stored], cnt)
                if ok and (t.ret != NONE or not stored):
                    bad = 'valid mapping is not activated (returns %s)' % t.ret
                if not ok and (t.ret == NONE or t.ret is None or stored):
                    bad = 'invalid mapping is activated (returns %s, ObjNum stored: %s)' % (t.ret, bool(stored))
            if bad:
                ctx.ob(P, 'RF2-pdo-activate', f, site, None)
                # RF6 proves the Map[] / Size[] subscripts of the transmit / receive loops under "ObjNum <= 8 and only for a
                # validated mapping": publishing ObjNum for a refused mapping breaks that premise (C01)
                ctx.find(P + ['C01', 'C12', 'C13'], 'RF2-pdo-activate', f, 'revalidate:%d:%d:%d' % (cnt, bits, found), m.loc(f, m.funcs[f].line),
                         '%s: %s' % (site, bad))
            else:
                ctx.ob(P, 'RF2-pdo-activate', f, site, 'activated' if ok else 'refused before ObjNum is stored')


def event_write(ctx):
    """18xxh:05 written on a live TPDO (node OPERATIONAL, COB-ID valid): running event / inhibit timers are stopped
    and the cached event time follows the written value for EVERY value (0 included: the TPDO stops its cyclic
    transmission for good); a timer is armed iff the new time is non-zero.  Otherwise only the entry is stored
    (the cache is reloaded by COTPdoReset when the PDO goes live)."""
    m = ctx.m
    f = 'COTPdoEventWrite'
    m.need(f)
    props = ['C12', 'C14']
    NONE = m.enum('CO_ERR_NONE')
    OPER = m.enum('CO_OPERATIONAL')
    PREOP = m.enum('CO_PREOP')
    n = 0
    for mode in (OPER, PREOP):
        for valid in (0, 1):
            for ev_run in (0, 1):
                for val in (0, 1, 100, 0xFFFF, None):
                    ticks = None if val is None else val
                    inputs = {'obj->Key': 0x18010500, 'size': 2, 'call:COTInt16Write': NONE,
                              'out:CODictRdLong:2': 0x181 if valid else (OFF | 0x181), 'node->Nmt.Mode': mode,
                              'node->TPdo[1].EvTmr': 3 if ev_run else -1, 'node->TPdo[1].InTmr': -1,
                              'node->TPdo[1].Event': 77, 'call:COTmrDelete': 0, 'call:COTmrCreate': 6}
                    # the entry itself is not mappable: storing it triggers no TPDO, the TPDO record is as before
                    inputs['post:COTInt16Write'] = {'node->TPdo[1].EvTmr': 3 if ev_run else -1, 'node->TPdo[1].InTmr': -1,
                                                    'node->TPdo[1].Event': 77, 'node->Nmt.Mode': mode}
                    if val is not None:
                        inputs['*buffer'] = val
                        inputs['call:COTmrGetTicks'] = ticks
                    pe = PEval(m, f)
                    pe.record_sets = False
                    pe.store_filter = lambda k, fld: fld is not None and fld[0] == 'CO_TPDO'
                    base = dict((prm[0], 1) for prm in m.funcs[f].params if is_pointer(prm[2]))
                    base.update(inputs)
                    trs = pe.run(base)
                    site = '1801h:05 mode=%s cob-id-valid=%d event-timer-running=%d value=%s' % (
                        'OPERATIONAL' if mode == OPER else 'PRE-OP', valid, ev_run, 'any' if val is None else val)
                    bad = None
                    live = (mode == OPER and valid)
                    for t in trs:
                        names = t.call_names()
                        st = dict((e[1].split('.')[-1], e[2]) for e in t.stores())
                        cr = [c for c in t.calls() if c[1] == 'COTmrCreate']
                        if t.ret != NONE:
                            bad = 'accepted write returns %s' % t.ret
                        elif ev_run and 'COTmrDelete' not in names:
                            bad = 'running event timer is not stopped'
                        elif live and 'Event' not in st:
                            bad = 'the cached event time is not updated on a path (keeps the previous period: the next ' \
                                  'transmission re-arms the event timer with it)'
                        elif live and val is not None and st.get('Event') != ticks:
                            bad = 'cached event time becomes %s, required %s' % (st.get('Event'), ticks)
                        elif live and val is not None and (len(cr) != (1 if ticks > 0 else 0)):
                            bad = 'event timer created %d times for period %s' % (len(cr), ticks)
                        elif live and cr and cr[0][2][1:3] != [st.get('Event'), 0]:
                            bad = 'event timer armed with %s, required one-shot of the cached event time' % cr[0][2][1:3]
                        elif not live and cr:
                            bad = 'event timer armed although the TPDO is not live'
                    if not trs:
                        bad = 'no path'
                    n += 1
                    if bad:
                        ctx.ob(props, 'RF2-pdo-event', f, site, None)
                        ctx.find(props, 'RF2-pdo-event', f, 'event:%s' % bad.split(':')[0][:60], m.loc(f, m.funcs[f].line), '%s: %s' % (site, bad))
                    else:
                        ctx.ob(props, 'RF2-pdo-event', f, site, 'ok')
    ctx.inst('RF2.pdo-write.event.rows', n)


def run(ctx):
    event_write(ctx)
    map_write(ctx)
    num_write(ctx)
    type_write(ctx)
    id_write(ctx)
    activation_revalidates(ctx)
