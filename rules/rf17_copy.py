"""RF17 - byte-copy loops: induction variables in lockstep, position fields advance by the bytes moved.

Classical induction-variable analysis, done with affine forms (no execution):

(O1, generic, every byte-copy loop of the library)  A byte-copy loop is a loop whose body stores one 8-bit element that is
    loaded from another 8-bit element (`*dst = *src`, `frm->Data[1 + i] = *cur`, `a[n] = b[n]`).  The body is
    interpreted once over symbolic loop-entry values; every scalar / field / pointer the body modifies must change by
    the SAME constant on every path through the body (an induction variable) and that constant must be +1 or -1: one
    byte per iteration moves every cursor and every counter by one.  The copy executes exactly once per iteration, and both
    the address it stores to and the address it loads from depend on an induction variable (a cursor that does not
    advance writes every byte to the same place).
(O2, streaming object types)  For the accessors of the types that keep a position (domain read / write, string read):
    on every path to a return, the position field has advanced by exactly the number of bytes the copy loop moved
    (= the trip count, resolved from the exit test where it has the form `counter > 0` / `i < bound`, a free symbol
    otherwise), and by nothing when no byte was moved.  A position that advances by the REQUESTED size although the copy
    was clipped to the remaining bytes, or that advances twice per byte, makes every continued access (SDO segmented /
    block transfer of a domain, C02 / C03 / C06) read or write the wrong bytes.
"""
from canalyze.ir import show, strip, walk, int_type, is_pointer
from canalyze.front import AnalysisBroken
from rules.rf16_delta import lin, atom, is_lin, ladd, lscale, TOP, SIGNS

RULE1 = 'RF17-lockstep'
RULE2 = 'RF17-position'
P_GENERIC = ['C02', 'C03', 'C06']

# accessor -> (record, field) of its position
STREAM = {
    'COTDomainRead': ('CO_OBJ_DOM', 'Offset'),
    'COTDomainWrite': ('CO_OBJ_DOM', 'Offset'),
    'COTStringRead': ('CO_OBJ_STR', 'Offset'),
}
PROPS_OF_UNIT = (
    ('co_ssdo.c', ['C02', 'C03']), ('co_csdo.c', ['C19']), ('co_domain.c', ['C06', 'C02', 'C03']), ('co_string.c', ['C06', 'C03']),
    ('co_sync.c', ['C13']), ('co_pdo.c', ['C12', 'C13']), ('co_emcy', ['C15']),
)


def props_for(m, fname):
    u = m.funcs[fname].unit
    for (k, v) in PROPS_OF_UNIT:
        if k in u:
            return v
    return ['C01']


def is_byte(cty):
    it = int_type(cty)
    return it is not None and it[0] == 8


# ------------------------------------------------------------------ locations and evaluation
def loc_of(x):
    """stable name of an lvalue: ('v', ref) for locals / params, ('m', text) for a field path rooted in a variable"""
    x = strip(x)
    if x is None:
        return None
    if x.k == 'ref' and x.refk in ('VarDecl', 'ParmVarDecl'):
        return ('v', x.ref, x.name)
    if x.k == 'mem':
        r = x
        while r is not None and r.k == 'mem':
            r = strip(r.kids[0])
        if r is not None and r.k == 'ref' and r.refk in ('VarDecl', 'ParmVarDecl'):
            return ('m', show(x), x.field)
    return None


def roots_of(x):
    return set(c.ref for c in walk(x) if c.k == 'ref' and c.refk in ('VarDecl', 'ParmVarDecl'))


class Eval(object):
    """affine evaluation of expressions over a state {loc: affine form}; unknown locations read as their own entry atom"""

    def __init__(self, prefix):
        self.prefix = prefix
        self.ncall = 0

    def read(self, st, loc):
        v = st.get(loc[:2])
        if v is not None:
            return v
        return atom(self.prefix + (loc[2] if loc[0] == 'v' else loc[1]))

    def ev(self, x, st):
        if x is None:
            return TOP
        k = x.k
        if k == 'int':
            return lin({}, x.val) if x.val is not None else TOP
        if k == 'cast':
            v = self.ev(x.kids[0], st)
            it, src = int_type(x.cty), int_type(x.kids[0].cty)
            if is_lin(v) and it is not None and src is not None and it[0] < src[0] and v[1]:
                return TOP
            return v
        if k == 'ref':
            if x.refk == 'EnumConstantDecl' and x.val is not None:
                return lin({}, x.val)
            l = loc_of(x)
            return self.read(st, l) if l is not None else TOP
        if k == 'mem':
            l = loc_of(x)
            return self.read(st, l) if l is not None else TOP
        if k == 'bin' and x.op in ('+', '-'):
            return ladd(self.ev(x.kids[0], st), self.ev(x.kids[1], st), 1 if x.op == '+' else -1)
        if k == 'bin' and x.op == '*':
            a, b = self.ev(x.kids[0], st), self.ev(x.kids[1], st)
            if is_lin(a) and is_lin(b):
                if not a[1]:
                    return lscale(b, a[2])
                if not b[1]:
                    return lscale(a, b[2])
            return TOP
        if k == 'un' and x.op == '-':
            return lscale(self.ev(x.kids[0], st), -1)
        if k == 'sizeof' and x.val is not None:
            return lin({}, x.val)
        return TOP

    def assign(self, x, st):
        """effect of one expression statement (assignments, ++/--); anything else with effects -> havoc of what it writes"""
        if x is None:
            return
        k = x.k
        if k == 'decl':
            for v in x.kids:
                self.assign(v, st)
            return
        if k == 'var':
            if x.kids:
                st[('v', x.ref)] = self.ev(x.kids[0], st)
            return
        if k == 'bin' and x.op in ('=', '+=', '-='):
            l = loc_of(x.kids[0])
            v = self.ev(x.kids[1], st)
            if x.op != '=':
                v = ladd(self.ev(x.kids[0], st), v, 1 if x.op == '+=' else -1)
            if l is not None:
                st[l[:2]] = v
                self.havoc_prefix(st, l)
            return
        if k == 'bin' and x.op.endswith('=') and x.op not in ('==', '!=', '<=', '>='):
            l = loc_of(x.kids[0])
            if l is not None:
                st[l[:2]] = TOP
            return
        if k == 'un' and x.op in ('post++', 'post--', '++', '--', 'pre++', 'pre--'):
            l = loc_of(x.kids[0])
            if l is not None:
                st[l[:2]] = ladd(self.ev(x.kids[0], st), lin({}, 1), -1 if '--' in x.op else 1)
            return
        if k == 'call':
            # the callee may write anything reachable from its pointer arguments
            for a in x.kids[1:]:
                for r in roots_of(a):
                    for key in list(st):
                        if key[0] == 'm':
                            st[key] = TOP
            self.called = True
            return
        if k == 'cast':
            self.assign(x.kids[0], st)

    def havoc_prefix(self, st, l):
        """a pointer variable was re-assigned: field paths rooted in it are no longer the same locations"""
        if l[0] != 'v':
            return
        name = l[2]
        for key in list(st):
            if key[0] == 'm' and (key[1].startswith(name + '->') or key[1].startswith(name + '.')):
                st[key] = TOP


# ------------------------------------------------------------------ loop body analysis
def copy_stores(x):
    """byte-copy stores in a statement: [(assign node, lhs, source load)]"""
    out = []
    for c in walk(x):
        if c.k == 'bin' and c.op == '=':
            l = strip(c.kids[0])
            if l.k in ('idx',) or (l.k == 'un' and l.op == '*'):
                if not is_byte(l.cty):
                    continue
                src = None
                for r in walk(c.kids[1]):
                    if (r.k == 'idx' or (r.k == 'un' and r.op == '*')) and is_byte(r.cty):
                        src = r
                        break
                if src is not None:
                    out.append((c, l, src))
    return out


def is_fake(g, l):
    """do { ... } while (0) of a statement macro: not a loop"""
    conds = [strip(g.nodes[c].x) for c in l.cond_nodes]
    return len(conds) == 1 and conds[0] is not None and conds[0].k == 'int' and conds[0].val == 0


def body_paths(g, lp, ev, limit=400):
    """interpret the loop body once from symbolic loop-entry values: [(state, #copy stores, copy sites)] per path from the
    head back to the head; None if the body leaves the loop otherwise than through its condition or contains another loop"""
    inner = [l for l in g.loops if l is not lp and l.head in lp.nodes and not is_fake(g, l)]
    if inner:
        return None, 'contains an inner loop'
    head = lp.head
    out = []
    work = [(head, {}, 0, (), True)]
    steps = 0
    while work:
        nid, st, ncopy, sites, first = work.pop()
        steps += 1
        if steps > limit:
            return None, 'too many paths'
        if nid == head and not first:
            out.append((st, ncopy, sites))
            continue
        if nid not in lp.nodes:
            if nid == head:
                pass
            else:
                # left the loop: through the condition (fine, not a body path) or through break / return
                continue
        node = g.nodes[nid]
        if node.kind in ('ret',):
            return None, 'returns from inside the loop'
        st = dict(st)
        if node.kind == 'stmt' and node.x is not None:
            cs = copy_stores(node.x)
            if cs:
                ncopy += len(cs)
                sites = sites + tuple((node.id, c) for c in cs)
            ev.assign(node.x, st)
        for (t, lab) in node.succ:
            if node.kind == 'br' and node.x is not None and strip(node.x).k == 'int' and lab in (True, False) \
                    and lab != bool(strip(node.x).val):
                continue                      # the back edge of a do { } while (0)
            if t not in lp.nodes and t != head:
                if nid in lp.cond_nodes:
                    continue                  # exit through the loop condition
                if node.kind == 'br' or True:
                    # break out of the body
                    if nid not in lp.cond_nodes:
                        return None, 'leaves the loop through a break'
            work.append((t, st, ncopy, sites, False))
    return out, None


def induction(paths, ev):
    """{loc: step or None (irregular)} over the body paths"""
    locs = set()
    for (st, n, s) in paths:
        locs |= set(st)
    res = {}
    for l in locs:
        steps = set()
        for (st, n, s) in paths:
            v = st.get(l)
            if v is None:
                steps.add(0)
                continue
            name = ev.prefix + (l[1] if l[0] == 'm' else None or '')
            d = None
            if is_lin(v):
                # v - entry atom
                for (a, k) in v[1]:
                    pass
                ent = None
                for key in ('v', 'm'):
                    pass
                d = v
            steps.add(v)
        res[l] = steps
    return res


def analyse_loop(m, fname, g, lp):
    """returns dict with induction steps, copy info or a reason why the loop is not analysed"""
    ev = Eval('@')
    paths, why = body_paths(g, lp, ev)
    if paths is None:
        return {'skip': why}
    if not paths:
        return {'skip': 'no path through the body'}
    # names of locations for entry atoms
    locname = {}
    for (st, n, s) in paths:
        for l in st:
            locname[l] = None
    steps = {}
    for l in locname:
        vals = set()
        for (st, n, s) in paths:
            v = st.get(l)
            if v is None:
                vals.add(0)
            elif is_lin(v) and len(v[1]) == 1 and v[1][0][1] == 1 and v[1][0][0].startswith('@'):
                # entry atom of the same location + constant?
                vals.add(('atom', v[1][0][0], v[2]))
            else:
                vals.add('irregular')
        steps[l] = vals
    return {'paths': paths, 'steps': steps, 'ev': ev}


def entry_atom_name(g, l, fn_names):
    return '@' + (fn_names.get(l[1], '?') if l[0] == 'v' else l[1])


def lockstep(ctx):
    m = ctx.m
    n_loops = 0
    n_skipped = 0
    for fname in sorted(m.funcs):
        g = m.cfg(fname)
        if not g.loops:
            continue
        names = {}
        for nd in g.nodes:
            if nd.x is not None:
                for c in walk(nd.x):
                    if c.k == 'ref' and c.refk in ('VarDecl', 'ParmVarDecl'):
                        names[c.ref] = c.name
                    if c.k == 'var':
                        names[c.ref] = c.name
        for lp in g.loops:
            # constant-false condition: the do { } while (0) of a macro
            if is_fake(g, lp):
                continue
            body_copy = []
            for nid in lp.nodes:
                nd = g.nodes[nid]
                if nd.kind == 'stmt' and nd.x is not None:
                    # only stores of this loop level (inner loops are analysed on their own)
                    if any(nid in l2.nodes for l2 in g.loops if l2 is not lp and l2.head in lp.nodes and not is_fake(g, l2)):
                        continue
                    body_copy.extend(copy_stores(nd.x))
            if not body_copy:
                continue
            props = props_for(m, fname)
            site0 = '%s: copy loop' % m.loc(fname, lp.line)
            res = analyse_loop(m, fname, g, lp)
            if 'skip' in res:
                n_skipped += 1
                ctx.ob(props, RULE1, fname, site0, 'not analysed: %s' % res['skip'], nontrivial=False)
                continue
            n_loops += 1
            paths, steps = res['paths'], res['steps']
            bad = []
            per_iter = 1

            def delta(st, l):
                """change of location l along one body path: int, or None if it is not `entry value + constant`"""
                v = st.get(l)
                if v is None:
                    return 0
                nm = names.get(l[1], '?') if l[0] == 'v' else l[1]
                if is_lin(v) and len(v[1]) == 1 and v[1][0] == ('@' + nm, 1):
                    return v[2]
                return None

            ind = {}
            for l in steps:
                ds = set(delta(st, l) for (st, n_, s_) in paths)
                ind[l] = ds.pop() if len(ds) == 1 else ('varies', sorted(map(str, ds)))
            # per path: a path that copies a byte advances the cursors its addresses are computed from by exactly one
            cursors = set()
            for (st, ncopy, sites) in paths:
                if ncopy > 1:
                    bad.append(('multi-copy', '%d byte stores on one path through the body' % ncopy))
                    continue
                for (nid_, (c, l, src)) in sites:
                    for (what, e) in (('target', l), ('source', src)):
                        deps = set()
                        for r in walk(e):
                            lo = loc_of(r) if r.k in ('ref', 'mem') else None
                            if lo is not None:
                                deps.add(lo[:2])
                        cursors |= deps
                        ds = dict((d, delta(st, d)) for d in deps)
                        if not any(v in (1, -1) for v in ds.values()):
                            bad.append(('fixed-%s' % what, 'on a path that copies a byte the %s address %s does not depend on any variable that '
                                                           'advances by one: every byte goes to / comes from the same place' % (what, show(e))))
                        for d, v in ds.items():
                            if v is not None and abs(v) > 1:
                                nm = names.get(d[1], '?') if d[0] == 'v' else d[1]
                                bad.append(('step:%s' % nm, 'the cursor `%s` changes by %+d on a path that copies one byte' % (nm, v)))
            guarded = []
            for l, k in sorted(ind.items(), key=str):
                nm = names.get(l[1], '?') if l[0] == 'v' else l[1]
                if isinstance(k, tuple):
                    if set(k[1]) <= set(['0', '1', '-1']) and not (set(k[1]) >= set(['1', '-1'])):
                        guarded.append(nm)        # guarded / saturating counter, or a cursor that rests on the padding path
                    elif l not in cursors or 'None' not in k[1]:
                        bad.append(('uneven:%s' % nm, '`%s` changes by %s on different paths through the body' % (nm, k[1])))
                elif k not in (None, 0) and abs(k) != per_iter:
                    bad.append(('step:%s' % nm, '`%s` changes by %+d per iteration while %d byte is copied per iteration' % (nm, k, per_iter)))
            desc = ', '.join('%s%+d' % ((names.get(l[1], '?') if l[0] == 'v' else l[1]), k) for l, k in sorted(ind.items(), key=str)
                             if isinstance(k, int) and k)
            if guarded:
                desc += ' (guarded counters: %s)' % ', '.join(guarded)
            if not bad:
                ctx.ob(props, RULE1, fname, site0, 'induction variables in lockstep: %s' % desc)
            seen = set()
            for (key, msg) in bad:
                if key in seen:
                    continue
                seen.add(key)
                ctx.ob(props, RULE1, fname, site0 + ' / ' + key, None)
                ctx.find(props, RULE1, fname, key, m.loc(fname, lp.line), '%s, copy loop at line %d: %s' % (fname, lp.line, msg))
    ctx.inst('RF17.copy-loops', n_loops)
    ctx.inst('RF17.copy-loops-skipped', n_skipped)
    ctx.require_min(P_GENERIC, RULE1, n_loops, 8, 'byte-copy loops analysed')


# ------------------------------------------------------------------ whole-function affine post-state (streaming accessors)
def trip_count(g, lp, ind, ev, st, names):
    """affine form of the number of iterations, or a fresh atom"""
    fresh = atom('N%d' % lp.line)
    if len(lp.cond_nodes) != 1:
        return fresh, False
    c = strip(g.nodes[lp.cond_nodes[0]].x)
    if c is None or c.k != 'bin' or c.op not in SIGNS:
        return fresh, False
    a, b = strip(c.kids[0]), strip(c.kids[1])
    la, lb = loc_of(a), loc_of(b)
    ka = ind.get(la[:2]) if la is not None else 0
    kb = ind.get(lb[:2]) if lb is not None else 0
    va, vb = ev.ev(a, st), ev.ev(b, st)
    if not (is_lin(va) and is_lin(vb)):
        return fresh, False
    # counter > 0 / counter != 0 with the counter going down by one
    if c.op in ('>', '!=') and ka == -1 and (kb in (0, None) and vb == lin({}, 0)):
        return va, True
    if c.op in ('<', '!=') and kb == -1 and (ka in (0, None) and va == lin({}, 0)):
        return vb, True
    # i < bound with i going up by one and the bound fixed
    if c.op in ('<', '!=') and ka == 1 and kb in (0,) and lb is not None or (c.op in ('<', '!=') and ka == 1 and b.k == 'int'):
        return ladd(vb, va, -1), True
    if c.op in ('>', '!=') and kb == 1 and ka in (0,) and la is not None:
        return ladd(va, vb, -1), True
    return fresh, False


def position(ctx):
    m = ctx.m
    n = 0
    for fname in sorted(STREAM):
        fld = STREAM[fname]
        m.need(fname)
        props = ['C06', 'C02', 'C03']
        g = m.cfg(fname)
        names = {}
        for nd in g.nodes:
            if nd.x is not None:
                for c in walk(nd.x):
                    if c.k in ('ref', 'var') and c.ref is not None:
                        names[c.ref] = c.name
        loops = {}
        for lp in g.loops:
            if is_fake(g, lp):
                continue
            res = analyse_loop(m, fname, g, lp)
            loops[lp.head] = (lp, res)
        ev = Eval('@')
        finals = []
        work = [(g.entry.id, {}, lin({}, 0), 0)]
        steps = 0
        while work:
            nid, st, moved, nloops = work.pop()
            steps += 1
            if steps > 4000:
                raise AnalysisBroken('RF17: path explosion in %s' % fname)
            node = g.nodes[nid]
            if node.kind in ('ret', 'exit'):
                if node.kind == 'ret':
                    finals.append((st, moved, nloops, node.line))
                continue
            if nid in loops:
                lp, res = loops[nid]
                st = dict(st)
                if 'skip' in res:
                    raise AnalysisBroken('RF17: loop at line %d of %s cannot be summarised (%s)' % (lp.line, fname, res['skip']))
                ind = {}
                for l, vals in res['steps'].items():
                    nm = names.get(l[1], '?') if l[0] == 'v' else l[1]
                    ks = set()
                    for v in vals:
                        ks.add(0 if v == 0 else (v[2] if (v != 'irregular' and v[1] == '@' + nm) else 'x'))
                    ind[l] = ks.pop() if (len(ks) == 1 and 'x' not in ks) else None
                N, exact = trip_count(g, lp, ind, ev, st, names)
                copies = set(c for (s_, c, z) in res['paths'])
                for l, k in ind.items():
                    if k is None:
                        st[l] = TOP
                    elif k:
                        cur = ev.read(st, l + ((names.get(l[1], '?'),) if l[0] == 'v' else (None,)))
                        st[l] = ladd(cur, lscale(N, k))
                if copies and 0 not in copies:
                    moved = ladd(moved, lscale(N, max(copies)))
                    nloops += 1
                elif copies - {0}:
                    moved = TOP
                # continue at the loop exit(s)
                for cn in lp.cond_nodes:
                    for (t, lab) in g.nodes[cn].succ:
                        if t not in lp.nodes:
                            work.append((t, dict(st), moved, nloops))
                continue
            st = dict(st)
            if node.kind == 'stmt' and node.x is not None:
                ev.assign(node.x, st)
            for (t, lab) in node.succ:
                work.append((t, st, moved, nloops))
        # obligations
        posloc = None
        for nd in g.nodes:
            if nd.x is None:
                continue
            for c in walk(nd.x):
                if c.k == 'mem' and c.field == fld:
                    posloc = loc_of(c)
        if posloc is None:
            ctx.broke(props, 'RF17: %s does not access its position field %s.%s' % (fname, fld[0], fld[1]))
            continue
        outcomes = {}
        for (st, moved, nloops, line) in finals:
            v = st.get(posloc[:2])
            adv = lin({}, 0) if v is None else (ladd(v, atom('@' + posloc[1]), -1) if is_lin(v) else TOP)
            key = ('copied' if nloops else 'nothing copied')
            ok = (adv != TOP and moved != TOP and adv == moved)
            outcomes.setdefault((key, ok, _show(adv), _show(moved)), line)
        for (key, ok, adv, moved), line in sorted(outcomes.items(), key=str):
            n += 1
            site = '%s: return at line %d (%s): position advances by %s, bytes moved %s' % (fname, line, key, adv, moved)
            if ok:
                ctx.ob(props, RULE2, fname, site, 'position advance == bytes moved')
            else:
                ctx.ob(props, RULE2, fname, site, None)
                ctx.find(props, RULE2, fname, 'position:%s' % key, m.loc(fname, line),
                         '%s: on a path to the return at line %d the position %s advances by %s while the copy loop moved %s bytes: '
                         'a continued access (segmented / block transfer of this object) then reads or writes the wrong bytes' % (
                             fname, line, posloc[1], adv, moved))
    ctx.inst('RF17.position-outcomes', n)
    ctx.require_min(['C06'], RULE2, n, 4, 'return classes of the streaming accessors')


def _show(v):
    if v == TOP:
        return '<not expressible>'
    parts = []
    for (a, k) in v[1]:
        a = a.lstrip('@')
        parts.append(('+ ' if k > 0 else '- ') + (a if abs(k) == 1 else '%d*%s' % (abs(k), a)))
    if v[2] or not parts:
        parts.append('%+d' % v[2])
    s = ' '.join(parts)
    return s[2:] if s.startswith('+ ') else s


def run(ctx):
    lockstep(ctx)
    position(ctx)
