"""RF17 - byte-copy loops: induction variables in lockstep, position fields advance by the bytes moved.

Classical induction-variable analysis, done with affine forms (no execution):

(O1, generic, every byte-copy loop of the library)  A byte-copy loop is a loop whose body stores one 8-bit element that is
    loaded from another 8-bit element (`*dst = *src`, `frm->Data[1 + i] = *cur`, `a[n] = b[n]`).  The body is
    interpreted once over symbolic loop-entry values; every scalar / field / pointer the body modifies must change by
    the SAME constant on every path through the body (an induction variable) and that constant must be +1 or -1: one
    byte per iteration moves every cursor and every counter by one.  The copy executes exactly once per iteration, and both
    the address it stores to and the address it loads from depend on an induction variable (a cursor that does not
    advance writes every byte to the same place).
(O2, streaming object types)  For the accessors of the types that keep a position (domain read / write, string read):
    on every path to a return, the position field has advanced by exactly the number of bytes the copy loop moved
    (= the trip count, resolved from the exit test where it has the form `counter > 0` / `i < bound`, a free symbol
    otherwise), and by nothing when no byte was moved.  A position that advances by the REQUESTED size although the copy
    was clipped to the remaining bytes, or that advances twice per byte, makes every continued access (SDO segmented /
    block transfer of a domain, C02 / C03 / C06) read or write the wrong bytes.
"""
from canalyze.ir import show, strip, walk, int_type, is_pointer
from canalyze.front import AnalysisBroken
from rules.rf16_delta import lin, atom, is_lin, ladd, lscale, TOP, SIGNS

RULE1 = 'RF17-lockstep'
RULE2 = 'RF17-position'
P_GENERIC = ['C02', 'C03', 'C06']

# accessor -> (record, field) of its position
STREAM = {
    'COTDomainRead': ('CO_OBJ_DOM', 'Offset'),
    'COTDomainWrite': ('CO_OBJ_DOM', 'Offset'),
    'COTStringRead': ('CO_OBJ_STR', 'Offset'),
}
PROPS_OF_UNIT = (
    ('co_ssdo.c', ['C02', 'C03']), ('co_csdo.c', ['C19']), ('co_domain.c', ['C06', 'C02', 'C03']), ('co_string.c', ['C06', 'C03']),
    ('co_sync.c', ['C13']), ('co_pdo.c', ['C12', 'C13']), ('co_emcy', ['C15']),
)


def props_for(m, fname):
    u = m.funcs[fname].unit
    for (k, v) in PROPS_OF_UNIT:
        if k in u:
            return v
    return ['C01']


def is_byte(cty):
    it = int_type(cty)
    return it is not None and it[0] == 8


# ------------------------------------------------------------------ locations and evaluation
def loc_of(x):
    """stable name of an lvalue: ('v', ref) for locals / params, ('m', text) for a field path rooted in a variable"""
    x = strip(x)
    if x is None:
        return None
    if x.k == 'ref' and x.refk in ('VarDecl', 'ParmVarDecl'):
        return ('v', x.ref, x.name)
    if x.k == 'mem':
        r = x
        while r is not None and r.k == 'mem':
            r = strip(r.kids[0])
        if r is not None and r.k == 'ref' and r.refk in ('VarDecl', 'ParmVarDecl'):
            return ('m', show(x), x.field)
    return None


def roots_of(x):
    return set(c.ref for c in walk(x) if c.k == 'ref' and c.refk in ('VarDecl', 'ParmVarDecl'))


class Eval(object):
    """affine evaluation of expressions over a state {loc: affine form}; unknown locations read as their own entry atom"""

    def __init__(self, prefix, model=None, lossless_casts=False):
        self.prefix = prefix
        self.ncall = 0
        self.m = model
        self.fields = {}          # memory path text -> (record, field)
        self.lossless = lossless_casts
        self.events = None        # list collecting call events while a path is evaluated
        self.preserve = ()        # records assumed untouched by callees (stated assumption of the rule that sets it)
        self.overlaps = []        # (function, loop line, target address - source address at loop entry, walk direction)
        self.starts = []          # (function, loop line, target address, source address) at loop entry

    def read(self, st, loc):
        if loc[0] == 'm' and len(loc) > 2:
            self.fields[loc[1]] = loc[2]
        v = st.get(loc[:2])
        if v is not None:
            return v
        return atom(self.prefix + (loc[2] if loc[0] == 'v' else loc[1]))

    def ev(self, x, st):
        if x is None:
            return TOP
        k = x.k
        if k == 'int':
            return lin({}, x.val) if x.val is not None else TOP
        if k == 'cast':
            v = self.ev(x.kids[0], st)
            it, src = int_type(x.cty), int_type(x.kids[0].cty)
            if is_lin(v) and it is not None and src is not None and it[0] < src[0] and v[1] and not self.lossless:
                return TOP
            return v
        if k == 'ref':
            if x.refk == 'EnumConstantDecl' and x.val is not None:
                return lin({}, x.val)
            l = loc_of(x)
            return self.read(st, l) if l is not None else TOP
        if k == 'mem':
            l = loc_of(x)
            return self.read(st, l) if l is not None else TOP
        if k == 'bin' and x.op in ('+', '-'):
            return ladd(self.ev(x.kids[0], st), self.ev(x.kids[1], st), 1 if x.op == '+' else -1)
        if k == 'bin' and x.op == '*':
            a, b = self.ev(x.kids[0], st), self.ev(x.kids[1], st)
            if is_lin(a) and is_lin(b):
                if not a[1]:
                    return lscale(b, a[2])
                if not b[1]:
                    return lscale(a, b[2])
            return TOP
        if k == 'un' and x.op == '-':
            return lscale(self.ev(x.kids[0], st), -1)
        if k == 'sizeof' and x.val is not None:
            return lin({}, x.val)
        return TOP

    def assign(self, x, st):
        """effect of one expression statement (assignments, ++/--); anything else with effects -> havoc of what it writes"""
        if x is None:
            return
        k = x.k
        if k == 'decl':
            for v in x.kids:
                self.assign(v, st)
            return
        if k == 'var':
            if x.kids:
                i0 = strip(x.kids[0])
                if i0 is not None and i0.k == 'call':
                    self.assign(i0, st)
                    st[('v', x.ref)] = TOP
                else:
                    st[('v', x.ref)] = self.ev(x.kids[0], st)
            return
        if k == 'bin' and x.op in ('=', '+=', '-='):
            l = loc_of(x.kids[0])
            rhs = strip(x.kids[1])
            if rhs is not None and rhs.k == 'call':
                self.assign(rhs, st)
                v = TOP
            else:
                v = self.ev(x.kids[1], st)
            if x.op != '=':
                v = ladd(self.ev(x.kids[0], st), v, 1 if x.op == '+=' else -1)
            if l is not None:
                if l[0] == 'm':
                    self.fields[l[1]] = l[2]
                st[l[:2]] = v
                self.havoc_prefix(st, l)
            return
        if k == 'bin' and x.op.endswith('=') and x.op not in ('==', '!=', '<=', '>='):
            l = loc_of(x.kids[0])
            if l is not None:
                st[l[:2]] = TOP
            return
        if k == 'un' and x.op in ('post++', 'post--', '++', '--', 'pre++', 'pre--'):
            l = loc_of(x.kids[0])
            if l is not None:
                st[l[:2]] = ladd(self.ev(x.kids[0], st), lin({}, 1), -1 if '--' in x.op else 1)
            return
        if k == 'call':
            from canalyze.ir import callee_name
            if self.events is not None:
                self.events.append((callee_name(x), tuple(self.ev(a, st) for a in x.kids[1:]), x.line))
            mods, unknown = (frozenset(), True)
            if self.m is not None:
                mods, unknown = self.m.call_modset(x)
            for key in list(st):
                if key[0] == 'm':
                    f = self.fields.get(key[1])
                    if f is not None and f[0] in self.preserve:
                        continue
                    if unknown or f is None or f in mods:
                        st[key] = TOP
            # locals whose address is handed over may be written
            for a in x.kids[1:]:
                a0 = strip(a)
                if a0 is not None and a0.k == 'un' and a0.op == '&':
                    l = loc_of(a0.kids[0])
                    if l is not None:
                        st[l[:2]] = TOP
            self.called = True
            return
        if k == 'cast':
            self.assign(x.kids[0], st)

    def havoc_prefix(self, st, l):
        """a pointer variable was re-assigned: field paths rooted in it are no longer the same locations"""
        if l[0] != 'v':
            return
        name = l[2]
        for key in list(st):
            if key[0] == 'm' and (key[1].startswith(name + '->') or key[1].startswith(name + '.')):
                st[key] = TOP


# ------------------------------------------------------------------ loop body analysis
def copy_stores(x):
    """byte-copy stores in a statement: [(assign node, lhs, source load)]"""
    out = []
    for c in walk(x):
        if c.k == 'bin' and c.op == '=':
            l = strip(c.kids[0])
            if l.k in ('idx',) or (l.k == 'un' and l.op == '*'):
                if not is_byte(l.cty):
                    continue
                src = None
                for r in walk(c.kids[1]):
                    if (r.k == 'idx' or (r.k == 'un' and r.op == '*')) and is_byte(r.cty):
                        src = r
                        break
                if src is not None:
                    out.append((c, l, src))
    return out


def is_fake(g, l):
    """do { ... } while (0) of a statement macro: not a loop"""
    conds = [strip(g.nodes[c].x) for c in l.cond_nodes]
    return len(conds) == 1 and conds[0] is not None and conds[0].k == 'int' and conds[0].val == 0


def body_paths(g, lp, ev, limit=400):
    """interpret the loop body once from symbolic loop-entry values: [(state, #copy stores, copy sites)] per path from the
    head back to the head; None if the body leaves the loop otherwise than through its condition or contains another loop"""
    inner = [l for l in g.loops if l is not lp and l.head in lp.nodes and not is_fake(g, l)]
    if inner:
        return None, 'contains an inner loop'
    head = lp.head
    out = []
    work = [(head, {}, 0, (), True)]
    steps = 0
    while work:
        nid, st, ncopy, sites, first = work.pop()
        steps += 1
        if steps > limit:
            return None, 'too many paths'
        if nid == head and not first:
            out.append((st, ncopy, sites))
            continue
        if nid not in lp.nodes:
            if nid == head:
                pass
            else:
                # left the loop: through the condition (fine, not a body path) or through break / return
                continue
        node = g.nodes[nid]
        if node.kind in ('ret',):
            return None, 'returns from inside the loop'
        st = dict(st)
        if node.kind == 'stmt' and node.x is not None:
            cs = copy_stores(node.x)
            if cs:
                ncopy += len(cs)
                sites = sites + tuple((node.id, c) for c in cs)
            ev.assign(node.x, st)
        for (t, lab) in node.succ:
            if node.kind == 'br' and node.x is not None and strip(node.x).k == 'int' and lab in (True, False) \
                    and lab != bool(strip(node.x).val):
                continue                      # the back edge of a do { } while (0)
            if t not in lp.nodes and t != head:
                if nid in lp.cond_nodes:
                    continue                  # exit through the loop condition
                if node.kind == 'br' or True:
                    # break out of the body
                    if nid not in lp.cond_nodes:
                        return None, 'leaves the loop through a break'
            work.append((t, st, ncopy, sites, False))
    return out, None


def induction(paths, ev):
    """{loc: step or None (irregular)} over the body paths"""
    locs = set()
    for (st, n, s) in paths:
        locs |= set(st)
    res = {}
    for l in locs:
        steps = set()
        for (st, n, s) in paths:
            v = st.get(l)
            if v is None:
                steps.add(0)
                continue
            name = ev.prefix + (l[1] if l[0] == 'm' else None or '')
            d = None
            if is_lin(v):
                # v - entry atom
                for (a, k) in v[1]:
                    pass
                ent = None
                for key in ('v', 'm'):
                    pass
                d = v
            steps.add(v)
        res[l] = steps
    return res


def analyse_loop(m, fname, g, lp):
    """returns dict with induction steps, copy info or a reason why the loop is not analysed"""
    ev = Eval('@')
    paths, why = body_paths(g, lp, ev)
    if paths is None:
        return {'skip': why}
    if not paths:
        return {'skip': 'no path through the body'}
    # names of locations for entry atoms
    locname = {}
    for (st, n, s) in paths:
        for l in st:
            locname[l] = None
    steps = {}
    for l in locname:
        vals = set()
        for (st, n, s) in paths:
            v = st.get(l)
            if v is None:
                vals.add(0)
            elif is_lin(v) and len(v[1]) == 1 and v[1][0][1] == 1 and v[1][0][0].startswith('@'):
                # entry atom of the same location + constant?
                vals.add(('atom', v[1][0][0], v[2]))
            else:
                vals.add('irregular')
        steps[l] = vals
    return {'paths': paths, 'steps': steps, 'ev': ev}


def entry_atom_name(g, l, fn_names):
    return '@' + (fn_names.get(l[1], '?') if l[0] == 'v' else l[1])


def lockstep(ctx, minimum=8):
    m = ctx.m
    n_loops = 0
    n_skipped = 0
    for fname in sorted(m.funcs):
        g = m.cfg(fname)
        if not g.loops:
            continue
        names = {}
        for nd in g.nodes:
            if nd.x is not None:
                for c in walk(nd.x):
                    if c.k == 'ref' and c.refk in ('VarDecl', 'ParmVarDecl'):
                        names[c.ref] = c.name
                    if c.k == 'var':
                        names[c.ref] = c.name
        for lp in g.loops:
            # constant-false condition: the do { } while (0) of a macro
            if is_fake(g, lp):
                continue
            body_copy = []
            for nid in lp.nodes:
                nd = g.nodes[nid]
                if nd.kind == 'stmt' and nd.x is not None:
                    # only stores of this loop level (inner loops are analysed on their own)
                    if any(nid in l2.nodes for l2 in g.loops if l2 is not lp and l2.head in lp.nodes and not is_fake(g, l2)):
                        continue
                    body_copy.extend(copy_stores(nd.x))
            if not body_copy:
                continue
            props = props_for(m, fname)
            site0 = '%s: copy loop' % m.loc(fname, lp.line)
            res = analyse_loop(m, fname, g, lp)
            if 'skip' in res:
                n_skipped += 1
                ctx.ob(props, RULE1, fname, site0, 'not analysed: %s' % res['skip'], nontrivial=False)
                continue
            n_loops += 1
            paths, steps = res['paths'], res['steps']
            bad = []
            per_iter = 1

            def delta(st, l):
                """change of location l along one body path: int, or None if it is not `entry value + constant`"""
                v = st.get(l)
                if v is None:
                    return 0
                nm = names.get(l[1], '?') if l[0] == 'v' else l[1]
                if is_lin(v) and len(v[1]) == 1 and v[1][0] == ('@' + nm, 1):
                    return v[2]
                return None

            ind = {}
            for l in steps:
                ds = set(delta(st, l) for (st, n_, s_) in paths)
                ind[l] = ds.pop() if len(ds) == 1 else ('varies', sorted(map(str, ds)))
            # per path: a path that copies a byte advances the cursors its addresses are computed from by exactly one
            cursors = set()
            for (st, ncopy, sites) in paths:
                if ncopy > 1:
                    bad.append(('multi-copy', '%d byte stores on one path through the body' % ncopy))
                    continue
                for (nid_, (c, l, src)) in sites:
                    for (what, e) in (('target', l), ('source', src)):
                        deps = set()
                        for r in walk(e):
                            lo = loc_of(r) if r.k in ('ref', 'mem') else None
                            if lo is not None:
                                deps.add(lo[:2])
                        cursors |= deps
                        ds = dict((d, delta(st, d)) for d in deps)
                        if not any(v in (1, -1) for v in ds.values()):
                            bad.append(('fixed-%s' % what, 'on a path that copies a byte the %s address %s does not depend on any variable that '
                                                           'advances by one: every byte goes to / comes from the same place' % (what, show(e))))
                        for d, v in ds.items():
                            if v is not None and abs(v) > 1:
                                nm = names.get(d[1], '?') if d[0] == 'v' else d[1]
                                bad.append(('step:%s' % nm, 'the cursor `%s` changes by %+d on a path that copies one byte' % (nm, v)))
            # (a) target and source walk in the same direction on every path that copies a byte
            for (st, ncopy, sites) in paths:
                if ncopy != 1:
                    continue
                dirs = {}
                for (nid_, (c, l, src)) in sites:
                    for (what, e) in (('target', l), ('source', src)):
                        for r in walk(e):
                            lo = loc_of(r) if r.k in ('ref', 'mem') else None
                            if lo is not None and delta(st, lo[:2]) in (1, -1):
                                dirs.setdefault(what, set()).add(delta(st, lo[:2]))
                if len(dirs.get('target', ())) == 1 and len(dirs.get('source', ())) == 1 and dirs['target'] != dirs['source']:
                    bad.append(('opposite-directions', 'the target address walks %s while the source address walks %s: the bytes arrive in '
                                                       'reverse order' % ('up' if 1 in dirs['target'] else 'down', 'up' if 1 in dirs['source'] else 'down')))
            # (b) progress: the variable the loop condition tests moves towards the exit
            for cn in lp.cond_nodes:
                cx = strip(g.nodes[cn].x)
                if cx is None or cx.k != 'bin' or cx.op not in ('>', '<', '!=', '<=', '>='):
                    continue
                a_, b_ = strip(cx.kids[0]), strip(cx.kids[1])
                la_, lb_ = loc_of(a_), loc_of(b_)
                ka_ = ind.get(la_[:2]) if la_ is not None else None
                kb_ = ind.get(lb_[:2]) if lb_ is not None else None
                want = None
                if isinstance(ka_, int) and ka_ != 0 and (kb_ in (None, 0) or lb_ is None):
                    want = {'>': -1, '>=': -1, '<': 1, '<=': 1}.get(cx.op)
                    if cx.op == '!=' and b_.k == 'int' and b_.val == 0:
                        want = -1
                    got, nm_ = ka_, (names.get(la_[1], '?') if la_[0] == 'v' else la_[1])
                elif isinstance(kb_, int) and kb_ != 0 and (ka_ in (None, 0) or la_ is None):
                    want = {'>': 1, '>=': 1, '<': -1, '<=': -1}.get(cx.op)
                    got, nm_ = kb_, (names.get(lb_[1], '?') if lb_[0] == 'v' else lb_[1])
                if want is not None and (got > 0) != (want > 0):
                    bad.append(('no-progress:%s' % nm_, 'the loop runs while %s but `%s` moves by %+d per iteration, away from the exit: the copy '
                                                        'runs over the end of both buffers' % (show(cx), nm_, got)))
            guarded = []
            for l, k in sorted(ind.items(), key=str):
                nm = names.get(l[1], '?') if l[0] == 'v' else l[1]
                if isinstance(k, tuple):
                    if set(k[1]) <= set(['0', '1', '-1']) and not (set(k[1]) >= set(['1', '-1'])):
                        guarded.append(nm)        # guarded / saturating counter, or a cursor that rests on the padding path
                    elif l not in cursors or 'None' not in k[1]:
                        bad.append(('uneven:%s' % nm, '`%s` changes by %s on different paths through the body' % (nm, k[1])))
                elif k not in (None, 0) and abs(k) != per_iter:
                    bad.append(('step:%s' % nm, '`%s` changes by %+d per iteration while %d byte is copied per iteration' % (nm, k, per_iter)))
            desc = ', '.join('%s%+d' % ((names.get(l[1], '?') if l[0] == 'v' else l[1]), k) for l, k in sorted(ind.items(), key=str)
                             if isinstance(k, int) and k)
            if guarded:
                desc += ' (guarded counters: %s)' % ', '.join(guarded)
            if not bad:
                ctx.ob(props, RULE1, fname, site0, 'induction variables in lockstep: %s' % desc)
            seen = set()
            for (key, msg) in bad:
                if key in seen:
                    continue
                seen.add(key)
                ctx.ob(props, RULE1, fname, site0 + ' / ' + key, None)
                ctx.find(props, RULE1, fname, key, m.loc(fname, lp.line), '%s, copy loop at line %d: %s' % (fname, lp.line, msg))
    ctx.inst('RF17.copy-loops', n_loops)
    ctx.inst('RF17.copy-loops-skipped', n_skipped)
    ctx.require_min(P_GENERIC, RULE1, n_loops, minimum, 'byte-copy loops analysed')


# ------------------------------------------------------------------ whole-function affine post-state (streaming accessors)
def trip_count(g, lp, ind, ev, st, names):
    """affine form of the number of iterations, or a fresh atom"""
    fresh = atom('N%d' % lp.line)
    if len(lp.cond_nodes) != 1:
        return fresh, False
    c = strip(g.nodes[lp.cond_nodes[0]].x)
    if c is None or c.k != 'bin' or c.op not in SIGNS:
        return fresh, False
    a, b = strip(c.kids[0]), strip(c.kids[1])
    la, lb = loc_of(a), loc_of(b)
    ka = ind.get(la[:2], 0) if la is not None else 0
    kb = ind.get(lb[:2], 0) if lb is not None else 0
    va, vb = ev.ev(a, st), ev.ev(b, st)
    if not (is_lin(va) and is_lin(vb)):
        return fresh, False
    # counter > 0 / counter != 0 with the counter going down by one
    if c.op in ('>', '!=') and ka == -1 and kb == 0 and vb == lin({}, 0):
        return va, True
    if c.op in ('<', '!=') and kb == -1 and ka == 0 and va == lin({}, 0):
        return vb, True
    # i < bound with i going up by one and the bound fixed
    if c.op in ('<', '!=') and ka == 1 and kb == 0:
        return ladd(vb, va, -1), True
    if c.op in ('>', '!=') and kb == 1 and ka == 0:
        return ladd(va, vb, -1), True
    return fresh, False


def _names_of(m, fname):
    g = m.cfg(fname)
    names = {}
    for nd in g.nodes:
        if nd.x is not None:
            for c in walk(nd.x):
                if c.k in ('ref', 'var') and c.ref is not None:
                    names[c.ref] = c.name
    for prm in m.funcs[fname].params:
        names[prm[3]] = prm[0]
    return names


def _rename_atoms(v, old, new):
    """rename entry atoms `@old->...` / `@old....` to `@new...` in an affine form"""
    if not is_lin(v):
        return v
    d = {}
    for (a_, k) in v[1]:
        if a_.startswith('@' + old + '->') or a_.startswith('@' + old + '.') or a_ == '@' + old:
            a_ = '@' + new + a_[1 + len(old):]
        d[a_] = d.get(a_, 0) + k
    return lin(d, v[2])


def _helper_call(m, x):
    """(call node, target lvalue or None) when statement x is `H(...)`, `lhs = H(...)` or `T v = H(...)` with H a helper the
    rule tables do not know (extracted from a known function): its body is part of the caller's behaviour"""
    from canalyze.ir import callee_name
    c = None
    tgt = None
    x0 = x
    if x0.k == 'decl' and len(x0.kids) == 1:
        x0 = x0.kids[0]
    if x0.k == 'call':
        c = x0
    elif x0.k == 'bin' and x0.op == '=' and strip(x0.kids[1]) is not None and strip(x0.kids[1]).k == 'call':
        c, tgt = strip(x0.kids[1]), x0.kids[0]
    elif x0.k == 'var' and x0.kids and strip(x0.kids[0]) is not None and strip(x0.kids[0]).k == 'call':
        c, tgt = strip(x0.kids[0]), x0
    elif x0.k == 'cast' and strip(x0) is not None and strip(x0).k == 'call':
        c = strip(x0)
    if c is None:
        return None
    nm = callee_name(c)
    if nm is None or not m.is_new_helper(nm):
        return None
    return c, tgt, nm


def affine_paths(m, fname, lossless=False, preserve=(), stop_at_unsummarised=False):
    """evaluate the whole function to affine post-states: [(final state, bytes moved, #copy loops, return line, call events)],
    the Eval used (for entry-atom names) and the name map.  Loops are summarised by their induction variables; calls to
    helpers the rule tables do not know are evaluated through their bodies."""
    ev = Eval('@', model=m, lossless_casts=lossless)
    ev.preserve = tuple(preserve)
    budget = [0]

    def run_fn(fn_name, st0, moved0, nloops0, events0, depth):
        g = m.cfg(fn_name)
        names = _names_of(m, fn_name)
        loops = {}
        for lp in g.loops:
            if is_fake(g, lp):
                continue
            loops[lp.head] = (lp, analyse_loop(m, fn_name, g, lp))
        finals = []
        seen = set()
        work = [(g.entry.id, st0, moved0, nloops0, events0)]
        while work:
            nid, st, moved, nloops, events = work.pop()
            key = (nid, frozenset(st.items()), moved, nloops, events)
            if key in seen:
                continue
            seen.add(key)
            budget[0] += 1
            if budget[0] > 80000:
                raise AnalysisBroken('RF17: path explosion in %s' % fname)
            node = g.nodes[nid]
            if node.kind in ('ret', 'exit'):
                rv = None
                if node.kind == 'ret' and node.x is not None and node.x.kids:
                    rv = ev.ev(node.x.kids[0], st)
                finals.append((st, moved, nloops, node.line, events, rv))
                continue
            if nid in loops:
                lp, res = loops[nid]
                st = dict(st)
                if 'skip' in res:
                    if stop_at_unsummarised:
                        # the caller only needs what happens up to here (call events): end the path at the loop
                        finals.append((st, moved, nloops, lp.line, events, None))
                        continue
                    raise AnalysisBroken('RF17: loop at line %d of %s cannot be summarised (%s)' % (lp.line, fn_name, res['skip']))
                ind = {}
                for l, vals in res['steps'].items():
                    nm = names.get(l[1], '?') if l[0] == 'v' else l[1]
                    ks = set()
                    for v in vals:
                        ks.add(0 if v == 0 else (v[2] if (v != 'irregular' and v[1] == '@' + nm) else 'x'))
                    ind[l] = ks.pop() if (len(ks) == 1 and 'x' not in ks) else None
                N, exact = trip_count(g, lp, ind, ev, st, names)
                copies = set(c for (s_, c, z) in res['paths'])
                # same-buffer moves: distance between target and source address at loop entry, and the direction of the walk
                for (s_, c_, sites_) in res['paths']:
                    for (nid_, (cx_, l_, src_)) in sites_:
                        def addr_(e):
                            e = strip(e)
                            if e.k == 'un' and e.op == '*':
                                return ev.ev(e.kids[0], st), e.kids[0]
                            if e.k == 'idx':
                                return ladd(ev.ev(e.kids[0], st), ev.ev(e.kids[1], st)), e
                            return TOP, e
                        (da, de), (sa, se) = addr_(l_), addr_(src_)
                        dirs = set()
                        for e_ in (de, se):
                            for r_ in walk(e_):
                                lo_ = loc_of(r_) if r_.k in ('ref', 'mem') else None
                                if lo_ is not None and ind.get(lo_[:2]) in (1, -1):
                                    dirs.add(ind[lo_[:2]])
                        ev.starts.append((fn_name, lp.line, da, sa))
                        if is_lin(da) and is_lin(sa) and len(dirs) == 1:
                            ev.overlaps.append((fn_name, lp.line, ladd(da, sa, -1), dirs.pop()))
                    break
                for l, k in ind.items():
                    if k is None:
                        st[l] = TOP
                    elif k:
                        cur = ev.read(st, l + ((names.get(l[1], '?'),) if l[0] == 'v' else ()))
                        st[l] = ladd(cur, lscale(N, k))
                if copies and 0 not in copies:
                    moved = ladd(moved, lscale(N, max(copies)))
                    nloops += 1
                elif copies - {0}:
                    moved = TOP
                for cn in lp.cond_nodes:
                    for (t, lab) in g.nodes[cn].succ:
                        if t not in lp.nodes:
                            work.append((t, dict(st), moved, nloops, events))
                continue
            st = dict(st)
            outs = None
            if node.kind == 'stmt' and node.x is not None:
                hc = _helper_call(m, node.x) if depth < 3 else None
                if hc is not None:
                    c, tgt, hname = hc
                    hfn = m.funcs[hname]
                    sub = dict(st)
                    ren = []          # (callee parameter name, caller variable name) for pointer arguments
                    for i, prm in enumerate(hfn.params):
                        a = c.kids[1 + i] if 1 + i < len(c.kids) else None
                        a0 = strip(a) if a is not None else None
                        if is_pointer(prm[2]):
                            if a0 is not None and a0.k == 'ref' and a0.refk in ('VarDecl', 'ParmVarDecl'):
                                if a0.name != prm[0]:
                                    ren.append((prm[0], a0.name))
                                sub[('v', prm[3])] = ev.ev(a, st)
                            else:
                                raise AnalysisBroken('RF17: helper %s receives the pointer expression %s (line %d of %s): not modelled' % (
                                    hname, show(a) if a is not None else '?', node.line, fn_name))
                        else:
                            sub[('v', prm[3])] = ev.ev(a, st) if a is not None else TOP
                    if ren:
                        s2 = {}
                        for k_, v_ in sub.items():
                            if k_[0] == 'm':
                                for (pn, vn) in ren:
                                    if k_[1].startswith(vn + '->') or k_[1].startswith(vn + '.'):
                                        ev.fields[pn + k_[1][len(vn):]] = ev.fields.get(k_[1])
                                        k_ = ('m', pn + k_[1][len(vn):])
                            for (pn, vn) in ren:
                                v_ = _rename_atoms(v_, vn, pn)
                            s2[k_] = v_
                        sub = s2
                    outs = []
                    for (fs, mv, nl, ln, evs, rv) in run_fn(hname, sub, moved, nloops, events, depth + 1):
                        back = {}
                        for k_, v_ in fs.items():
                            if k_[0] == 'm':
                                for (pn, vn) in ren:
                                    if k_[1].startswith(pn + '->') or k_[1].startswith(pn + '.'):
                                        ev.fields[vn + k_[1][len(pn):]] = ev.fields.get(k_[1])
                                        k_ = ('m', vn + k_[1][len(pn):])
                            for (pn, vn) in ren:
                                v_ = _rename_atoms(v_, pn, vn)
                            back[k_] = v_
                        if tgt is not None:
                            if tgt.k == 'var':
                                back[('v', tgt.ref)] = rv if rv is not None else TOP
                            else:
                                l = loc_of(tgt)
                                if l is not None:
                                    back[l[:2]] = rv if rv is not None else TOP
                        outs.append((back, mv, nl, evs))
                else:
                    ev.events = []
                    ev.assign(node.x, st)
                    if ev.events:
                        events = events + tuple(ev.events)
                    ev.events = None
            if outs is None:
                outs = [(st, moved, nloops, events)]
            decided = None
            if node.kind == 'br' and node.x is not None:
                bx = strip(node.x)
                if bx.k == 'bin' and bx.op in SIGNS:
                    va_, vb_ = ev.ev(bx.kids[0], st), ev.ev(bx.kids[1], st)
                    if is_lin(va_) and is_lin(vb_) and not va_[1] and not vb_[1]:
                        d_ = va_[2] - vb_[2]
                        decided = {'>': d_ > 0, '>=': d_ >= 0, '==': d_ == 0, '!=': d_ != 0, '<=': d_ <= 0, '<': d_ < 0}[bx.op]
            for (st_, mv_, nl_, evs_) in outs:
                for (t, lab) in node.succ:
                    if node.kind == 'br' and node.x is not None and strip(node.x).k == 'int' and lab in (True, False) \
                            and lab != bool(strip(node.x).val):
                        continue
                    if decided is not None and lab in (True, False) and lab != decided:
                        continue              # a comparison of two constants: only one edge is feasible
                    work.append((t, st_, mv_, nl_, evs_))
        return finals

    fin = run_fn(fname, {}, lin({}, 0), 0, (), 0)
    return [(st, mv, nl, ln, evs) for (st, mv, nl, ln, evs, rv) in fin], ev, _names_of(m, fname)


def position(ctx, table=None, minimum=4):
    m = ctx.m
    n = 0
    table = table or STREAM
    for fname in sorted(table):
        fld = table[fname]
        m.need(fname)
        # C01: a position that runs past the end makes `Size - Offset` wrap and the next access writes behind the storage
        props = ['C06', 'C02', 'C03', 'C01']
        g = m.cfg(fname)
        finals, ev, names = affine_paths(m, fname)
        posloc = None
        for nd in g.nodes:
            if nd.x is None:
                continue
            for c in walk(nd.x):
                if c.k == 'mem' and c.field == fld:
                    posloc = loc_of(c)
        if posloc is None:
            ctx.broke(props, 'RF17: %s does not access its position field %s.%s' % (fname, fld[0], fld[1]))
            continue
        # the object-side cursor starts at  Start + position  (the other side is the caller's buffer)
        startloc = None
        for nd in g.nodes:
            if nd.x is None:
                continue
            for c in walk(nd.x):
                if c.k == 'mem' and c.field == (fld[0], 'Start') and loc_of(c) is not None:
                    startloc = loc_of(c)
        if startloc is not None and ev.starts:
            want = ladd(atom('@' + startloc[1]), atom('@' + posloc[1]))
            okstart = any(da == want or sa == want for (fn_, ln_, da, sa) in ev.starts)
            site = '%s: the copy starts at Start + position on the object side' % fname
            if okstart:
                ctx.ob(props, RULE2, fname, site, 'one cursor starts at %s' % _show(want))
            else:
                ctx.ob(props, RULE2, fname, site, None)
                ctx.find(props, RULE2, fname, 'start-address', m.loc(fname, m.funcs[fname].line),
                         '%s: neither cursor of the copy starts at %s (they start at %s): the access does not continue where the '
                         'previous one ended' % (fname, _show(want), ', '.join(sorted(set('%s / %s' % (_show(da), _show(sa)) for (f_, l_, da, sa) in ev.starts)))))
        outcomes = {}
        for (st, moved, nloops, line, events) in finals:
            v = st.get(posloc[:2])
            adv = lin({}, 0) if v is None else (ladd(v, atom('@' + posloc[1]), -1) if is_lin(v) else TOP)
            key = ('copied' if nloops else 'nothing copied')
            ok = (adv != TOP and moved != TOP and adv == moved)
            outcomes.setdefault((key, ok, _show(adv), _show(moved)), line)
        for (key, ok, adv, moved), line in sorted(outcomes.items(), key=str):
            n += 1
            site = '%s: return at line %d (%s): position advances by %s, bytes moved %s' % (fname, line, key, adv, moved)
            if ok:
                ctx.ob(props, RULE2, fname, site, 'position advance == bytes moved')
            else:
                ctx.ob(props, RULE2, fname, site, None)
                ctx.find(props, RULE2, fname, 'position:%s' % key, m.loc(fname, line),
                         '%s: on a path to the return at line %d the position %s advances by %s while the copy loop moved %s bytes: '
                         'a continued access (segmented / block transfer of this object) then reads or writes the wrong bytes' % (
                             fname, line, posloc[1], adv, moved))
    ctx.inst('RF17.position-outcomes', n)
    ctx.require_min(['C06'], RULE2, n, minimum, 'return classes of the streaming accessors')


# ------------------------------------------------------------------ segment accounting of the SDO server
RULE3 = 'RF17-account'
# handler -> (object accessor whose length argument is checked, index of that argument, progress counter (record, field),
#             buffered-bytes field or None)
ACCOUNT = {
    'COSdoDownloadSegmented': ('COObjWrBufCont', 3, ('CO_SDO_SEG', 'Num'), ('CO_SDO_BUF', 'Num')),
    'COSdoUploadSegmented': ('COObjRdBufCont', 3, ('CO_SDO_SEG', 'Num'), None),
}


def account(ctx):
    """Segmented transfer, one frame: the number of bytes handed to / fetched from the object equals the number of bytes the
    copy loop moved between frame and buffer (plus what the buffer already held), and the transfer's progress counter
    Seg.Num advances by exactly that number - or is reset to 0 when the transfer closes.  Seg.Num is what the NEXT frame
    uses to compute how many bytes are still expected (`Seg.Size - Seg.Num`): a counter that lags lets the last segment
    write / send frame padding as data."""
    m = ctx.m
    n = 0
    for fname in sorted(ACCOUNT):
        acc, argi, prog, buffered = ACCOUNT[fname]
        m.need(fname)
        props = ['C02'] if 'Download' in fname else ['C03']
        finals, ev, names = affine_paths(m, fname, lossless=True, preserve=('CO_SDO_SEG', 'CO_SDO_BUF'))
        ctx.exception(RULE3, fname, 'assumptions: the object accessors called by the handler do not modify the server\'s CO_SDO_SEG / '
                                   'CO_SDO_BUF records (a transfer of more than 4 bytes never targets the SDO parameter objects); '
                                   'narrowing casts of byte counts are lossless (decided separately by RF7)')
        fn = m.funcs[fname]
        g = m.cfg(fname)
        progloc = bufloc = None
        for nd in g.nodes:
            if nd.x is None:
                continue
            for c in walk(nd.x):
                if c.k == 'mem' and c.field == prog:
                    progloc = loc_of(c)
                if buffered is not None and c.k == 'mem' and c.field == buffered:
                    bufloc = loc_of(c)
        if progloc is None:
            ctx.broke(props, 'RF17-account: %s does not access %s.%s' % (fname, prog[0], prog[1]))
            continue
        held = atom('@' + bufloc[1]) if bufloc is not None else lin({}, 0)
        outcomes = {}
        for (st, moved, nloops, line, events) in finals:
            calls = [e for e in events if e[0] == acc]
            if not nloops:
                # refusal before any byte is moved between frame and buffer (bad toggle, no transfer, failed accessor):
                # the progress counter is unchanged or the transfer is closed
                v = st.get(progloc[:2])
                ok = v is None or v == atom('@' + progloc[1]) or v == lin({}, 0)
                outcomes.setdefault(('refused', ok, 'progress %s' % ('unchanged' if v is None else _show(v)),
                                     '' if ok else 'no byte is moved but the progress counter %s becomes %s' % (progloc[1], _show(v))), line)
                continue
            total = ladd(held, moved) if (is_lin(held) and is_lin(moved)) else TOP
            okc = True
            why = ''
            for e in calls:
                a = e[1][argi] if len(e[1]) > argi else TOP
                if a == TOP or total == TOP or a != total:
                    okc = False
                    why = 'the object accessor %s is called with length %s while the frame carries %s bytes (plus %s already buffered)' % (
                        acc, _show(a), _show(moved), _show(held))
            if len(calls) != 1:
                okc = False
                why = why or '%d calls of %s on this path' % (len(calls), acc)
            v = st.get(progloc[:2])
            want = ladd(atom('@' + progloc[1]), total) if total != TOP else TOP
            okp = (v is not None and is_lin(v) and (v == lin({}, 0) or v == want))
            if not okp:
                why = (why + '; ' if why else '') + 'the progress counter %s ends at %s, required 0 (transfer closed) or %s' % (
                    progloc[1], 'its entry value' if v is None else _show(v), _show(want))
            outcomes.setdefault(('frame', okc and okp, 'moved %s' % _show(moved), why), line)
        for (key, ok, what, why), line in sorted(outcomes.items(), key=str):
            n += 1
            site = '%s: return at line %d (%s, %s)' % (fname, line, key, what)
            if ok:
                ctx.ob(props, RULE3, fname, site, 'accessor length == bytes moved, progress counter advances by it or is reset')
            else:
                ctx.ob(props, RULE3, fname, site, None)
                ctx.find(props, RULE3, fname, 'account:%s:%s' % (key, 'length' if 'is called with length' in why else ('calls' if ' calls of ' in why else 'progress')), m.loc(fname, line),
                         '%s, path to the return at line %d: %s' % (fname, line, why or what))
    ctx.inst('RF17.account-outcomes', n)
    ctx.require_min(['C02', 'C03'], RULE3, n, 4, 'return classes of the segmented transfer handlers')


RULE4 = 'RF17-refill'


def block_refill(ctx):
    """Block upload, one block: the transfer buffer holds exactly the block that is about to be sent.  When a block is
    (re)built, the bytes kept at the front of the buffer (the segments the client did not confirm, moved there by the copy
    loop) plus the bytes fetched from the object behind them add up to the block: 7 x segments.  Decided on affine forms:
    for every call of the object accessor in COSdoUploadBlock,  (buffer position handed over - Buf.Start) + length  is
    7 x Blk.SegNum or 7 x Blk.SegCnt (the block as it was sent), unless the length is what is left of the object
    (Blk.Size).  Fetching more skips object bytes for good (they were read but never sent), fetching less sends stale
    buffer contents: a go-back-N retransmission then delivers bytes that are not the object's."""
    m = ctx.m
    f = 'COSdoUploadBlock'
    acc = 'COObjRdBufCont'
    props = ['C03']
    m.need(f, acc)
    finals, ev, names = affine_paths(m, f, lossless=True, preserve=('CO_SDO_SEG', 'CO_SDO_BUF', 'CO_SDO_BLK'),
                                     stop_at_unsummarised=True)
    ctx.exception(RULE4, f, 'assumptions: the object accessor does not modify the server\'s Buf / Blk records; narrowing casts of '
                            'byte counts are lossless (RF7)')
    start = blk = None
    # the fill phase may live in a helper extracted from the function: look through the helpers the tables do not know
    for fn_name in reversed(m.helper_closure(f)):
        for c in walk(m.funcs[fn_name].body):
            if c.k == 'mem' and c.field == ('CO_SDO_BUF', 'Start') and loc_of(c) is not None:
                start = loc_of(c)
            if c.k == 'mem' and c.field in (('CO_SDO_BLK', 'SegNum'), ('CO_SDO_BLK', 'SegCnt'), ('CO_SDO_BLK', 'Size')) and loc_of(c) is not None:
                blk = blk or {}
                blk[c.field[1]] = loc_of(c)
    if start is None or not blk or len(blk) < 3:
        ctx.broke(props, 'RF17-refill: COSdoUploadBlock does not use Buf.Start / Blk.SegNum / Blk.SegCnt / Blk.Size')
        return
    a_start = atom('@' + start[1])
    allowed = [(lscale(atom('@' + blk['SegNum'][1]), 7), '7 x Blk.SegNum'), (lscale(atom('@' + blk['SegCnt'][1]), 7), '7 x Blk.SegCnt')]
    a_size = atom('@' + blk['Size'][1])
    seen = {}
    for (st, moved, nloops, line, events) in finals:
        for e in events:
            if e[0] != acc or len(e[1]) < 4:
                continue
            pos, length = e[1][2], e[1][3]
            off = ladd(pos, a_start, -1) if is_lin(pos) else TOP
            total = ladd(off, length) if (is_lin(off) and is_lin(length)) else TOP
            ok = (length == a_size) or any(total == a for (a, nm) in allowed)
            seen.setdefault((e[2], _show(off), _show(length), ok), total)
    n = 0
    for (line, off, length, ok), total in sorted(seen.items(), key=str):
        n += 1
        site = '%s: %s at buffer offset %s, length %s' % (m.loc(f, line), acc, off, length)
        if ok:
            ctx.ob(props, RULE4, f, site, 'kept + fetched == one block (or the rest of the object)')
        else:
            ctx.ob(props, RULE4, f, site, None)
            ctx.find(props, RULE4, f, 'refill:%s' % length.replace(' ', ''), m.loc(f, line),
                     '%s builds the next block with %s bytes kept at the front of the buffer and fetches %s more from the object: '
                     'together %s, required 7 x Blk.SegNum / 7 x Blk.SegCnt (one block) or Blk.Size (the rest of the object). After a '
                     'partially confirmed block the object is read ahead by the wrong amount: bytes are skipped or stale buffer contents '
                     'are sent' % (f, off, length, _show(total)))
    ctx.inst('RF17.refill-calls', n)
    ctx.require_min(props, RULE4, n, 3, 'object accessor calls in COSdoUploadBlock')


RULE5 = 'RF17-overlap'


def overlap_direction(ctx):
    """A copy loop that moves bytes WITHIN one buffer (target and source address differ by an amount that does not mention
    two different bases) must walk in the direction that does not overwrite bytes it still has to read: towards the front
    (target below source) ascending, towards the back descending - the memmove rule.  The distance is the affine
    difference of the two addresses at loop entry (all atoms are unsigned counts, so a form whose coefficients are all
    <= 0 is a move to the front), the direction the common step of the cursors."""
    m = ctx.m
    n = 0
    for fname in sorted(m.funcs):
        g = m.cfg(fname)
        if not any(not is_fake(g, lp) for lp in g.loops):
            continue
        has_copy = any(copy_stores(nd.x) for nd in g.nodes if nd.kind == 'stmt' and nd.x is not None)
        if not has_copy or m.is_new_helper(fname):
            continue
        try:
            finals, ev, names = affine_paths(m, fname, lossless=True, preserve=('CO_SDO_SEG', 'CO_SDO_BUF', 'CO_SDO_BLK'),
                                             stop_at_unsummarised=True)
        except AnalysisBroken:
            continue
        props = props_for(m, fname)
        seen = set()
        for (fn_name, line, d, k) in ev.overlaps:
            if not is_lin(d) or (not d[1] and d[2] == 0):
                continue
            # a difference with coefficients of both signs relates two different bases (object storage vs. caller buffer): not a
            # move within one buffer
            coeffs = [c_ for (a, c_) in d[1]] + ([d[2]] if d[2] else [])
            if all(c_ <= 0 for c_ in coeffs):
                want = 1
            elif all(c_ >= 0 for c_ in coeffs):
                want = -1
            else:
                continue
            key = (fn_name, line, _show(d), k)
            if key in seen:
                continue
            seen.add(key)
            n += 1
            site = '%s: move within one buffer by %s bytes, walking %s' % (m.loc(fn_name, line), _show(d), 'up' if k > 0 else 'down')
            if k == want:
                ctx.ob(props, RULE5, fname, site, 'direction does not overwrite unread bytes')
            else:
                ctx.ob(props, RULE5, fname, site, None)
                ctx.find(props, RULE5, fname, 'direction:%s' % _show(d).replace(' ', ''), m.loc(fn_name, line),
                         '%s: the copy loop at line %d moves bytes within one buffer (target - source = %s) but walks %s: when the two '
                         'ranges overlap, bytes are overwritten before they are read (the retransmitted segments carry wrong data)'
                         % (fname, line, _show(d), 'downwards' if k < 0 else 'upwards'))
    ctx.inst('RF17.overlap-moves', n)
    ctx.require_min(['C03'], RULE5, n, 1, 'moves within one buffer')


def _show(v):
    if v == TOP:
        return '<not expressible>'
    parts = []
    for (a, k) in v[1]:
        a = a.lstrip('@')
        parts.append(('+ ' if k > 0 else '- ') + (a if abs(k) == 1 else '%d*%s' % (abs(k), a)))
    if v[2] or not parts:
        parts.append('%+d' % v[2])
    s = ' '.join(parts)
    return s[2:] if s.startswith('+ ') else s


class _Probe(object):
    """throw-away context for the positive controls: collects findings without touching the real run"""

    def __init__(self, m):
        from canalyze import report
        self.c = report.Ctx(m)


def controls(ctx):
    from rules.rf16_delta import fixture_model
    from canalyze import report
    fm = fixture_model(ctx)
    global STREAM
    # lockstep control
    probe = report.Ctx(fm)
    lockstep(probe, minimum=0)
    keys = set((f.func, f.key) for f in probe.findings)
    want = ('CTL_CopyStep2', 'step:src')
    fired = want in keys
    ctx.controls.append({'rule': RULE1, 'fixture': 'fixtures/controls.c:CTL_CopyStep2', 'expected_finding': want[1], 'fired': fired})
    if not fired:
        ctx.broke(P_GENERIC, '%s: positive control CTL_CopyStep2 did not fire (got %s)' % (RULE1, sorted(keys)))
    # position control
    probe = report.Ctx(fm)
    position(probe, table={'CTL_DomainRead': ('CO_OBJ_DOM', 'Offset')}, minimum=0)
    keys = set((f.func, f.key) for f in probe.findings)
    want = ('CTL_DomainRead', 'position:copied')
    fired = want in keys
    ctx.controls.append({'rule': RULE2, 'fixture': 'fixtures/controls.c:CTL_DomainRead', 'expected_finding': want[1], 'fired': fired})
    if not fired:
        ctx.broke(['C06'], '%s: positive control CTL_DomainRead did not fire (got %s)' % (RULE2, sorted(keys)))


def run(ctx):
    controls(ctx)
    lockstep(ctx)
    position(ctx)
    account(ctx)
    if 'COSdoUploadBlock' in ctx.m.funcs:
        block_refill(ctx)
        overlap_direction(ctx)


# ------------------------------------------------------------------ thorough tier: mutation adequacy of RF17 (static)
MUT_FUNCS = ('COTDomainRead', 'COTDomainWrite', 'COTStringRead', 'COSdoDownloadSegmented', 'COSdoUploadSegmented', 'COSdoUploadBlock')
MUT_FIELDS = set([('CO_OBJ_DOM', 'Offset'), ('CO_OBJ_STR', 'Offset'), ('CO_SDO_SEG', 'Num'), ('CO_SDO_BUF', 'Num'), ('CO_SDO_BUF', 'Cur'),
                  ('CO_SDO_BLK', 'Size'), ('CO_SDO_BLK', 'Len')])


def _rf17_mutants(fn):
    from canalyze.front import X
    sites = []

    def parents(root):
        for n in walk(root):
            for i, k in enumerate(n.kids):
                if k is not None:
                    yield n, i, k
    for (par, i, n) in parents(fn.body):
        if n is None or n.mac is not None:
            continue          # expansions of the frame macros are not the function's own arithmetic
        if n.k == 'bin' and n.op in ('+', '-', '+=', '-=') and (int_type(n.cty) is not None or is_pointer(n.cty)):
            new = {'+': '-', '-': '+', '+=': '-=', '-=': '+='}[n.op]

            def ap(n=n, new=new):
                n.op = new

            def un(n=n, old=n.op):
                n.op = old
            sites.append(('line %d: `%s` with operator %s' % (n.line, show(n)[:60], new), ap, un))
        if n.k == 'un' and n.op in ('post++', 'post--', '++', '--'):
            new = n.op.replace('++', '~~').replace('--', '++').replace('~~', '--')

            def ap(n=n, new=new):
                n.op = new

            def un(n=n, old=n.op):
                n.op = old
            sites.append(('line %d: `%s` turned into %s' % (n.line, show(n)[:40], new), ap, un))
        if par.k == 'compound':
            tgt = None
            if n.k == 'bin' and n.op in ('=', '+=', '-='):
                l = strip(n.kids[0])
                if l.k == 'mem' and l.field in MUT_FIELDS:
                    tgt = l
            if n.k == 'un' and n.op in ('post++', 'post--', '++', '--'):
                l = strip(n.kids[0])
                if l.k == 'mem' and l.field in MUT_FIELDS or (l.k == 'ref' and is_pointer(l.cty)):
                    tgt = l
            if tgt is not None:
                def ap(par=par, i=i, line=n.line):
                    z = X('null')
                    z.line = line
                    par.kids[i] = z

                def un(par=par, i=i, old=n):
                    par.kids[i] = old
                sites.append(('line %d: statement `%s` deleted' % (n.line, show(n)[:60]), ap, un))
    return sites


def _rf17_findings(mm):
    from canalyze import report
    probe = report.Ctx(mm)
    lockstep(probe, minimum=0)
    position(probe, minimum=0)
    account(probe)
    block_refill(probe)
    overlap_direction(probe)
    return sorted(set('%s %s' % (f.rule, f.key) for f in probe.findings)), probe.broken


def mutation_adequacy(ctx):
    """First-order mutants (operator flipped, ++ for --, a store to a position / counter deleted) of the functions RF17 makes
    claims about are built on the AST and re-analysed; each must be reported by one of the RF17 rules or rejected as not
    analysable.  Mutants that survive are listed: equivalent for the byte accounting, or decided elsewhere (tables)."""
    from canalyze import model as modelmod
    base = ctx.m
    units = sorted(set(base.funcs[f].unit for f in MUT_FUNCS + ('COObjRdBufCont', 'COObjWrBufCont') if f in base.funcs))
    mm = modelmod.Model(defs=getattr(base, 'config', ()), units=units)
    base_findings, base_broken = _rf17_findings(mm)
    if base_findings or base_broken:
        raise AnalysisBroken('RF17 mutation analysis: the unmutated private model is not clean: %s %s' % (base_findings[:3], base_broken[:1]))
    table = []
    total = killed = 0
    for fname in MUT_FUNCS:
        if fname not in mm.funcs:
            continue
        fn = mm.funcs[fname]
        for (desc, ap, un) in _rf17_mutants(fn):
            ap()
            mm._cfg.pop(fname, None)
            try:
                fs, br = _rf17_findings(mm)
                verdict = ('reported: ' + '; '.join(fs[:2])) if fs else (('rejected (analysis-broken): ' + str(br[0][1])[:70]) if br else 'NOT reported')
            except AnalysisBroken as e:
                verdict = 'rejected (analysis-broken): %s' % str(e)[:70]
            except Exception as e:
                verdict = 'rejected (%s)' % type(e).__name__
            finally:
                un()
                mm._cfg.pop(fname, None)
            total += 1
            if not verdict.startswith('NOT'):
                killed += 1
            table.append({'function': fname, 'mutant': desc, 'verdict': verdict})
    for p_ in ('C02', 'C03', 'C06'):
        ctx.table(p_, 'RF17 first-order mutants of the streaming accessors and segmented / block handlers', table)
    ctx.inst('RF17.mutants', total)
    ctx.inst('RF17.mutants-reported', killed)
    ctx.ob(['C02', 'C03', 'C06'], 'RF17-mutants', '(six functions)', '%d first-order mutants' % total, '%d reported or rejected, %d listed as survivors' % (killed, total - killed))
    ctx.require_min(['C02', 'C03', 'C06'], 'RF17-mutants', total, 30, 'first-order mutants generated')
    ctx.require_min(['C02', 'C03', 'C06'], 'RF17-mutants', killed, max(1, total // 2), 'mutants reported (frozen floor: half)')
    return table


_run_rf17 = run


def run(ctx):
    _run_rf17(ctx)
    if getattr(ctx, 'tier', 'quick') == 'thorough' and not getattr(ctx.m, 'config', ()):
        mutation_adequacy(ctx)
