"""RF6 - every subscript of a constant-size array is proven in range by the interval pass.
Extensions: parameter intervals from in-tree call sites, pointer parameters that alias an
array member (inferred parameter aliases), configuration preconditions (frozen, documented)."""
import re
from canalyze.ir import walk, strip, const_eval, show, int_type, type_range, array_extent, callee_name
from canalyze.interval import Intervals, INF, hull
from canalyze.canon import Canon
from tables import api

# B.4 configuration preconditions: (function, variable) -> (lo, hi, reason)
PRECOND = {
    ('CONmtSetMode', 'mode'): (0, 4, 'API contract: CONmtSetMode is called with one of the five CO_MODE enumerators '
                                     '(in-tree callers pass constants; CO_MODE_NUM is a count, not a mode)'),
    ('COTPdoIdWrite', 'num'): (0, 3, 'co_cfg.h: the dictionary contains PDO communication records only for PDO numbers below '
                                     'CO_RPDO_N / CO_TPDO_N (both 4 in this configuration)'),
    ('COTPdoEventWrite', 'num'): (0, 3, 'co_cfg.h: the dictionary contains TPDO communication records only for numbers below CO_TPDO_N'),
    ('COTPdoGetMap', 'mapnum'): (0, 8, 'well-formed dictionary: number of mapped objects <= 8 (for SDO writes enforced by '
                                       'COTPdoNumWrite, checked under C14)'),
    ('CORPdoGetMap', 'mapnum'): (0, 8, 'well-formed dictionary: number of mapped objects <= 8 (for SDO writes enforced by '
                                       'COTPdoNumWrite, checked under C14)'),
}
# field invariants from documented configuration: (record, field) -> (lo, hi, reason)
FIELD_PRE = {
    ('CO_EMCY_TBL', 'Reg'): (0, 7, 'co_emcy.h: CO_EMCY_TBL.Reg is a bit number of the error register (0..7)'),
}
# attribution of array fields to properties (beyond C01 which owns all)
ARRAY_PROPS = {
    ('CO_RPDO', 'Map'): ['C13', 'C14'], ('CO_RPDO', 'Size'): ['C13', 'C14'],
    ('CO_TPDO', 'Map'): ['C12', 'C14'], ('CO_TPDO', 'Size'): ['C12', 'C14'],
    ('CO_SYNC', 'RPdo'): ['C13'], ('CO_SYNC', 'RFrm'): ['C13'],
    ('CO_SYNC', 'TPdo'): ['C12'], ('CO_SYNC', 'TNum'): ['C12'], ('CO_SYNC', 'TSync'): ['C12'],
    ('CO_EMCY', 'Err'): ['C15'], ('CO_EMCY', 'Cnt'): ['C15'], ('CO_EMCY_USR', 'Emcy'): ['C15'],
    ('CO_NODE', 'TPdo'): ['C12'], ('CO_NODE', 'RPdo'): ['C13'],
}
# fields used as loop bounds for subscripts: their invariant is the hull of everything ever stored
BOUND_FIELDS = [('CO_TPDO', 'ObjNum'), ('CO_RPDO', 'ObjNum')]
MIN_SITES = 250


def _config_preconds(m):
    """the PDO-number preconditions follow the configured number of PDOs (extent of CO_NODE.TPdo / RPdo)"""
    ext = {}
    for (fn_, ty, cty) in m.records.get('CO_NODE', ()):
        if fn_ in ('TPdo', 'RPdo'):
            ext[fn_] = array_extent(cty)
    hi = min(v for v in ext.values() if v) - 1 if ext else 3
    for k in (('COTPdoIdWrite', 'num'), ('COTPdoEventWrite', 'num')):
        lo, _, why = PRECOND[k]
        h = hi if k[0] == 'COTPdoIdWrite' else (ext.get('TPdo') or 4) - 1
        PRECOND[k] = (lo, h, why)


class Engine(object):
    def __init__(self, m):
        self.m = m
        _config_preconds(m)
        self.memo = {}
        self.rmemo = {}
        self.field_inv = dict((k, (v[0], v[1])) for k, v in FIELD_PRE.items())
        self.inprog = set()

    def param_iv(self, fname, depth=0):
        """{param index: interval} joined over all in-tree call sites (internal functions only)"""
        m = self.m
        fn = m.funcs[fname]
        if depth >= 12 or not api.is_internal(m, fname):
            return {}
        sites = m.callers.get(fname, [])
        out = {}
        first = True
        for (gname, call) in sites:
            if gname in self.inprog:
                return {}
            r = self.analyse(gname, depth + 1)
            nid = m.node_of(gname, call)
            st = r.IN.get(nid)
            if st is None:
                continue      # unreachable call site
            here = {}
            for i, a in enumerate(call.kids[1:]):
                if i < len(fn.params) and int_type(fn.params[i][2]) is not None:
                    iv = r.ev(a, st, nid)
                    if iv is not None:
                        here[i] = iv
            if first:
                out = here
                first = False
            else:
                out = dict((i, hull(out[i], here[i])) for i in out if i in here)
        return out

    def site_contexts(self, fname):
        """one parameter-interval map per in-tree call site (call-site sensitive refinement: a helper shared by
        the TX and the RX side is called with (number of that side, side constant); joining the sites loses
        the relation between the two arguments)"""
        m = self.m
        fn = m.funcs[fname]
        if not api.is_internal(m, fname):
            return None
        out = []
        for (gname, call) in m.callers.get(fname, []):
            r = self.analyse(gname)
            nid = m.node_of(gname, call)
            st = r.IN.get(nid) if nid is not None else None
            if st is None:
                continue
            here = {}
            for i, a in enumerate(call.kids[1:]):
                if i < len(fn.params) and int_type(fn.params[i][2]) is not None:
                    iv = r.ev(a, st, nid)
                    if iv is not None:
                        here[i] = iv
            out.append(('%s:%d' % (gname, call.line), here))
        return out or None

    def compute_field_invariants(self, ctx):
        m = self.m
        for rnd in range(2):
            inv = {}
            for fname, fn in m.funcs.items():
                hits = [n for n in walk(fn.body) if n.k == 'bin' and n.op.endswith('=') and n.op not in ('==', '!=', '<=', '>=')
                        and strip(n.kids[0]).k == 'mem' and strip(n.kids[0]).field in BOUND_FIELDS]
                if not hits:
                    continue
                r = self.analyse(fname)
                for n in hits:
                    fld = strip(n.kids[0]).field
                    nid = m.node_of(fname, n)
                    st = r.IN.get(nid)
                    if st is None:
                        continue
                    if n.op == '=':
                        iv = r.ev(n.kids[1], st, nid)
                    else:
                        iv = type_range(strip(n.kids[0]).cty)
                    tr = type_range(strip(n.kids[0]).cty)
                    if iv is None:
                        iv = tr
                    iv = (max(iv[0], tr[0]), min(iv[1], tr[1]))
                    inv[fld] = hull(inv[fld], iv) if fld in inv else iv
            changed = False
            for f in BOUND_FIELDS:
                if f in inv and self.field_inv.get(f) != inv[f]:
                    self.field_inv[f] = inv[f]
                    changed = True
            if not changed:
                break
            self.memo = {}
        for f in BOUND_FIELDS:
            if f in self.field_inv:
                ctx.table('C01', 'field invariant %s.%s' % f, list(self.field_inv[f]))

    def analyse(self, fname, depth=0):
        key = fname
        if key in self.memo:
            return self.memo[key]
        self.inprog.add(fname)
        try:
            piv = self.param_iv(fname, depth)
        finally:
            self.inprog.discard(fname)
        pre = dict((v, (lo, hi)) for (f, v), (lo, hi, why) in PRECOND.items() if f == fname)
        r = Intervals(self.m, fname, param_iv=piv, preconds=pre, field_inv=self.field_inv, call_iv=self.call_iv)
        self.memo[key] = r
        return r

    def call_iv(self, call, argivs):
        """result interval of a direct call to a helper the rule tables do not know (tables/known_funcs.py):
        the helper is analysed with the argument intervals of this call site"""
        m = self.m
        name = callee_name(call)
        if name is None or not m.is_new_helper(name):
            return None
        fn = m.funcs[name]
        if int_type(call.cty) is None:
            return None
        key = (name, tuple(argivs))
        if key in self.rmemo:
            return self.rmemo[key]
        self.rmemo[key] = None        # recursion guard
        piv = dict((i, iv) for i, iv in enumerate(argivs) if iv is not None)
        r = Intervals(m, name, param_iv=piv, preconds={}, field_inv=self.field_inv, call_iv=self.call_iv)
        out = None
        for node in r.g.nodes:
            if node.kind == 'ret' and node.x.kids and node.id in r.IN:
                iv = r.ev(node.x.kids[0], r.IN[node.id], node.id)
                if iv is None:
                    out = None
                    break
                out = iv if out is None else hull(out, iv)
        self.rmemo[key] = out
        return out


def _extent(m, cn, nid, base, fname):
    """(extent, array field identity or name) for the base of a subscript, or (None, why)"""
    b = strip(base)
    ext = array_extent(b.cty) if b.cty and '[' in b.cty and '(*' not in b.cty else None
    ident = None
    if b.k == 'mem':
        ident = b.field
    elif b.k == 'ref':
        ident = ('global', b.name)
    elif b.k == 'idx':
        ident = ('elem', show(b))
    if ext is not None:
        return ext, ident
    # pointer parameter aliasing an array member at every call site
    if b.k == 'ref' and b.refk == 'ParmVarDecl':
        al = cn.palias.get(b.ref)
        if al is not None and b.ref not in cn.assigned:
            fld = al[0].replace('->', '.').split('.')[-1]
            for rec, flds in m.records.items():
                for (fn_, ty, cty) in flds:
                    if fn_ == fld and array_extent(cty) is not None and cty.split('[')[0].strip().replace('struct ', '').rstrip('_T') \
                            in (b.cty or '').replace('struct ', ''):
                        return array_extent(cty), (rec, fld)
            for rec, flds in m.records.items():
                for (fn_, ty, cty) in flds:
                    if fn_ == fld and array_extent(cty) is not None:
                        return array_extent(cty), (rec, fld)
    return None, ident


def run(ctx):
    m = ctx.m
    eng = Engine(m)
    eng.compute_field_invariants(ctx)
    n_sites = 0
    n_nonlit = 0
    for (f, v), (lo, hi, why) in PRECOND.items():
        if f not in m.funcs:
            ctx.broke(['C01'], 'RF6: precondition table names function %s which no longer exists' % f)
    for fname in sorted(m.funcs):
        fn = m.funcs[fname]
        subs = [n for n in walk(fn.body) if n.k == 'idx']
        if not subs:
            continue
        g = m.cfg(fname)
        r = eng.analyse(fname)
        for n in subs:
            nid = m.node_of(fname, n)
            if nid is None or nid not in g.reachable:
                continue
            ext, ident = _extent(m, r.cn, nid, n.kids[0], fname)
            if ext is None:
                continue          # pointer with run-time extent: relational rules (RF6e) cover the named ones
            n_sites += 1
            props = ['C01'] + ARRAY_PROPS.get(ident, []) if isinstance(ident, tuple) else ['C01']
            st = r.IN.get(nid)
            iv = r.ev(n.kids[1], st, nid) if st is not None else None
            lit = const_eval(n.kids[1], m) is not None
            if not lit:
                n_nonlit += 1
            site = '%s: %s (extent %d)' % (m.loc(fname, n), show(n), ext)
            if st is None:
                continue
            if not (iv is not None and iv[0] >= 0 and iv[1] <= ext - 1):
                # retry per call site before reporting
                ctxs = eng.site_contexts(fname)
                if ctxs and len(ctxs) > 1:
                    worst = None
                    pre = dict((v, (lo, hi)) for (f, v), (lo, hi, why) in PRECOND.items() if f == fname)
                    for (where, piv) in ctxs:
                        rc = Intervals(m, fname, param_iv=piv, preconds=pre, field_inv=eng.field_inv, call_iv=eng.call_iv)
                        stc = rc.IN.get(nid)
                        if stc is None:
                            continue          # the subscript is unreachable in this context
                        ivc = rc.ev(n.kids[1], stc, nid)
                        if ivc is None or ivc[0] < 0 or ivc[1] > ext - 1:
                            worst = ivc or (None, None)
                            break
                    else:
                        iv = (0, ext - 1) if worst is None else iv
                        if worst is None:
                            ctx.ob(props, 'RF6', fname, site, 'in range in each of %d call-site contexts' % len(ctxs), nontrivial=True)
                            continue
            if iv is not None and iv[0] >= 0 and iv[1] <= ext - 1:
                used = [k for (ff, v) in PRECOND if ff == fname for k in [v]]
                ctx.ob(props, 'RF6', fname, site, 'index in [%s, %s]' % (iv[0], iv[1]), nontrivial=not lit)
            else:
                ctx.ob(props, 'RF6', fname, site, None)
                idn = ('%s.%s' % ident) if isinstance(ident, tuple) else str(ident)
                ctx.find(props, 'RF6', fname, 'index:%s[%s]' % (idn, show(strip(n.kids[1]))), m.loc(fname, n),
                         'subscript %s of an array with %d elements: the index is only known to lie in [%s, %s] '
                         '(loop bounds, guards, masks and type ranges considered)'
                         % (show(n), ext, iv[0] if iv else '?', iv[1] if iv else '?'))
    for (f, v), (lo, hi, why) in PRECOND.items():
        ctx.exception('RF6', '%s:%s' % (f, v), 'configuration precondition %s in [%d, %d]: %s' % (v, lo, hi, why))
    for k, (lo, hi, why) in FIELD_PRE.items():
        ctx.exception('RF6', '%s.%s' % k, 'configuration precondition in [%d, %d]: %s' % (lo, hi, why))
    ctx.inst('RF6.subscripts', n_sites)
    ctx.inst('RF6.subscripts.nonliteral', n_nonlit)
    ctx.require_min(['C01'], 'RF6', n_sites, MIN_SITES, 'constant-extent subscripts')
    return eng
