"""RF16 - expiry-time conservation of the delta list (C07; also C08, C10, C11 through the timer manager).

Abstract interpretation of COTmrInsert / COTmrRemove / COTmrService (and every helper they call) over a purpose-built
domain; nothing is executed and no solver is involved:

* shape: the pending list is seen through a window  p <- c -> c1 -> c2 -> (far)  around a cursor `c` (the list head, or -
  after the cursor-shift at a loop head - any later position), plus `new` (the head of the free list) and `X` (an event
  handed in by the caller whose position is not yet known; a pointer comparison that succeeds places it).  Every
  CO_TMR_TIME* variable holds one of these names or null; `Next` / `Delta` stores are kept as overrides on the window.
* values: integer expressions are AFFINE FORMS over the atoms  nu (the new interval), D (what COIfTimerDelay() returns:
  the time the head event still has to wait), Ac / Ap (the absolute expiry time of the cursor / its predecessor when the
  cursor is not the head), dc1 / dc2 (the stored deltas of the successors), dc (the stored - stale - delta of the head).
  The ghost function alpha (absolute expiry time) is defined by alpha(head) = D, alpha(next(n)) = alpha(n) + Delta(next(n)).
* branch conditions between affine forms are kept as sign facts (and prune contradictory paths);
* loops: at a loop head the window is shifted when the cursor has moved on (c1 becomes c; dc1 is rewritten as Ac - alpha(old
  c)); the set of abstract states per node is saturated - the domain is finite after the shift, so this is the fixpoint
  over ALL list lengths and cursor positions, not an enumeration of executions.

Obligations at every return:
  insert  - the event that receives the action expires at nu (alpha'(new) == nu, or nu == alpha(event) when the action joins
            a pending event), every pending event keeps its expiry time (alpha'(n) == alpha(n)), none is cut off, the new event
            sits between a predecessor with alpha <= nu and a successor with alpha >= nu, a refused insertion changes nothing,
            the free-list head advances iff an event was taken;
  remove  - the removed event is gone, every other event keeps its expiry time, the event is pushed on the free list;
  service - with the head elapsed (D == 0) the successor keeps its expiry time: the timer is loaded with its delta.
A value the domain cannot express (TOP) where an expiry time is needed is reported as a violation of the obligation
("cannot be shown"), a construct the interpreter does not model is ANALYSIS-BROKEN.
"""
from canalyze.ir import show, strip, callee_name, walk, int_type
from canalyze.front import AnalysisBroken

PROPS = ['C07', 'C08']
RULE = 'RF16-expiry'
TOP = ('top',)
OTHER = ('other',)
TMR = ('tmr',)
NULL = ('n', 'null')
LIMIT = 20000

TIME = 'CO_TMR_TIME'
F_NEXT = (TIME, 'Next')
F_DELTA = (TIME, 'Delta')
F_ACT = (TIME, 'Action')
F_ACTEND = (TIME, 'ActionEnd')


# ------------------------------------------------------------------ affine forms
def lin(terms=None, c=0):
    t = tuple(sorted((a, k) for a, k in (terms or {}).items() if k))
    return ('lin', t, c)


def atom(a):
    return lin({a: 1})


def is_lin(v):
    return isinstance(v, tuple) and v and v[0] == 'lin'


def ladd(a, b, sb=1):
    if not (is_lin(a) and is_lin(b)):
        return TOP
    d = dict(a[1])
    for (x, k) in b[1]:
        d[x] = d.get(x, 0) + sb * k
    return lin(d, a[2] + sb * b[2])


def lscale(a, k):
    if not is_lin(a):
        return TOP
    return lin(dict((x, c * k) for (x, c) in a[1]), a[2] * k)


def lsubst(v, sub):
    """substitute atoms by affine forms (or TOP) in an affine form"""
    if not is_lin(v):
        return v
    acc = lin({}, v[2])
    for (x, k) in v[1]:
        r = sub.get(x, None)
        if r is None:
            r = atom(x)
        if r == TOP:
            return TOP
        acc = ladd(acc, lscale(r, k))
    return acc


def lshow(v):
    if v == TOP:
        return '<not expressible>'
    if not is_lin(v):
        return str(v)
    names = {'nu': 'dTnew', 'D': 'delay', 'Ac': 'alpha(c)', 'Ap': 'alpha(pred)', 'dc': 'Delta(head)', 'dc1': 'Delta(next)',
             'dc2': 'Delta(next.next)', 'dX': 'Delta(x)'}
    parts = []
    for (x, k) in v[1]:
        n = names.get(x, x)
        if k == 1:
            parts.append('+ ' + n)
        elif k == -1:
            parts.append('- ' + n)
        else:
            parts.append('%+d*%s' % (k, n))
    if v[2] or not parts:
        parts.append('%+d' % v[2])
    s = ' '.join(parts)
    return s[2:] if s.startswith('+ ') else s


SIGNS = {'>': frozenset('+'), '>=': frozenset('+0'), '==': frozenset('0'), '<=': frozenset('-0'), '<': frozenset('-'),
         '!=': frozenset('+-')}
NEG = {'>': '<=', '>=': '<', '==': '!=', '!=': '==', '<=': '>', '<': '>='}
FLIP = {'+': '-', '-': '+', '0': '0'}


def norm_fact(e):
    """(normalised form, flipped?) - the first atom gets a positive coefficient"""
    if not e[1]:
        return e, False
    if e[1][0][1] < 0:
        return lscale(e, -1), True
    return e, False


# ------------------------------------------------------------------ state
class St(object):
    """mutable working copy of an abstract state"""
    __slots__ = ('d',)

    def __init__(self, d):
        self.d = dict(d)

    def copy(self):
        return St(self.d)

    def freeze(self):
        return frozenset(self.d.items())

    def get(self, k, default=None):
        return self.d.get(k, default)

    def set(self, k, v):
        if v is None:
            self.d.pop(k, None)
        else:
            self.d[k] = v

    # ---- nodes
    def isnull(self, name):
        if name == 'null':
            return True
        return self.d.get(('null', name))

    def alpha(self, name):
        """absolute expiry time of a window node in the list AS IT WAS ON ENTRY"""
        a_c = atom('D') if self.d.get('chead') else atom('Ac')
        if self.d.get('D0') and self.d.get('chead'):
            a_c = lin({}, 0)
        if name == 'c':
            return a_c
        if name == 'c1':
            return ladd(a_c, atom('dc1'))
        if name == 'c2':
            return ladd(ladd(a_c, atom('dc1')), atom('dc2'))
        return TOP

    def default_field(self, name, field):
        if field == F_NEXT:
            return {'c': ('n', 'c1'), 'c1': ('n', 'c2'), 'c2': ('n', 'far'), 'new': ('n', 'free2'), 'X': ('n', 'far')}.get(name, ('n', 'far'))
        if field == F_DELTA:
            if name == 'c':
                if self.d.get('chead'):
                    return atom('dc')
                ap = self.d.get('Apred')
                return ladd(atom('Ac'), ap, -1) if ap is not None else TOP
            return {'c1': atom('dc1'), 'c2': atom('dc2'), 'X': atom('dX')}.get(name, TOP)
        return OTHER

    def load(self, name, field):
        v = self.d.get(('H', name, field))
        if v is not None:
            return v
        return self.default_field(name, field)

    # ---- facts
    def add_fact(self, e, rel):
        """e rel 0 ; returns False when the path becomes contradictory"""
        if not is_lin(e):
            return True
        if not e[1]:
            s = '+' if e[2] > 0 else ('-' if e[2] < 0 else '0')
            return s in SIGNS[rel]
        n, fl = norm_fact(e)
        signs = SIGNS[rel]
        if fl:
            signs = frozenset(FLIP[s] for s in signs)
        facts = dict(self.d.get('facts', ()))
        cur = facts.get(n, frozenset('+-0'))
        new = cur & signs
        if not new:
            return False
        facts[n] = new
        self.d['facts'] = frozenset(facts.items())
        return True

    def signs(self, e):
        if not is_lin(e):
            return frozenset('+-0')
        if not e[1]:
            return frozenset('+' if e[2] > 0 else ('-' if e[2] < 0 else '0'))
        n, fl = norm_fact(e)
        s = dict(self.d.get('facts', ())).get(n, frozenset('+-0'))
        if fl:
            s = frozenset(FLIP[x] for x in s)
        return s

    def rename_nodes(self, ren):
        nd = {}
        for k, v in self.d.items():
            if isinstance(k, tuple) and k[0] == 'H' and k[1] in ren:
                k = ('H', ren[k[1]], k[2])
            elif isinstance(k, tuple) and k[0] == 'null' and k[1] in ren:
                k = ('null', ren[k[1]])
            if isinstance(v, tuple) and len(v) == 2 and v[0] == 'n' and v[1] in ren:
                v = ('n', ren[v[1]])
            if k == ('H', 'far', F_NEXT) or k == ('null', 'far') or (isinstance(k, tuple) and k[0] == 'H' and k[1] == 'pp'):
                continue
            nd[k] = v
        self.d = nd

    def subst_atoms(self, sub):
        nd = {}
        for k, v in self.d.items():
            if k == 'facts':
                facts = {}
                for (e, s) in v:
                    e2 = lsubst(e, sub)
                    if e2 == TOP or not e2[1]:
                        continue
                    n, fl = norm_fact(e2)
                    if fl:
                        s = frozenset(FLIP[x] for x in s)
                    facts[n] = facts.get(n, frozenset('+-0')) & s
                nd[k] = frozenset(facts.items())
            elif is_lin(v):
                nd[k] = lsubst(v, sub)
            else:
                nd[k] = v
        self.d = nd


def refs_node(st, name, skip_T=True):
    for k, v in st.d.items():
        if isinstance(k, tuple) and k[0] in ('H', ) and k[1] == name:
            return True
        if isinstance(v, tuple) and len(v) == 2 and v[0] == 'n' and v[1] == name:
            if skip_T and isinstance(k, tuple) and k[0] == 'T':
                continue
            return True
    return False


def shift(st):
    """cursor shift at a loop head: if nothing names the cursor any more and something names its successor, the successor
    becomes the cursor.  alpha(new c) = alpha(old c) + dc1, so  dc1 := Ac' - alpha(old c)."""
    if refs_node(st, 'c') or not refs_node(st, 'c1'):
        return st
    if st.get('moved'):
        # the list was changed at the old cursor: do not slide the window over a modified region
        return st
    st = st.copy()
    old_alpha = st.alpha('c')                      # D (head) or Ac
    # atoms: old Ap is forgotten, old Ac becomes Ap, dc1 is expressed through the new Ac, dc2 becomes dc1
    sub = {'Ap': TOP, 'dc': TOP, 'dX': atom('dX')}
    st.subst_atoms(sub)
    st.subst_atoms({'Ac': atom('Ap')})
    old_alpha = lsubst(old_alpha, {'Ac': atom('Ap')})
    st.subst_atoms({'dc1': ladd(atom('Ac'), old_alpha, -1)})
    st.subst_atoms({'dc2': atom('dc1')})
    st.rename_nodes({'p': 'pp', 'c': 'p', 'c1': 'c', 'c2': 'c1'})
    st.set('chead', False)
    st.set('Apred', old_alpha)
    st.set('shifted', True)
    return st


# ------------------------------------------------------------------ interpreter
class Interp(object):
    def __init__(self, m, ctx, top):
        self.m = m
        self.ctx = ctx
        self.top = top
        self.nstates = 0
        self.inlined = set()

    # ---- expression evaluation (call-free part)
    def ev(self, x, st):
        x0 = x
        if x is None:
            return TOP
        k = x.k
        if k == 'int':
            return lin({}, x.val) if x.val is not None else TOP
        if k == 'cast':
            v = self.ev(x.kids[0], st)
            if is_lin(v):
                it = int_type(x.cty)
                src = int_type(x.kids[0].cty)
                if it is not None and src is not None and it[0] < src[0] and v[1]:
                    return TOP                     # narrowing of a symbolic time
                if it is None and v == lin({}, 0):
                    return NULL                    # (T*)0
            return v
        if k == 'ref':
            if x.refk == 'EnumConstantDecl' and x.val is not None:
                return lin({}, x.val)
            v = st.get(('v', x.ref))
            return v if v is not None else (OTHER if int_type(x.cty) is None else TOP)
        if k == 'mem':
            b = self.ev(x.kids[0], st) if x.arrow else OTHER
            if b == TMR and x.field and x.field[0] == 'CO_TMR':
                v = st.get(('T', x.field[1]))
                if v is not None:
                    return v
                return OTHER if int_type(x.cty) is None else TOP
            if isinstance(b, tuple) and b[0] == 'n':
                if b[1] == 'null':
                    raise _Infeasible()
                if x.field in (F_NEXT, F_DELTA):
                    return st.load(b[1], x.field)
                return OTHER
            return OTHER if int_type(x.cty) is None else TOP
        if k == 'bin':
            if x.op in ('+', '-'):
                a = self.ev(x.kids[0], st)
                b = self.ev(x.kids[1], st)
                return ladd(a, b, 1 if x.op == '+' else -1)
            if x.op == '*':
                a = self.ev(x.kids[0], st)
                b = self.ev(x.kids[1], st)
                if is_lin(a) and is_lin(b):
                    if not a[1]:
                        return lscale(b, a[2])
                    if not b[1]:
                        return lscale(a, b[2])
                return TOP
            return TOP
        if k == 'un':
            if x.op == '&':
                return OTHER
            if x.op == '-':
                return lscale(self.ev(x.kids[0], st), -1)
            return TOP
        if k == 'call':
            n = callee_name(x)
            if n == 'COIfTimerDelay':
                return st.get('delay')
            if n in PURE_OPAQUE:
                return TOP
            raise AnalysisBroken('RF16: call to %s in expression position in %s (line %d) is not modelled' % (n, self.top, x0.line))
        if k in ('sizeof',):
            return lin({}, x.val) if x.val is not None else TOP
        return TOP

    # ---- stores
    def store(self, lhs, val, st, line):
        l = strip(lhs)
        if l.k == 'ref':
            st.set(('v', l.ref), val)
            return
        if l.k == 'mem':
            b = self.ev(l.kids[0], st) if l.arrow else OTHER
            if b == TMR and l.field and l.field[0] == 'CO_TMR':
                st.set(('T', l.field[1]), val)
                if l.field[1] == 'Use':
                    st.set('use_stored', True)
                return
            if isinstance(b, tuple) and b[0] == 'n':
                if b[1] == 'null':
                    raise _Infeasible()
                if l.field in (F_NEXT, F_DELTA):
                    if b[1] in ('far', 'free2', 'pp', 'p'):
                        st.set('wild', 'line %d: %s' % (line, show(lhs)))
                        return
                    st.set(('H', b[1], l.field), val)
                    if b[1] in ('c', 'c1', 'c2'):
                        st.set('moved', True)
                    return
                if l.field == F_ACTEND:
                    st.set(('AE', b[1]), True)
                return
            if b == TOP and l.field in (F_NEXT, F_DELTA):
                st.set('wild', 'line %d: %s' % (line, show(lhs)))
            return
        if l.k in ('idx', 'un'):
            return
        raise AnalysisBroken('RF16: store target %s not modelled (line %d)' % (show(lhs), line))

    # ---- statements; returns list of states
    def call(self, c, st, line):
        """returns list of (state, value)"""
        n = callee_name(c)
        if n == 'COIfTimerDelay':
            return [(st, st.get('delay'))]
        if n == 'COIfTimerReload':
            v = self.ev(c.kids[2], st) if len(c.kids) > 2 else TOP
            st.set('R', v)
            st.set('delay', v)
            st.set('nreload', (st.get('nreload') or 0) + 1)
            return [(st, OTHER)]
        if n == 'COIfTimerStart':
            st.set('start', True)
            return [(st, OTHER)]
        if n == 'COIfTimerStop':
            st.set('stop', True)
            return [(st, OTHER)]
        if n == 'COIfTimerUpdate':
            return [(st, atom('upd'))]
        args = [self.ev(a, st) for a in c.kids[1:]]
        touches = any(a == TMR or (isinstance(a, tuple) and a[0] == 'n') for a in args)
        if n is None:
            if touches:
                raise AnalysisBroken('RF16: indirect call with a timer argument in %s (line %d)' % (self.top, line))
            return [(st, TOP)]
        fn = self.m.funcs.get(n)
        if fn is None or not touches:
            if touches and n not in EXTERN_OK:
                raise AnalysisBroken('RF16: external function %s receives a timer list pointer (line %d)' % (n, line))
            return [(st, OTHER if fn is None or int_type(fn.rty) is None else TOP)]
        # a helper that works on the list: interpret its body (bounded by the absence of recursion)
        if n in self.stack:
            raise AnalysisBroken('RF16: recursion through %s' % n)
        self.inlined.add(n)
        for (p, a) in zip(fn.params, args):
            st.set(('v', p[3]), a)
        return self.explore(n, st)

    def stmt(self, x, st):
        """interpret one CFG statement node; returns list of successor states"""
        line = x.line
        k = x.k
        if k in ('decl',):
            outs = [st]
            for v in x.kids:
                nxt = []
                for s in outs:
                    nxt.extend(self.stmt(v, s))
                outs = nxt
            return outs
        if k == 'var':
            if not x.kids:
                return [st]
            init = x.kids[0]
            c = strip(init)
            if c is not None and c.k == 'call':
                res = []
                for (s, v) in self.call(c, st, line):
                    s.set(('v', x.ref), v)
                    res.append(s)
                return res
            v = self.ev(init, st)
            if is_lin(v) and v == lin({}, 0) and int_type(x.cty) is None:
                v = NULL
            st.set(('v', x.ref), v)
            return [st]
        if k == 'bin' and x.op in ('=', '+=', '-='):
            rhs = x.kids[1]
            c = strip(rhs)
            vals = None
            if c is not None and c.k == 'call':
                vals = self.call(c, st, line)
            else:
                vals = [(st, self.ev(rhs, st))]
            res = []
            for (s, v) in vals:
                if x.op != '=':
                    old = self.ev(x.kids[0], s)
                    v = ladd(old, v, 1 if x.op == '+=' else -1)
                lt = x.kids[0].cty
                if is_lin(v) and v == lin({}, 0) and int_type(lt) is None:
                    v = NULL
                self.store(x.kids[0], v, s, line)
                res.append(s)
            return res
        if k == 'call':
            return [s for (s, v) in self.call(x, st, line)]
        if k == 'un' and x.op in ('post++', 'post--', '++', '--', 'pre++', 'pre--'):
            old = self.ev(x.kids[0], st)
            self.store(x.kids[0], ladd(old, lin({}, 1), -1 if '--' in x.op else 1), st, line)
            return [st]
        if k in ('null', 'cast', 'ref', 'int'):
            return [st]
        for c in walk(x):
            if c.k == 'call' or (c.k == 'bin' and c.op.endswith('=') and c.op not in ('==', '!=', '<=', '>=')):
                raise AnalysisBroken('RF16: statement %s in %s (line %d) is not modelled' % (show(x), self.top, line))
        return [st]

    # ---- branches
    def branch(self, x, st):
        """returns {True: state or None, False: state or None}"""
        x = strip(x)
        out = {}
        if x.k == 'bin' and x.op in SIGNS:
            a = self.ev(x.kids[0], st)
            b = self.ev(x.kids[1], st)
            pa = isinstance(a, tuple) and a[0] == 'n'
            pb = isinstance(b, tuple) and b[0] == 'n'
            if is_lin(a) and is_lin(b) and not pa and not pb and int_type(x.kids[0].cty) is not None:
                e = ladd(a, b, -1)
                for lab, rel in ((True, x.op), (False, NEG[x.op])):
                    s = st.copy()
                    out[lab] = s if s.add_fact(e, rel) else None
                return out
            if x.op in ('==', '!='):
                # pointer comparisons
                if (pa or a == lin({}, 0)) and (pb or b == lin({}, 0)):
                    na = a[1] if pa else 'null'
                    nb = b[1] if pb else 'null'
                    eq = self.ptr_eq(st, na, nb)
                    t_lab = (x.op == '==')
                    out[t_lab] = eq[0]
                    out[not t_lab] = eq[1]
                    return out
            return {True: st.copy(), False: st.copy()}
        if x.k in ('ref', 'mem'):
            v = self.ev(x, st)
            if isinstance(v, tuple) and v[0] == 'n':
                eq = self.ptr_eq(st, v[1], 'null')
                return {True: eq[1], False: eq[0]}
        return {True: st.copy(), False: st.copy()}

    def ptr_eq(self, st, a, b):
        """(state if equal or None, state if different or None)"""
        if a == b:
            if a in ('far', 'pp'):
                return (st.copy(), st.copy())
            return (st.copy(), None)
        if b == 'null' or a == 'null':
            n = a if b == 'null' else b
            k = st.isnull(n)
            if k is True:
                return (st.copy(), None)
            if k is False:
                return (None, st.copy())
            s1 = st.copy()
            s1.set(('null', n), True)
            s2 = st.copy()
            s2.set(('null', n), False)
            return (s1, s2)
        if 'X' in (a, b):
            o = b if a == 'X' else a
            if o in ('far', 'free2', 'pp', 'p', 'new'):
                return (st.copy(), st.copy()) if o in ('far', 'pp', 'p') else (None, st.copy())
            if st.isnull(o) is True:
                xs = st.isnull('X')
                return ((st.copy() if xs is not False else None), (st.copy() if xs is not True else None))
            s1 = st.copy()
            if st.isnull('X') is False:
                s1.set(('null', o), False)
            xn = s1.get(('null', 'X'))
            s1.rename_nodes({'X': o})
            if xn is not None and s1.get(('null', o)) is None:
                s1.set(('null', o), xn)
            s1.subst_atoms({'dX': s1.default_field(o, F_DELTA)})
            s1.set('Xis', o)
            return (s1, st.copy())
        if a in ('far', 'pp') or b in ('far', 'pp'):
            return (st.copy(), st.copy())
        return (None, st.copy())                   # two different window nodes

    # ---- CFG exploration with state saturation
    stack = ()

    def explore(self, fname, st0):
        g = self.m.cfg(fname)
        if g.unmodelled:
            raise AnalysisBroken('RF16: %s contains unmodelled control flow' % fname)
        heads = set(lp.head for lp in g.loops)
        self.stack = self.stack + (fname,)
        seen = set()
        work = [(g.entry.id, st0)]
        results = []
        while work:
            nid, st = work.pop()
            node = g.nodes[nid]
            if nid in heads:
                st = shift(st)
            key = (nid, st.freeze())
            if key in seen:
                continue
            seen.add(key)
            self.nstates += 1
            if self.nstates > LIMIT:
                raise AnalysisBroken('RF16: abstract state space of %s exceeds %d states' % (self.top, LIMIT))
            try:
                if node.kind in ('entry', 'join'):
                    outs = [(t, st.copy()) for (t, lab) in node.succ]
                elif node.kind == 'exit':
                    results.append((st, None))
                    continue
                elif node.kind == 'ret':
                    rx = node.x.kids[0] if (node.x is not None and node.x.kids) else None
                    c = strip(rx) if rx is not None else None
                    if c is not None and c.k == 'call':
                        for (s, v) in self.call(c, st.copy(), node.line):
                            results.append((s, v))
                    else:
                        results.append((st, self.ev(rx, st) if rx is not None else None))
                    continue
                elif node.kind == 'stmt':
                    outs = []
                    for s in self.stmt(node.x, st.copy()):
                        for (t, lab) in node.succ:
                            outs.append((t, s.copy() if len(node.succ) > 1 else s))
                elif node.kind == 'br':
                    br = self.branch(node.x, st)
                    outs = []
                    for (t, lab) in node.succ:
                        s = br.get(lab)
                        if s is not None:
                            outs.append((t, s))
                else:
                    raise AnalysisBroken('RF16: CFG node kind %s in %s not modelled' % (node.kind, fname))
            except _Infeasible:
                continue          # dereference of a pointer known to be null: RF5 territory, not a timing path
            work.extend(outs)
        self.stack = self.stack[:-1]
        return results


class _Infeasible(Exception):
    pass


PURE_OPAQUE = set()
EXTERN_OK = {'COTmrLock', 'COTmrUnlock', 'CONodeFatalError'}


# ------------------------------------------------------------------ final-state obligations
def walk_list(st):
    """[(node, alpha' or TOP)] of the pending list after the call, as far as the window reaches; tail marker"""
    if st.get('use_stored'):
        start = st.get(('T', 'Use'))
    else:
        start = ('n', 'c') if st.get('has_list') else NULL
    out = []
    if not (isinstance(start, tuple) and start[0] == 'n'):
        return None, 'the list head is %s' % (start,)
    n = start[1]
    if n == 'null' or st.isnull(n) is True:
        return [], 'end'
    if st.get('use_stored') or st.get('chead'):
        a = st.get('delay')                       # what the hardware timer counts down now
    else:
        a = atom('Ac')
    steps = 0
    while True:
        out.append((n, a))
        steps += 1
        nx = st.load(n, F_NEXT)
        if not (isinstance(nx, tuple) and nx[0] == 'n'):
            return out, 'unknown'
        m_ = nx[1]
        if m_ == 'null' or st.isnull(m_) is True:
            return out, 'end'
        if m_ in ('far', 'free2', 'pp', 'p') or steps > 6 or any(m_ == q for (q, _) in out):
            return out, m_
        d = st.load(m_, F_DELTA)
        a = ladd(a, d) if (is_lin(a) and is_lin(d)) else TOP
        n = m_


def expected_old(st, removed=None):
    seq = []
    if not st.get('has_list'):
        return seq
    for n in ('c', 'c1', 'c2'):
        if st.isnull(n) is True:
            break
        if n != removed:
            seq.append(n)
    return seq


def changed_anything(st):
    for k in st.d:
        if isinstance(k, tuple) and k[0] == 'H' and k[2] in (F_NEXT, F_DELTA):
            return 'a Next/Delta field of event %s is written' % k[1]
    if st.get('use_stored') and st.get(('T', 'Use')) != (('n', 'c') if st.get('has_list') else NULL):
        return 'the list head is changed'
    if st.get('R') is not None:
        return 'the hardware timer is reloaded'
    return None


def classify(st):
    w = 'cursor at the head' if st.get('chead') else 'cursor behind the head'
    if not st.get('has_list'):
        w = 'empty list'
    return w


def check_insert(ip, st, ret, bad):
    null_ret = (ret == NULL) or (isinstance(ret, tuple) and ret[0] == 'n' and st.isnull(ret[1]) is True)
    where = classify(st)
    if st.get('wild'):
        bad('wild-store', '%s: store to an event outside the analysed window (%s)' % (where, st.get('wild')))
        return 'wild'
    if null_ret:
        ch = changed_anything(st)
        if ch or st.get(('T', 'Free')) != ('n', 'new'):
            bad('refused-changes', '%s: the insertion is refused (no free event) but %s' % (where, ch or 'the free list head is changed'))
        return 'refused (%s): list, timer and free list unchanged' % where
    merged = [k[1] for k in st.d if isinstance(k, tuple) and k[0] == 'AE' and k[1] != 'new']
    seq, tail = walk_list(st)
    if seq is None:
        bad('head-lost', '%s: %s' % (where, tail))
        return 'head'
    if merged and not any(n == 'new' for (n, a) in seq):
        ev = merged[0]
        ch = changed_anything(st)
        if ch:
            bad('merge-changes', '%s: the action joins pending event %s but %s' % (where, ev, ch))
        if st.signs(ladd(atom('nu'), st.alpha(ev), -1)) != frozenset('0'):
            bad('merge-time', '%s: the action is appended to a pending event whose expiry time is not known to equal the new '
                'interval (alpha(event) = %s): it would run at the wrong time' % (where, lshow(st.alpha(ev))))
        if st.get(('T', 'Free')) != ('n', 'new'):
            bad('merge-free', '%s: the action joins a pending event but an event is taken from the free list' % where)
        return 'joins the pending event with alpha == dTnew (%s)' % where
    names = [n for (n, a) in seq]
    if names.count('new') != 1:
        bad('not-linked', '%s: success is reported but the new event is %s in the pending list (list after the call: %s)' % (
            where, 'not' if 'new' not in names else 'twice', names))
        return 'not linked'
    old = [n for n in names if n != 'new']
    exp = expected_old(st)
    if old != exp[:len(old)] or (len(old) < len(exp) and tail not in ('far',) and not (tail == 'end' and st.isnull(exp[len(old)]) is not False)):
        bad('cut-off', '%s: pending events are lost or reordered by the insertion: before %s, after %s (tail %s)' % (where, exp, names, tail))
    elif len(old) < len(exp) and tail == 'end' and st.isnull(exp[len(old)]) is None and st.get(('H', old[-1] if old else 'new', F_NEXT)) is not None and names[-1] == 'new' and exp[len(old)] != 'c1' :
        pass
    if not st.get('chead') and st.get('use_stored') and st.get('has_list'):
        bad('head-replaced', '%s: the list head is replaced while the insert position is behind the head: the events in front are cut off' % where)
    for (n, a) in seq:
        want = atom('nu') if n == 'new' else st.alpha(n)
        if a == TOP or want == TOP or a != want:
            if n == 'new':
                bad('new-expiry', '%s: the new event expires at %s, required dTnew (its Delta and position do not add up to the '
                    'requested interval)' % (where, lshow(a)))
            else:
                bad('shifted:%s' % n, '%s: pending event %s expired at %s before the insertion and expires at %s after it: every action '
                    'of that event and of all later events fires at the wrong time' % (where, n, lshow(want), lshow(a)))
    i = names.index('new')
    if i > 0 and seq[i - 1][0] in ('c', 'c1', 'c2'):
        s = st.signs(ladd(atom('nu'), st.alpha(seq[i - 1][0]), -1))
        if not s <= frozenset('+0'):
            bad('order-pred', '%s: the new event is linked behind an event that is not known to expire earlier (no comparison '
                'dTnew >= alpha(predecessor) on this path)' % where)
    if i + 1 < len(seq) and seq[i + 1][0] in ('c', 'c1', 'c2'):
        s = st.signs(ladd(atom('nu'), st.alpha(seq[i + 1][0]), -1))
        if not s <= frozenset('-0'):
            bad('order-succ', '%s: the new event is linked in front of an event that is not known to expire later' % where)
    if tail == 'free2':
        bad('free-tail', '%s: the pending list runs on into the free list behind the new event (its Next link still holds the free-list '
                         'successor): free events would be treated as pending' % where)
    if st.get(('T', 'Free')) != ('n', 'free2'):
        bad('free-head', '%s: an event is linked into the pending list but the free list head does not advance to its successor' % where)
    if i == 0:
        if st.get('R') is None:
            bad('no-reload', '%s: the new event becomes the head but the hardware timer is not loaded with its interval' % where)
        if not st.get('has_list') and not st.get('start'):
            bad('no-start', 'empty list: the first event is armed but the hardware timer is not started')
    return 'new event at position %d of %s: alpha(new) == dTnew, alpha of %s unchanged' % (i, names, old or 'no other event')


def check_remove(ip, st, ret, bad):
    where = classify(st)
    if st.get('wild'):
        bad('wild-store', '%s: store to an event outside the analysed window (%s)' % (where, st.get('wild')))
        return 'wild'
    xis = st.get('Xis')
    if xis is None:
        ch = changed_anything(st)
        if ch:
            bad('notfound-changes', '%s: the event was not found in the pending list but %s' % (where, ch))
        return 'event not in the pending list (%s): nothing changed' % where
    seq, tail = walk_list(st)
    if seq is None:
        bad('head-lost', '%s: %s' % (where, tail))
        return 'head'
    names = [n for (n, a) in seq]
    exp = expected_old(st, removed=xis)
    if xis in names:
        bad('still-linked', '%s: the removed event is still in the pending list (%s)' % (where, names))
    if names != exp[:len(names)] or (len(names) < len(exp) and tail != 'far' and not (tail == 'end' and st.isnull(exp[len(names)]) is not False)):
        bad('cut-off', '%s: pending events are lost or reordered by the removal of %s: expected %s, list after the call %s' % (where, xis, exp, names))
    for (n, a) in seq:
        want = st.alpha(n)
        if a == TOP or want == TOP or a != want:
            bad('shifted:%s' % n, '%s: pending event %s expired at %s before the removal of %s and expires at %s after it: every action '
                'of that event and of all later events fires at the wrong time' % (where, n, lshow(want), xis, lshow(a)))
    if st.get('chead') and xis == 'c':
        if not names and not st.get('stop'):
            bad('no-stop', 'the last pending event is removed but the hardware timer is not stopped')
        if names and st.get('R') is None:
            bad('no-reload', 'the head event is removed but the hardware timer is not loaded for the new head')
    if st.get(('T', 'Free')) != ('n', xis) or st.load(xis, F_NEXT) != ('n', 'new'):
        bad('not-freed', '%s: the removed event is not pushed on the free list (Free = %s, its Next = %s)' % (
            where, st.get(('T', 'Free')), st.load(xis, F_NEXT)))
    return 'event %s removed (%s): list after the call %s, alpha unchanged' % (xis, where, names or 'empty')


def check_service(ip, st, ret, bad):
    where = classify(st)
    if st.get('wild'):
        bad('wild-store', 'store to an event outside the analysed window (%s)' % st.get('wild'))
        return 'wild'
    moved = st.get('use_stored')
    if not moved:
        ch = changed_anything(st)
        if ch:
            bad('idle-changes', 'no event is taken from the pending list but %s' % ch)
        return 'nothing elapsed: list and timer unchanged'
    seq, tail = walk_list(st)
    if seq is None:
        bad('head-lost', tail)
        return 'head'
    names = [n for (n, a) in seq]
    exp = expected_old(st, removed='c')
    if names != exp[:len(names)] or 'c' in names:
        bad('cut-off', 'after the head event elapsed the pending list is %s, expected %s' % (names, exp))
    for (n, a) in seq:
        want = st.alpha(n)
        if a == TOP or want == TOP or a != want:
            bad('shifted:%s' % n, 'with the head elapsed (remaining time 0) event %s is due in %s but the timer / deltas give %s' % (
                n, lshow(want), lshow(a)))
    nx = st.load('c', F_NEXT)
    if isinstance(nx, tuple) and nx[0] == 'n' and nx[1] in ('c1', 'c2', 'far') and st.isnull(nx[1]) is not True:
        bad('elapsed-linked', 'the event moved to the elapsed list still links to the pending events behind it: they would be processed '
                              'as elapsed')
    if names and st.get('R') is None:
        bad('no-reload', 'the head event elapsed and another event is pending but the hardware timer is not loaded')
    if not names and not st.get('stop'):
        bad('no-stop', 'the last pending event elapsed but the hardware timer is not stopped')
    return 'head elapsed: successor list %s keeps its expiry times (timer loaded with the new head\'s delta)' % (names or 'empty')


def initial_states(m, fname, role):
    fn = m.funcs[fname]
    base = {}
    n_time = 0
    n_int = 0
    for p in fn.params:
        cty = p[2]
        if cty.replace(' ', '') in ('CO_TMR*', 'structCO_TMR_T*'):
            base[('v', p[3])] = TMR
        elif cty.replace(' ', '') in ('CO_TMR_TIME*', 'structCO_TMR_TIME_T*'):
            base[('v', p[3])] = ('n', 'X')
            n_time += 1
        elif int_type(cty) is not None:
            base[('v', p[3])] = atom('nu') if (role == 'insert' and n_int == 0) else TOP
            n_int += 1
        else:
            base[('v', p[3])] = OTHER
    if TMR not in base.values():
        raise AnalysisBroken('RF16: %s has no CO_TMR* parameter' % fname)
    if role == 'insert' and n_int != 1:
        raise AnalysisBroken('RF16: %s: expected exactly one integer parameter (the new interval)' % fname)
    if role == 'remove' and n_time != 1:
        raise AnalysisBroken('RF16: %s: expected exactly one CO_TMR_TIME* parameter' % fname)
    base[('T', 'Free')] = ('n', 'new')
    base['delay'] = lin({}, 0) if role == 'service' else atom('D')
    if role == 'service':
        base['D0'] = True
    outs = []
    e = dict(base)
    e[('T', 'Use')] = NULL
    outs.append(St(e))
    l = dict(base)
    l[('T', 'Use')] = ('n', 'c')
    l[('null', 'c')] = False
    l['chead'] = True
    l['has_list'] = True
    outs.append(St(l))
    return outs


def analyse_role(m, ctx, fname, role, checker):
    """{outcome description: [(key, message)]}, interpreter"""
    ip = Interp(m, ctx, fname)
    outcomes = {}
    nfinal = 0
    for st0 in initial_states(m, fname, role):
        for (st, ret) in ip.explore(fname, st0):
            nfinal += 1
            bads = []

            def bad(key, msg, bads=bads):
                bads.append((key, msg))
            desc = checker(ip, st, ret, bad)
            o = outcomes.setdefault(desc, [])
            for b in bads:
                if b not in o:
                    o.append(b)
    ip.nfinal = nfinal
    return outcomes, ip


def fixture_model(ctx):
    """the positive-control fixture (fixtures/controls.c) parsed on its own, with the configuration of this run"""
    fm = getattr(ctx, '_fixture_model', None)
    if fm is None:
        import os
        from canalyze import model as modelmod
        path = os.path.join(os.path.dirname(os.path.dirname(os.path.abspath(__file__))), 'fixtures', 'controls.c')
        fm = modelmod.Model(defs=getattr(ctx.m, 'config', ()), units=[], extra_files=[path])
        ctx._fixture_model = fm
    return fm


def controls(ctx):
    """positive controls: known-defective copies of the analysed functions must be reported on every run"""
    fm = fixture_model(ctx)
    for (fname, role, checker, want) in (('CTL_TmrInsert', 'insert', check_insert, 'shifted:c'),
                                          ('CTL_TmrRemove', 'remove', check_remove, 'shifted:c2')):
        outcomes, ip = analyse_role(fm, ctx, fname, role, checker)
        keys = set(k for bads in outcomes.values() for (k, msg) in bads)
        fired = want in keys
        ctx.controls.append({'rule': RULE, 'fixture': 'fixtures/controls.c:%s' % fname, 'expected_finding': want, 'fired': fired})
        if not fired:
            ctx.broke(PROPS, '%s: positive control %s did not fire (expected %s, got %s): the rule has lost its teeth' % (
                RULE, fname, want, sorted(keys)))


def run(ctx):
    m = ctx.m
    roles = (('COTmrInsert', 'insert', check_insert), ('COTmrRemove', 'remove', check_remove), ('COTmrService', 'service', check_service))
    m.need(*[r[0] for r in roles])
    controls(ctx)
    total = 0
    for (fname, role, checker) in roles:
        outcomes, ip = analyse_role(m, ctx, fname, role, checker)
        nfinal = ip.nfinal
        loc = m.loc(fname, m.funcs[fname].line)
        for desc, bads in sorted(outcomes.items()):
            total += 1
            if not bads:
                ctx.ob(PROPS, RULE, fname, desc, 'affine expiry-time forms agree on every abstract path')
            for (key, msg) in bads:
                ctx.ob(PROPS, RULE, fname, desc + ' / ' + key, None)
                ctx.find(PROPS, RULE, fname, key, loc, '%s: %s' % (fname, msg))
        ctx.inst('RF16.%s.final-states' % role, nfinal)
        ctx.inst('RF16.%s.abstract-states' % role, ip.nstates)
        ctx.inst('RF16.%s.outcome-classes' % role, len(outcomes))
        if ip.inlined:
            ctx.exception(RULE, fname, 'helpers interpreted inline: %s' % ', '.join(sorted(ip.inlined)))
        minimum = {'insert': 6, 'remove': 4, 'service': 3}[role]
        ctx.require_min(PROPS, RULE, len(outcomes), minimum, 'outcome classes of %s' % fname)
    ctx.inst('RF16.obligations', total)
    return total


# ------------------------------------------------------------------ further C07 clauses
def rearm_interval(ctx):
    """COTmrProcess re-arms a cyclic action with ITS OWN period: the interval handed to COTmrInsert is a read of
    CO_TMR_ACTION.CycleTicks of the very action that is handed over, on a path on which that period is known to be
    non-zero; the release to the pool happens only where it is known to be zero (one-shot)."""
    from canalyze import flow
    m = ctx.m
    f = 'COTmrProcess'
    m.need(f)
    props = ['C07', 'C08']
    rule = 'RF16-rearm'
    CYC = ('CO_TMR_ACTION', 'CycleTicks')
    g = m.cfg(f)
    facts = m.facts(f)
    defs = m.defs_of(f)
    n_calls = 0

    def cyc_fact(nid, ref):
        """True: period known non-zero, False: known zero, None: unknown"""
        for fa in (facts.get(nid) or ()):
            x = strip(fa.x)
            if x.k == 'bin' and x.op in ('==', '!=', '>'):
                a, b = strip(x.kids[0]), strip(x.kids[1])
                if a.k == 'mem' and a.field == CYC and strip(a.kids[0]).k == 'ref' and strip(a.kids[0]).ref == ref \
                        and b.k == 'int' and b.val == 0:
                    if x.op == '==':
                        return not fa.pol
                    return fa.pol if x.op == '!=' else (True if fa.pol else False)
            if x.k == 'mem' and x.field == CYC and strip(x.kids[0]).k == 'ref' and strip(x.kids[0]).ref == ref:
                return fa.pol
        return None

    for node in g.nodes:
        if node.x is None or node.id not in g.reachable:
            continue
        for c in walk(node.x):
            if c.k == 'call' and callee_name(c) == 'COTmrInsert' and len(c.kids) == 4:
                n_calls += 1
                iv = strip(defs.resolve(node.id, c.kids[2]))
                act = strip(c.kids[3])
                site = '%s: %s' % (m.loc(f, c), show(c))
                bad = None
                if not (iv is not None and iv.k == 'mem' and iv.field == CYC):
                    bad = 'the re-arm interval %s is not the action\'s period (CycleTicks)' % show(c.kids[2])
                elif not (act.k == 'ref' and strip(iv.kids[0]).k == 'ref' and strip(iv.kids[0]).ref == act.ref):
                    bad = 'the re-arm interval is the period of %s but the action handed over is %s' % (show(iv.kids[0]), show(act))
                elif cyc_fact(node.id, act.ref) is not True:
                    bad = 'the action is re-inserted on a path on which its period is not known to be non-zero (a one-shot action would be armed with interval 0)'
                if bad:
                    ctx.ob(props, rule, f, site, None)
                    ctx.find(props, rule, f, 'rearm-interval', m.loc(f, c), '%s: %s' % (f, bad))
                else:
                    ctx.ob(props, rule, f, site, 'interval == CycleTicks of the re-armed action, under CycleTicks != 0')
    ctx.inst('RF16.rearm-calls', n_calls)
    ctx.require_min(props, rule, n_calls, 1, 'COTmrInsert calls in COTmrProcess')


def _sym_paths(m, fname):
    """symbolic return expression and guards of every path of a loop-free, call-free function"""
    g = m.cfg(fname)
    if g.loops:
        raise AnalysisBroken('RF16: %s contains a loop (conversion functions are expected to be straight-line)' % fname)
    fn = m.funcs[fname]
    env0 = {}
    for p in fn.params:
        env0[p[3]] = ('p', p[0])

    def ev(x, env):
        if x is None:
            return ('?',)
        if x.k == 'int':
            return ('c', x.val)
        if x.k == 'cast':
            v = ev(x.kids[0], env)
            it, src = int_type(x.cty), int_type(x.kids[0].cty)
            if it is not None and src is not None and it[0] < src[0]:
                return ('narrow', it[0], v)
            return v
        if x.k == 'ref':
            return env.get(x.ref, ('?',))
        if x.k == 'mem':
            return ('f', x.field)
        if x.k == 'bin' and x.op in ('+', '-', '*', '/', '%', '<<', '>>'):
            return ('op', x.op, ev(x.kids[0], env), ev(x.kids[1], env))
        if x.k == 'call':
            raise AnalysisBroken('RF16: %s calls %s (conversion functions are expected to be call-free)' % (fname, callee_name(x)))
        return ('?',)

    out = []
    work = [(g.entry.id, dict(env0), ())]
    steps = 0
    while work:
        nid, env, conds = work.pop()
        steps += 1
        if steps > 2000:
            raise AnalysisBroken('RF16: path explosion in %s' % fname)
        node = g.nodes[nid]
        if node.kind == 'ret':
            out.append((conds, ev(node.x.kids[0], env) if node.x.kids else None))
            continue
        if node.kind == 'exit':
            continue
        if node.kind == 'stmt':
            x = node.x
            for v in ([x] if x.k != 'decl' else x.kids):
                if v.k == 'var' and v.kids:
                    env[v.ref] = ev(v.kids[0], env)
                elif v.k == 'bin' and v.op == '=' and strip(v.kids[0]).k == 'ref':
                    env[strip(v.kids[0]).ref] = ev(v.kids[1], env)
                elif v.k == 'bin' and v.op in ('+=', '-=', '*=', '/=') and strip(v.kids[0]).k == 'ref':
                    r = strip(v.kids[0]).ref
                    env[r] = ('op', v.op[0], env.get(r, ('?',)), ev(v.kids[1], env))
                elif v.k == 'var':
                    pass
                else:
                    raise AnalysisBroken('RF16: statement %s in %s not modelled' % (show(v), fname))
        if node.kind == 'br':
            x = strip(node.x)
            c = ('cmp', x.op, ev(x.kids[0], env), ev(x.kids[1], env)) if (x.k == 'bin' and x.op in SIGNS) else ('?',)
            for (t, lab) in node.succ:
                work.append((t, dict(env), conds + ((c, lab),)))
            continue
        for (t, lab) in node.succ:
            work.append((t, dict(env) if len(node.succ) > 1 else env, conds))
    return out


def _guard_rel(conds, a, b):
    """set of relations between a and b that the path conditions allow: subset of {'<','==','>'}"""
    allowed = set(['<', '==', '>'])
    holds = {'<': {'<'}, '<=': {'<', '=='}, '==': {'=='}, '!=': {'<', '>'}, '>=': {'>', '=='}, '>': {'>'}}
    swap = {'<': '>', '>': '<', '==': '=='}
    for (c, lab) in conds:
        if c[0] != 'cmp':
            continue
        op = c[1] if lab else NEG[c[1]]
        if c[2] == a and c[3] == b:
            allowed &= holds[op]
        elif c[2] == b and c[3] == a:
            allowed &= set(swap[r] for r in holds[op])
    return allowed


def tick_conversion(ctx):
    """COTmrGetTicks converts a time in `unit` fractions of a second into ticks of a timer running at Freq Hz.  Decided by
    shape, per path of the (loop-free) function: frequency 0 gives 0; when Freq <= unit the result is  time / (unit / Freq)
    with the time widened BEFORE the division; when Freq > unit it is  time * (Freq / unit)  with the time widened BEFORE
    the multiplication.  Both are monotonic in the time (quotient / product with a path-constant factor >= 1) and exact
    whenever the time is a whole number of ticks; any other arrangement (division and multiplication exchanged, factor
    inverted, guard mirrored so that the factor becomes 0, 16-bit product) loses one of the two.  COTmrGetMinTime must
    return that same divisor (the smallest time that is at least one tick) under the same guard."""
    m = ctx.m
    props = ['C07']
    rule = 'RF16-ticks'
    f = 'COTmrGetTicks'
    m.need(f, 'COTmrGetMinTime')
    fn = m.funcs[f]
    ints = [p for p in fn.params if int_type(p[2]) is not None]
    if len(ints) != 2:
        ctx.broke(props, 'RF16-ticks: COTmrGetTicks: expected (timer, time, unit)')
        return
    T = ('p', ints[0][0])
    U = ('p', ints[1][0])
    F = ('f', ('CO_TMR', 'Freq'))
    paths = _sym_paths(m, f)
    loc = m.loc(f, fn.line)
    n = 0
    kinds = set()
    for (conds, ret) in paths:
        rel_f0 = _guard_rel(conds, F, ('c', 0))
        rel_fu = _guard_rel(conds, F, U)
        if not rel_f0 or not rel_fu:
            continue                                   # contradictory path
        n += 1
        site = 'Freq %s 0, Freq %s unit -> %s' % ('/'.join(sorted(rel_f0)), '/'.join(sorted(rel_fu)), _tshow(ret))
        bad = None
        if rel_f0 == {'=='}:
            kinds.add('zero')
            if ret != ('c', 0):
                bad = 'with timer frequency 0 the conversion returns %s, required 0' % _tshow(ret)
        elif '==' in rel_f0:
            bad = 'a path computes ticks without having excluded timer frequency 0 (division by zero / undefined factor)'
        elif ret == ('op', '/', T, ('op', '/', U, F)):
            kinds.add('div')
            if not rel_fu <= {'<', '=='}:
                bad = 'time / (unit / Freq) is used on a path where Freq may exceed unit: the divisor is 0'
        elif ret in (('op', '*', T, ('op', '/', F, U)), ('op', '*', ('op', '/', F, U), T)):
            kinds.add('mul')
            if not rel_fu <= {'>', '=='}:
                bad = 'time * (Freq / unit) is used on a path where Freq may be below unit: the factor is 0 and every time converts to 0 ticks'
        else:
            bad = 'the result %s is neither time / (unit / Freq) nor time * (Freq / unit) with the time widened first' % _tshow(ret)
        if bad:
            ctx.ob(props, rule, f, site, None)
            ctx.find(props, rule, f, 'ticks:%s' % '/'.join(sorted(rel_fu)), loc, '%s: %s' % (f, bad))
        else:
            ctx.ob(props, rule, f, site, 'monotonic and exact form for this frequency class')
    if kinds != {'zero', 'div', 'mul'}:
        ctx.ob(props, rule, f, 'frequency classes covered', None)
        ctx.find(props, rule, f, 'ticks:classes', loc, '%s: the paths cover only the frequency classes %s (required: 0, Freq <= unit, Freq > unit)' % (f, sorted(kinds)))
    # sibling: minimal time
    f2 = 'COTmrGetMinTime'
    fn2 = m.funcs[f2]
    ints2 = [p for p in fn2.params if int_type(p[2]) is not None]
    if len(ints2) != 1:
        ctx.broke(props, 'RF16-ticks: COTmrGetMinTime: expected (timer, unit)')
        return
    U2 = ('p', ints2[0][0])
    for (conds, ret) in _sym_paths(m, f2):
        rel_f0 = _guard_rel(conds, F, ('c', 0))
        rel_fu = _guard_rel(conds, F, U2)
        if not rel_f0 or not rel_fu:
            continue
        n += 1
        site = 'Freq %s 0, Freq %s unit -> %s' % ('/'.join(sorted(rel_f0)), '/'.join(sorted(rel_fu)), _tshow(ret))
        r = ret
        while r is not None and r[0] == 'narrow':
            r = r[2]
        bad = None
        if rel_f0 == {'=='}:
            if r != ('c', 0):
                bad = 'frequency 0: returns %s, required 0' % _tshow(ret)
        elif '==' in rel_f0:
            bad = 'a path divides without having excluded timer frequency 0'
        elif rel_fu <= {'<', '=='} and rel_fu != {'=='}:
            if r != ('op', '/', U2, F):
                bad = 'Freq <= unit: returns %s, required unit / Freq (the divisor COTmrGetTicks uses: the smallest time that is one tick)' % _tshow(ret)
        else:
            if r != ('c', 1) and r != ('op', '/', U2, F):
                bad = 'Freq > unit: returns %s, required 1' % _tshow(ret)
        if bad:
            ctx.ob(props, rule, f2, site, None)
            ctx.find(props, rule, f2, 'mintime:%s' % '/'.join(sorted(rel_fu)), m.loc(f2, fn2.line), '%s: %s' % (f2, bad))
        else:
            ctx.ob(props, rule, f2, site, 'agrees with the divisor of COTmrGetTicks')
    ctx.inst('RF16.conversion-paths', n)
    ctx.require_min(props, rule, n, 6, 'feasible paths of the two conversion functions')


def _tshow(t):
    if t is None:
        return 'nothing'
    if t[0] == 'c':
        return str(t[1])
    if t[0] == 'p':
        return t[1]
    if t[0] == 'f':
        return 'tmr->%s' % t[1][1]
    if t[0] == 'op':
        return '(%s %s %s)' % (_tshow(t[2]), t[1], _tshow(t[3]))
    if t[0] == 'narrow':
        return '(uint%d)%s' % (t[1], _tshow(t[2]))
    return '?'


_run_expiry = run


def run(ctx):
    n = _run_expiry(ctx)
    rearm_interval(ctx)
    tick_conversion(ctx)
    return n


# ------------------------------------------------------------------ thorough tier: mutation adequacy of RF16 (static)
def _mutation_sites(fn):
    """first-order mutation sites of a function body: (description, apply(), undo())"""
    from canalyze.front import X
    sites = []
    tvars = {}
    for n in walk(fn.body):
        if n.k == 'ref' and n.refk in ('VarDecl', 'ParmVarDecl') and (n.cty or '').replace(' ', '') in ('CO_TMR_TIME*', 'structCO_TMR_TIME_T*'):
            tvars[n.ref] = (n.name, n.refk)
    for p in fn.params:
        if p[2].replace(' ', '') in ('CO_TMR_TIME*', 'structCO_TMR_TIME_T*'):
            tvars[p[3]] = (p[0], 'ParmVarDecl')

    def parents(root):
        for n in walk(root):
            for i, k in enumerate(n.kids):
                yield n, i, k

    for (par, i, n) in parents(fn.body):
        # M1: arithmetic operator of an integer expression
        if n.k == 'bin' and n.op in ('+', '-', '+=', '-=') and int_type(n.cty) is not None and int_type(n.kids[0].cty) is not None:
            new = {'+': '-', '-': '+', '+=': '-=', '-=': '+='}[n.op]

            def ap(n=n, new=new):
                n.op = new

            def un(n=n, old=n.op):
                n.op = old
            sites.append(('line %d: `%s` with operator %s' % (n.line, show(n), new), ap, un))
        # M2: which event's Delta
        if n.k == 'mem' and n.field == F_DELTA and n.arrow:
            b = strip(n.kids[0])
            if b.k == 'mem' and b.field == F_NEXT and b.arrow:
                def ap(n=n, b=b):
                    n.kids[0] = b.kids[0]

                def un(n=n, old=n.kids[0]):
                    n.kids[0] = old
                sites.append(('line %d: `%s` read/written as `%s->Delta` (Next dropped)' % (n.line, show(n), show(b.kids[0])), ap, un))
            if b.k == 'ref' and b.ref in tvars:
                for (ref2, (nm2, rk2)) in sorted(tvars.items()):
                    if ref2 == b.ref:
                        continue

                    def ap(b=b, ref2=ref2, nm2=nm2, rk2=rk2):
                        b.ref, b.name, b.refk = ref2, nm2, rk2

                    def un(b=b, old=(b.ref, b.name, b.refk)):
                        b.ref, b.name, b.refk = old
                    sites.append(('line %d: `%s` taken from `%s` instead' % (n.line, show(n), nm2), ap, un))
        # M3: statement deleted (stores to the list / timer driver calls)
        if par.k == 'compound':
            tgt = None
            if n.k == 'bin' and n.op in ('=', '+=', '-='):
                l = strip(n.kids[0])
                if l.k == 'mem' and (l.field in (F_NEXT, F_DELTA) or (l.field and l.field[0] == 'CO_TMR' and l.field[1] in ('Use', 'Free'))):
                    tgt = 'store'
            if n.k == 'call' and callee_name(n) in ('COIfTimerReload', 'COIfTimerStart', 'COIfTimerStop'):
                tgt = 'call'
            if tgt:
                def ap(par=par, i=i, line=n.line):
                    z = X('null')
                    z.line = line
                    par.kids[i] = z

                def un(par=par, i=i, old=n):
                    par.kids[i] = old
                sites.append(('line %d: statement `%s` deleted' % (n.line, show(n)), ap, un))
    return sites


def mutation_adequacy(ctx):
    """How sharp is RF16 on THIS source?  Every first-order mutant of the three analysed functions (an arithmetic
    operator flipped, a Delta taken from another event, a list store or a timer-driver call deleted) is built in memory on
    the AST, re-analysed, and must be reported (or rejected as not analysable).  Nothing is compiled or run.  Mutants
    that are not reported are listed in the evidence: they are either equivalent for the expiry times or a blind spot."""
    import os
    from canalyze import model as modelmod
    from canalyze import cfg as cfgmod
    base = ctx.m
    unit = base.funcs['COTmrInsert'].unit
    rel = os.path.relpath(base.funcs['COTmrInsert'].file, os.path.join(__import__('canalyze.front', fromlist=['x']).REPO, 'src')) \
        if os.path.isabs(base.funcs['COTmrInsert'].file) else unit
    mm = modelmod.Model(defs=getattr(base, 'config', ()), units=[unit])
    roles = (('COTmrInsert', 'insert', check_insert), ('COTmrRemove', 'remove', check_remove), ('COTmrService', 'service', check_service))
    table = []
    killed = 0
    total = 0
    baseline = {}
    for (fname, role, checker) in roles:
        if fname not in mm.funcs:
            raise AnalysisBroken('RF16 mutation analysis: %s not found in %s' % (fname, unit))
        baseline[fname] = set(analyse_role(mm, ctx, fname, role, checker)[0])
    for (fname, role, checker) in roles:
        fn = mm.funcs[fname]
        for (desc, ap, un) in _mutation_sites(fn):
            ap()
            mm._cfg.pop(fname, None)
            verdict = None
            try:
                outcomes, ip = analyse_role(mm, ctx, fname, role, checker)
                keys = sorted(set(k for bads in outcomes.values() for (k, msg) in bads))
                lost = sorted(set(baseline[fname]) - set(outcomes))
                if keys:
                    verdict = 'reported: ' + ', '.join(keys[:3])
                elif lost:
                    verdict = 'path lost: the outcome "%s" no longer exists (the mutant dereferences a null event on it: RF5 reports that)' % lost[0][:60]
                else:
                    verdict = 'NOT reported'
            except AnalysisBroken as e:
                verdict = 'rejected (analysis-broken): %s' % str(e)[:80]
            except Exception as e:      # a mutant may violate an internal assumption of the interpreter
                verdict = 'rejected (%s)' % type(e).__name__
            finally:
                un()
                mm._cfg.pop(fname, None)
            total += 1
            if not verdict.startswith('NOT'):
                killed += 1
            table.append({'function': fname, 'mutant': desc, 'verdict': verdict})
            ctx.ob(['C07'], 'RF16-mutants', fname, desc, verdict if not verdict.startswith('NOT') else 'not reported (listed for triage; see DESIGN)',
                   nontrivial=True)
    ctx.table('C07', 'RF16 first-order mutants of COTmrInsert / COTmrRemove / COTmrService', table)
    ctx.inst('RF16.mutants', total)
    ctx.inst('RF16.mutants-reported', killed)
    ctx.require_min(['C07'], 'RF16-mutants', total, 30, 'first-order mutants generated')
    ctx.require_min(['C07'], 'RF16-mutants', killed, max(1, (total * 3) // 4), 'mutants reported (frozen floor: three quarters)')
    return table


_run_all = run


def run(ctx):
    n = _run_all(ctx)
    if getattr(ctx, 'tier', 'quick') == 'thorough':
        mutation_adequacy(ctx)
    return n
