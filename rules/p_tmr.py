"""Timer pool shape rules (C08 d, e; list-tail invariant used by C01/C10).
(d) COTmrProcess: the elapsed event is returned to the free list before any callback runs; for each
    action the re-insertion (cyclic) or the return to the pool (one-shot) precedes the callback.
(e) COTmrCreate returns the action to the pool when the insertion fails; COTmrDelete pushes the deleted
    action onto the pool on every path where one was found.
(t) list-tail invariant: an action handed to COTmrInsert has its Next link cleared on every path since
    it was taken from a list (COTmrInsert appends it as the tail of an event's action chain)."""
from canalyze.ir import walk, strip, const_eval, show, callee_name
from canalyze import flow
from canalyze.peval import PEval

P = ['C08', 'C07']


def _stores_to(node, field):
    out = []
    for (p, rhs, n) in flow.assigned_paths(node.x):
        l = strip(n.kids[0]) if n.k != 'var' else None
        if l is not None and l.k == 'mem' and l.field == field:
            out.append((l, rhs, n))
    return out


def tail_invariant(ctx):
    m = ctx.m
    props = ['C08', 'C01', 'C10']
    sites = m.call_sites('COTmrInsert')
    ctx.inst('TMR.insert-sites', len(sites))
    ctx.require_min(props, 'RF11-tail', len(sites), 2, 'COTmrInsert call sites')
    for (fname, call) in sites:
        g = m.cfg(fname)
        a = strip(call.kids[3]) if len(call.kids) > 3 else None
        site = '%s: %s' % (m.loc(fname, call), show(call))
        if a is None or a.k != 'ref':
            ctx.broke(props, 'RF11-tail: action argument of %s is not a variable' % site)
            continue
        nid = m.node_of(fname, call)
        # backwards from the call: every path must meet `a->Next = 0` before a re-definition of `a`, another
        # store to an action link, or the function entry
        clear = set()
        block = set()
        for node in g.nodes:
            if node.x is None:
                continue
            for (l, rhs, n) in _stores_to(node, ('CO_TMR_ACTION', 'Next')):
                b = strip(l.kids[0])
                if b.k == 'ref' and b.ref == a.ref and rhs is not None and const_eval(rhs) == 0:
                    clear.add(node.id)
                else:
                    block.add(node.id)
            for (p, rhs, n) in flow.assigned_paths(node.x):
                if p is not None and len(p) == 1 and p[0][1] == a.ref:
                    block.add(node.id)
        block.add(g.entry.id)
        back = flow.reach_from(g, nid, avoid=clear, forward_dir=False)
        bad = sorted(b for b in back if b in block and b not in clear)
        if bad:
            ln = g.nodes[bad[-1]].line or m.funcs[fname].line
            ctx.ob(props, 'RF11-tail', fname, site, None)
            ctx.find(props, 'RF11-tail', fname, 'next-not-cleared', m.loc(fname, call),
                     'action `%s` is inserted into a timer event although its Next link is not cleared on every path '
                     '(path from line %d): COTmrInsert appends it as the tail of the event\'s action chain, so a stale link '
                     'keeps another action (possibly already released) chained behind it' % (a.name, ln))
        else:
            ctx.ob(props, 'RF11-tail', fname, site, '%s->Next = 0 on every path since the action was taken' % a.name)


def process_order(ctx):
    m = ctx.m
    f = 'COTmrProcess'
    m.need(f)
    g = m.cfg(f)
    fn = m.funcs[f]
    # callback invocation: call through a local of type CO_TMR_FUNC
    cbs = []
    for node in g.nodes:
        if node.x is None:
            continue
        for c in walk(node.x):
            if c.k == 'call' and callee_name(c) is None:
                f0 = strip(c.kids[0])
                if f0.k == 'ref' and 'CO_TMR_FUNC' in (f0.ty or ''):
                    cbs.append(node.id)
    ctx.inst('TMR.callback-sites', len(cbs))
    ctx.require_min(P, 'RF2-tmr-order', len(cbs), 1, 'callback invocation in COTmrProcess')
    free_store = set(n.id for n in g.nodes if n.x is not None and _stores_to(n, ('CO_TMR', 'Free')))
    reinsert = set(n.id for n in g.nodes if n.x is not None and any(callee_name(c) == 'COTmrInsert' for c in walk(n.x) if c.k == 'call'))
    pool = set(n.id for n in g.nodes if n.x is not None and _stores_to(n, ('CO_TMR', 'Acts')))
    for cb in cbs:
        site = '%s: callback invocation' % m.loc(f, g.nodes[cb].line)
        # (1) event returned to the free list before
        r = flow.reach_from(g, g.entry.id, avoid=free_store, include_start=True)
        if cb in r:
            ctx.ob(P, 'RF2-tmr-order', f, site + ' (event recycled first)', None)
            ctx.find(P, 'RF2-tmr-order', f, 'callback-before-event-free', m.loc(f, g.nodes[cb].line),
                     'a callback can run before the elapsed event was returned to the free list')
        else:
            ctx.ob(P, 'RF2-tmr-order', f, site + ' (event recycled first)', 'store to tmr->Free on every path before')
        # (2) per action: re-insert or pool return since the action was fetched (loop iteration start)
        lp = [l for l in g.loops if cb in l.nodes]
        inner = lp[-1] if lp else None
        start = inner.head if inner is not None else g.entry.id
        r = flow.reach_from(g, start, avoid=(reinsert | pool), include_start=True)
        # restrict to nodes of the same iteration (do not take the back edge through the callback)
        if cb in r:
            ctx.ob(P, 'RF2-tmr-order', f, site + ' (action re-armed / released first)', None)
            ctx.find(P, 'RF2-tmr-order', f, 'callback-before-rearm', m.loc(f, g.nodes[cb].line),
                     'a callback can run before its action was re-inserted (cyclic) or returned to the pool (one-shot): a '
                     'callback that deletes or re-creates its own action then works on a half-updated pool')
        else:
            ctx.ob(P, 'RF2-tmr-order', f, site + ' (action re-armed / released first)', 'COTmrInsert or store to tmr->Acts on every path of the iteration')


def pool_return(ctx):
    m = ctx.m
    NONE = None
    # COTmrCreate: insertion failure path returns the action
    f = 'COTmrCreate'
    pe = PEval(m, f)
    pe.record_sets = False
    pe.store_filter = lambda k, fld: fld in (('CO_TMR', 'Acts'),)
    for ins in (0, 1):
        trs = pe.run({'tmr': 1, 'func': 1, 'startTicks': 5, 'cycleTicks': 0, 'tmr->Node': 1, 'tmr->Acts': 1, 'call:COTmrInsert': ins})
        site = 'COTmrCreate with insertion result %s' % ('event' if ins else 'NULL')
        bad = None
        for t in trs:
            acts = [e for e in t.stores()]
            if ins == 0 and (len(acts) != 2 or t.ret != -1):
                bad = 'failed insertion: pool head stored %d times (take + give back expected), returns %s' % (len(acts), t.ret)
            if ins == 1 and len(acts) != 1:
                bad = 'successful insertion stores the pool head %d times' % len(acts)
            lk = [c for c in t.call_names() if c in ('COTmrLock', 'COTmrUnlock')]
            if lk != ['COTmrLock', 'COTmrUnlock']:
                bad = 'lock calls %s' % lk
        if bad:
            ctx.ob(P, 'RF2-tmr-pool', f, site, None)
            ctx.find(P, 'RF2-tmr-pool', f, 'create:%d' % ins, m.loc(f, m.funcs[f].line), '%s: %s' % (site, bad))
        else:
            ctx.ob(P, 'RF2-tmr-pool', f, site, 'action taken from the pool%s' % (' and returned' if not ins else ''))
    # COTmrDelete: found => pushed onto the pool (store to Acts dominated by del != 0 and reached on every such path)
    f = 'COTmrDelete'
    g = m.cfg(f)
    pool = [n for n in g.nodes if n.x is not None and m.field_stores(n.x, ('CO_TMR', 'Acts'))]
    site = 'COTmrDelete returns the deleted action to the pool'
    if len(pool) != 1:
        ctx.ob(P, 'RF2-tmr-pool', f, site, None)
        ctx.find(P, 'RF2-tmr-pool', f, 'delete-pool-sites', m.loc(f, m.funcs[f].line), '%d pool stores in COTmrDelete (one expected)' % len(pool))
        return
    pn = pool[0]
    facts = m.facts(f).get(pn.id) or ()
    found_guard = False
    for fa in facts:
        x = strip(fa.x)
        if x.k == 'bin' and x.op in ('!=', '==') and const_eval(x.kids[1]) == 0 and strip(x.kids[0]).k == 'ref':
            v = strip(x.kids[0])
            # the variable stored into the pool head
            for (l, rhs, n) in m.field_stores(pn.x, ('CO_TMR', 'Acts')):
                r = strip(rhs)
                if r is not None and r.k == 'ref' and r.ref == v.ref and fa.pol == (x.op == '!='):
                    found_guard = True
    if found_guard:
        ctx.ob(P, 'RF2-tmr-pool', f, site, 'store to tmr->Acts under `found != 0`')
    else:
        ctx.ob(P, 'RF2-tmr-pool', f, site, None)
        ctx.find(P, 'RF2-tmr-pool', f, 'delete-pool-guard', m.loc(f, pn.line), 'the pool store is not guarded by the found-action test')


LINK = ('CO_TMR_ACTION', 'Next')
TAIL = ('CO_TMR_TIME', 'ActionEnd')


def _assigned_vars(node):
    out = set()
    if node.x is None:
        return out
    for (p, rhs, n) in flow.assigned_paths(node.x):
        if p is not None and len(p) == 1:
            out.add(p[0][1])
    return out


def tail_pointer(ctx):
    """(u) An event's action chain has a head (Action) and a tail pointer (ActionEnd; COTmrInsert appends behind it).
    Every interior unlink `prev->Next = act->Next` must, when the unlinked action was the last one (act->Next == 0),
    move the tail pointer to `prev` before prev / act change; every append `tx->ActionEnd->Next = a` must be followed
    by `tx->ActionEnd = a`.  Otherwise the tail dangles into the free pool and the next action appended to this event
    is chained behind a free or re-used slot."""
    m = ctx.m
    props = ['C08', 'C01', 'C10']
    n_unlink = n_append = 0
    for fname in ('COTmrDelete', 'COTmrInsert', 'COTmrProcess', 'COTmrRemove', 'COTmrCreate'):
        m.need(fname)
        g = m.cfg(fname)
        facts = m.facts(fname)
        for u in g.nodes:
            if u.x is None:
                continue
            for (l, rhs, n) in m.field_stores(u.x, LINK):
                r = strip(rhs) if rhs is not None else None
                b = strip(l.kids[0])
                # interior unlink: X->Next = Y->Next
                if b.k == 'ref' and r is not None and r.k == 'mem' and r.field == LINK and strip(r.kids[0]).k == 'ref' \
                        and strip(r.kids[0]).ref != b.ref:
                    X, Y = b, strip(r.kids[0])
                    n_unlink += 1
                    site = '%s: %s' % (m.loc(fname, n), show(n))
                    bad = _follow(g, u, X, Y, fname, m)
                    if bad:
                        ctx.ob(props, 'RF11-tailptr', fname, site, None)
                        ctx.find(props, 'RF11-tailptr', fname, 'unlink-without-tail-fix', m.loc(fname, n),
                                 'interior unlink %s: %s; when the unlinked action was the last of the chain the event\'s '
                                 'ActionEnd keeps pointing at it (a free slot after the delete) and the next action appended '
                                 'to this event is lost / chained behind a re-used slot' % (show(n), bad))
                    else:
                        ctx.ob(props, 'RF11-tailptr', fname, site, 'tail pointer moved to the predecessor when the last action is unlinked')
                # append behind the tail: T->ActionEnd->Next = a
                elif b.k == 'mem' and b.field == TAIL and r is not None and r.k == 'ref':
                    n_append += 1
                    site = '%s: %s' % (m.loc(fname, n), show(n))
                    ok = False
                    seen = set()
                    st = [t for (t, lab) in u.succ]
                    fail = None
                    while st and fail is None:
                        a = st.pop()
                        if a in seen:
                            continue
                        seen.add(a)
                        nd = g.nodes[a]
                        hit = [1 for (l2, rhs2, n2) in (m.field_stores(nd.x, TAIL) if nd.x is not None else ())
                               if rhs2 is not None and strip(rhs2).k == 'ref' and strip(rhs2).ref == r.ref]
                        if hit:
                            ok = True
                            continue
                        if nd.kind == 'exit' or r.ref in _assigned_vars(nd):
                            fail = 'path to line %d without `ActionEnd = %s`' % (nd.line or 0, r.name)
                            break
                        st.extend(t for (t, lab) in nd.succ)
                    if fail or not ok:
                        ctx.ob(props, 'RF11-tailptr', fname, site, None)
                        ctx.find(props, 'RF11-tailptr', fname, 'append-without-tail-move', m.loc(fname, n),
                                 'append %s is not followed by moving ActionEnd to the appended action (%s)' % (show(n), fail))
                    else:
                        ctx.ob(props, 'RF11-tailptr', fname, site, 'ActionEnd moved to the appended action')
    ctx.inst('TMR.interior-unlinks', n_unlink)
    ctx.inst('TMR.tail-appends', n_append)
    ctx.require_min(props, 'RF11-tailptr', n_unlink, 2, 'interior unlink sites of the action chain')
    ctx.require_min(props, 'RF11-tailptr', n_append, 1, 'append sites behind ActionEnd')


def _follow(g, u, X, Y, fname, m):
    """None when every path from the unlink u meets `tail = X` on the (Y->Next == 0) side before X / Y change"""
    def is_last_test(nd):
        # returns the edge label on which Y->Next is null, else None
        if nd.kind != 'br' or nd.x is None:
            return None
        x = strip(nd.x)
        if x.k == 'bin' and x.op in ('==', '!=') and const_eval(x.kids[1], m) == 0:
            t = strip(x.kids[0])
            if t.k == 'mem' and t.field == LINK and strip(t.kids[0]).k == 'ref' and strip(t.kids[0]).ref == Y.ref:
                return x.op == '=='
        if x.k == 'bin' and x.op in ('==', '!='):
            a, b = strip(x.kids[0]), strip(x.kids[1])
            for (p, q) in ((a, b), (b, a)):
                if p.k == 'mem' and p.field == TAIL and q.k == 'ref' and q.ref == Y.ref:
                    return x.op == '=='
        if x.k == 'mem' and x.field == LINK and strip(x.kids[0]).k == 'ref' and strip(x.kids[0]).ref == Y.ref:
            return False
        return None
    seen = set()
    st = [(t, False) for (t, lab) in u.succ]
    while st:
        a, islast = st.pop()
        if (a, islast) in seen:
            continue
        seen.add((a, islast))
        nd = g.nodes[a]
        if nd.x is not None:
            for (l2, rhs2, n2) in m.field_stores(nd.x, TAIL):
                if islast and rhs2 is not None and strip(rhs2).k == 'ref' and strip(rhs2).ref == X.ref:
                    break
            else:
                l2 = None
            if l2 is not None:
                continue          # fixed on this path
        lab_last = is_last_test(nd)
        if lab_last is not None:
            for (t, lab) in nd.succ:
                if lab == lab_last:
                    st.append((t, True))
            continue              # the other edge: the unlinked action was not the last one, nothing to fix
        av = _assigned_vars(nd)
        if nd.kind == 'exit' or X.ref in av or Y.ref in av:
            return 'no `ActionEnd = %s` under `%s->Next == 0` before %s (line %d)' % (
                X.name, Y.name, 'the function returns' if nd.kind == 'exit' else 'the cursor moves on', nd.line or u.line)
        st.extend((t, islast) for (t, lab) in nd.succ)
    return None


def head_delta(ctx):
    """(h) While the hardware timer runs, the time the FIRST pending event still has to wait lives in the timer
    (COIfTimerDelay); the `Delta` stored in that event is the value the timer was loaded with and is stale as soon
    as a tick has passed.  So `Delta` of an event that is known to be the head of the used list (`tmr->Use`) may be
    read only to (re)load the timer; every other read - in particular adding it to the successor when the head is
    removed - shifts all later events by the part of the interval that has already elapsed."""
    m = ctx.m
    props = ['C08', 'C10', 'C07']
    DELTA = ('CO_TMR_TIME', 'Delta')
    USE = ('CO_TMR', 'Use')
    n_reads = 0
    n_head = 0
    for fname in sorted(f for f, fn in m.funcs.items() if fn.unit.endswith('co_tmr.c')):
        g = m.cfg(fname)
        facts = m.facts(fname)
        defs = m.defs_of(fname)
        for node in g.nodes:
            if node.x is None or node.id not in g.reachable:
                continue
            stored = set(id(l) for (l, rhs, n) in m.field_stores(node.x, DELTA) if n.k == 'bin' and n.op == '=')
            reload_args = set()
            for c in walk(node.x):
                if c.k == 'call' and callee_name(c) == 'COIfTimerReload':
                    for a in c.kids[1:]:
                        for x in walk(a):
                            reload_args.add(id(x))
            for x in walk(node.x):
                if not (x.k == 'mem' and x.field == DELTA) or id(x) in stored:
                    continue
                n_reads += 1
                base = strip(x.kids[0])
                head = False
                # (1) written as tmr->Use->Delta
                if base.k == 'mem' and base.field == USE:
                    head = True
                elif base.k == 'ref':
                    # (2) the variable was loaded from tmr->Use and not changed since
                    u = defs.unique_def(node.id, base.ref)
                    if u is not None and strip(u[1]) is not None and strip(u[1]).k == 'mem' and strip(u[1]).field == USE:
                        head = True
                    # (3) a branch established  tmr->Use == var
                    for fa in (facts.get(node.id) or ()):
                        fx = strip(fa.x)
                        if fx.k == 'bin' and fx.op in ('==', '!=') and fa.pol == (fx.op == '=='):
                            a, b = strip(fx.kids[0]), strip(fx.kids[1])
                            for (p_, q_) in ((a, b), (b, a)):
                                if p_.k == 'mem' and p_.field == USE and q_.k == 'ref' and q_.ref == base.ref:
                                    head = True
                if not head:
                    continue
                n_head += 1
                site = '%s: %s' % (m.loc(fname, x), show(x))
                if id(x) in reload_args:
                    ctx.ob(props, 'RF15-head-delta', fname, site, 'read only to load the hardware timer')
                else:
                    ctx.ob(props, 'RF15-head-delta', fname, site, None)
                    ctx.find(props, 'RF15-head-delta', fname, 'stale-head-delta', m.loc(fname, x),
                             '%s reads the stored Delta of the first pending event (%s) for something else than loading the '
                             'timer: while the timer runs that value is stale - the remaining time is COIfTimerDelay(); every '
                             'later event (heartbeat, PDO event timers ...) is shifted by the part of the interval that had '
                             'already elapsed' % (fname, show(x)))
    ctx.inst('TMR.delta-reads', n_reads)
    ctx.inst('TMR.head-delta-reads', n_head)
    ctx.require_min(props, 'RF15-head-delta', n_reads, 6, 'reads of CO_TMR_TIME.Delta in co_tmr.c')
    ctx.require_min(props, 'RF15-head-delta', n_head, 2, 'reads of the head event\'s Delta (timer reloads)')


def create_service_tables(ctx):
    """(c) pool conservation at the API boundary: COTmrCreate takes an action from the pool iff it will be armed
    (both times zero / no callback / empty pool / failed insertion leave the pool as it was and report -1; a zero start
    delay means "first expiry after one period"); COTmrService moves exactly the head event to the elapsed list and
    loads the timer with the new head's delta or stops it."""
    m = ctx.m
    f = 'COTmrCreate'
    m.need(f, 'COTmrService')
    n = 0
    for (start, cyc) in ((0, 0), (0, 50), (20, 0), (20, 50)):
        for func in (0, 1):
            for pool in (0, 1):
                for ins in (0, 1):
                    pe = PEval(m, f)
                    pe.record_sets = False
                    pe.store_filter = lambda k, fld: fld in (('CO_TMR', 'Acts'), ('CO_TMR_ACTION', 'CycleTicks'), ('CO_TMR_ACTION', 'Func'))
                    trs = pe.run({'tmr': 1, 'startTicks': start, 'cycleTicks': cyc, 'func': func, 'para': 1, 'tmr->Node': 1,
                                  'tmr->Acts': pool, 'call:COTmrInsert': ins, 'act->Id': 7, 'post:COTmrInsert': {'act->Id': 7}})
                    site = 'COTmrCreate start=%d cycle=%d callback=%d pool-has-action=%d insertion=%s' % (
                        start, cyc, func, pool, 'ok' if ins else 'fails')
                    armed = (start or cyc) and func and pool and ins
                    bad = None
                    if len(trs) != 1:
                        bad = '%d paths' % len(trs)
                    for t in trs:
                        acts = [e for e in t.stores() if e[4] == ('CO_TMR', 'Acts')]
                        insc = [c for c in t.calls() if c[1] == 'COTmrInsert']
                        if armed:
                            if t.ret != 7:
                                bad = 'returns %s, required the id of the action' % t.ret
                            elif len(acts) != 1:
                                bad = 'pool head stored %d times (take expected)' % len(acts)
                            elif len(insc) != 1 or insc[0][2][1] != (start or cyc):
                                bad = 'inserted with %s ticks, required %d' % ([c[2][1] for c in insc], start or cyc)
                            elif [e[2] for e in t.stores() if e[4] == ('CO_TMR_ACTION', 'CycleTicks')] != [cyc]:
                                bad = 'period stored %s, required %d' % ([e[2] for e in t.stores() if e[4] == ('CO_TMR_ACTION', 'CycleTicks')], cyc)
                        else:
                            if t.ret != -1:
                                bad = 'returns %s although nothing was armed' % t.ret
                            elif len(acts) not in (0, 2):
                                bad = 'pool head stored %d times: an action is taken and not given back' % len(acts)
                            elif not (start or cyc) and (acts or insc):
                                bad = 'both times zero but the pool / list is touched'
                    n += 1
                    if bad:
                        ctx.ob(P, 'RF2-tmr-create', f, site, None)
                        ctx.find(P, 'RF2-tmr-create', f, 'create:%d:%d:%d:%d:%d' % (start, cyc, func, pool, ins), m.loc(f, m.funcs[f].line), '%s: %s' % (site, bad))
                    else:
                        ctx.ob(P, 'RF2-tmr-create', f, site, 'armed' if armed else 'refused, pool unchanged')
    f = 'COTmrService'
    for elapsed in (0, 1):
        for more in (0, 1):
            pe = PEval(m, f)
            pe.record_sets = False
            pe.store_filter = lambda k, fld: fld in (('CO_TMR', 'Use'), ('CO_TMR', 'Elapsed'))
            trs = pe.run({'tmr': 1, 'tmr->Node': 1, 'call:COIfTimerUpdate': elapsed, 'tmr->Use': 1, 'tn->Next': more,
                          'tmr->Use->Next': more, 'tmr->Elapsed': 0})
            site = 'COTmrService timer-elapsed=%d further-event=%d' % (elapsed, more)
            bad = None
            for t in trs:
                names = t.call_names()
                st = [e[4][1] for e in t.stores()]
                if not elapsed:
                    if st or 'COIfTimerReload' in names or 'COIfTimerStop' in names or t.ret != 0:
                        bad = 'no elapsed tick but lists / timer touched (stores %s, returns %s)' % (st, t.ret)
                else:
                    if st.count('Use') != 1 or st.count('Elapsed') != 1 or t.ret != 1:
                        bad = 'head event not moved exactly once (stores %s, returns %s)' % (st, t.ret)
                    elif more and ('COIfTimerReload' not in names or 'COIfTimerStop' in names):
                        bad = 'timer not loaded for the next event'
                    elif not more and ('COIfTimerStop' not in names or 'COIfTimerReload' in names):
                        bad = 'timer not stopped after the last event'
            if not trs:
                bad = 'no path'
            if bad:
                ctx.ob(P, 'RF2-tmr-service', f, site, None)
                ctx.find(P, 'RF2-tmr-service', f, 'service:%d:%d' % (elapsed, more), m.loc(f, m.funcs[f].line), '%s: %s' % (site, bad))
            else:
                ctx.ob(P, 'RF2-tmr-service', f, site, 'ok')
    # the elapsed event is PUSHED IN FRONT of the elapsed list (COTmrProcess takes events from the head; an event linked
    # anywhere else cuts the rest of the list off): with a non-empty elapsed list the old head of the pending list points
    # at the old elapsed head and becomes the new elapsed head; the node that was the elapsed head is not written
    pe = PEval(m, f)
    pe.record_sets = False
    pe.store_filter = lambda k, fld: fld is not None and fld[0] in ('CO_TMR', 'CO_TMR_TIME')
    trs = pe.run({'tmr': 1, 'tmr->Node': 1, 'call:COIfTimerUpdate': 1, 'tmr->Use': 0x100, 'tmr->Use->Next': 0x300, 'tmr->Elapsed': 0x200})
    site = 'COTmrService with two events already elapsed: push in front'
    bad = None
    for t in trs:
        final = {}
        for e in t.stores():
            final[e[1]] = e[2]
        if final.get('tmr->Elapsed') != 0x100:
            bad = 'the elapsed list head becomes %s, required the event that just elapsed' % (hex(final['tmr->Elapsed']) if final.get('tmr->Elapsed') is not None else final.get('tmr->Elapsed'))
        elif final.get('tmr->Use') != 0x300:
            bad = 'the pending list head becomes %s, required the successor of the elapsed event' % final.get('tmr->Use')
        elif 0x200 not in [v for k, v in final.items() if k.endswith('->Next')]:
            bad = 'the event that just elapsed is not linked to the events that elapsed before (their chain is cut off)'
        elif any(k.startswith('tmr->Elapsed->') for k in final):
            bad = 'an event already in the elapsed list is written (%s)' % sorted(k for k in final if k.startswith('tmr->Elapsed->'))
    if not trs:
        bad = 'no path'
    if bad:
        ctx.ob(P, 'RF2-tmr-service', f, site, None)
        ctx.find(P, 'RF2-tmr-service', f, 'service:push-front', m.loc(f, m.funcs[f].line), '%s: %s' % (site, bad))
    else:
        ctx.ob(P, 'RF2-tmr-service', f, site, 'new head of the elapsed list, old elapsed events behind it')
    ctx.inst('TMR.create-rows', n)


def equal_expiry_merge(ctx):
    """(m) COTmrInsert orders the new interval against the accumulated time of the pending events with three outcomes:
    earlier (own event in front), later (walk on / append), EQUAL (the action joins the existing event).  Equality must
    reach the merge branch from every position: every relational comparison between the new interval and the accumulated
    time is strict, and an equality test guards the append behind ActionEnd.  A non-strict comparison gives an action that
    falls due together with a pending event its own event and leaves the neighbour with Delta 0 - the hardware timer is
    then loaded with 0 and that event and everything behind it never fires."""
    m = ctx.m
    f = 'COTmrInsert'
    m.need(f)
    props = ['C08', 'C10', 'C07']
    fn = m.funcs[f]
    ints = [p for p in fn.params if not is_pointer_type(p[2])]
    if len(ints) != 1:
        ctx.broke(props, 'COTmrInsert: expected exactly one integer parameter (the new interval)')
        return
    pid = ints[0][3]
    g = m.cfg(f)
    rel = []
    eq = []
    for node in g.nodes:
        if node.kind != 'br' or node.x is None:
            continue
        x = strip(node.x)
        if x.k == 'bin' and x.op in ('<', '<=', '>', '>=', '==', '!='):
            a, b = strip(x.kids[0]), strip(x.kids[1])
            for (u, v) in ((a, b), (b, a)):
                if u.k == 'ref' and u.ref == pid and v.k == 'ref' and v.refk == 'VarDecl':
                    (eq if x.op in ('==', '!=') else rel).append((node, x))
    ctx.inst('TMR.insert-comparisons', len(rel) + len(eq))
    ctx.require_min(props, 'RF15-equal-merge', len(rel), 2, 'relational comparisons of the new interval in COTmrInsert')
    # decided on edges, not on the spelling of the operator: from the edge a relational test takes when the two times are
    # EQUAL, no node that takes an event from the free list (a new event for this action) may be reached before the times
    # are compared again (another relational test or the equality test)
    FREE = ('CO_TMR', 'Free')
    ins = set(nd.id for nd in g.nodes if nd.x is not None and m.field_stores(nd.x, FREE))
    cmpnodes = set(nd.id for (nd, x) in rel + eq)
    for (node, x) in rel:
        on_equal = x.op in ('<=', '>=')          # value of the test when both sides are equal
        site = '%s: %s' % (m.loc(f, node.line), show(x))
        bad = None
        for (t, lab) in node.succ:
            if lab != on_equal:
                continue
            seen = set()
            st = [t]
            while st and bad is None:
                a_ = st.pop()
                if a_ in seen or a_ in cmpnodes:
                    continue
                seen.add(a_)
                if a_ in ins:
                    bad = g.nodes[a_]
                    break
                st.extend(tt for (tt, ll) in g.nodes[a_].succ)
        if bad is None:
            ctx.ob(props, 'RF15-equal-merge', f, site, 'on equality no new event is taken before the times are compared again')
        else:
            ctx.ob(props, 'RF15-equal-merge', f, site, None)
            ctx.find(props, 'RF15-equal-merge', f, 'equal-takes-new-event', m.loc(f, node.line),
                     'when the new interval EQUALS the accumulated time, %s leads to taking a new event (line %d) without '
                     'reaching the equality test: an action that falls due exactly together with a pending event does not join '
                     'it (own event, the neighbour is left with Delta 0 and never fires)' % (show(x), bad.line))
    # the equality branch appends behind the tail
    ok = False
    for (node, x) in eq:
        lab = (x.op == '==')
        for (t, l) in node.succ:
            if l != lab:
                continue
            seen = set()
            st = [t]
            while st:
                a = st.pop()
                if a in seen:
                    continue
                seen.add(a)
                nd = g.nodes[a]
                if nd.x is not None and m.field_stores(nd.x, TAIL):
                    ok = True
                if nd.kind in ('br', 'exit', 'ret'):
                    continue
                st.extend(tt for (tt, ll) in nd.succ)
    site = 'COTmrInsert: equal expiry joins the pending event'
    if ok:
        ctx.ob(props, 'RF15-equal-merge', f, site, 'equality test guards the append behind ActionEnd')
    else:
        ctx.ob(props, 'RF15-equal-merge', f, site, None)
        ctx.find(props, 'RF15-equal-merge', f, 'no-merge-branch', m.loc(f, fn.line),
                 'no equality test of the new interval against the accumulated time guards an append behind ActionEnd')


def is_pointer_type(cty):
    from canalyze.ir import is_pointer
    return is_pointer(cty)


def delete_search(ctx):
    """(s) COTmrDelete looks for the action in the pending list AND in the elapsed list: an action that has elapsed but was
    not processed yet is cancelled (returns 0, action back in the pool) whatever the pending list holds - in particular
    when it is empty."""
    m = ctx.m
    f = 'COTmrDelete'
    m.need(f)
    for (use, elapsed, where) in ((0, 1, 'elapsed list only (pending list empty)'), (1, 0, 'head of the pending list'), (0, 0, 'nowhere')):
        pe = PEval(m, f)
        pe.record_sets = False
        pe.store_filter = lambda k, fld: fld == ('CO_TMR', 'Acts')
        inputs = {'tmr': 1, 'actId': 3, 'tmr->Max': 8, 'tmr->Use': use, 'tmr->Elapsed': elapsed}
        if use:
            inputs.update({'tmr->Use->Action': 1, 'tmr->Use->Action->Id': 3, 'tmr->Use->Action->Next': 1, 'tx->Action': 1})
        if elapsed:
            inputs.update({'tmr->Elapsed->Action': 1, 'tmr->Elapsed->Action->Id': 3, 'tmr->Elapsed->Action->Next': 0})
        trs = pe.run(inputs)
        site = 'COTmrDelete: action is in the %s' % where
        bad = None
        found = bool(use or elapsed)
        oks = 0
        for t in trs:
            pool = [e for e in t.stores()]
            if found and t.ret == 0 and len(pool) == 1:
                oks += 1
            if not found and (t.ret != -1 or pool):
                bad = 'nothing to delete but returns %s / touches the pool' % t.ret
        if found and not oks:
            bad = 'no path cancels the action (returns %s)' % sorted(set(str(t.ret) for t in trs))
        if found and any(t.ret == -1 and not t.stores() for t in trs) and len(trs) == 1:
            bad = 'the action is not found (returns -1)'
        if not trs:
            bad = 'no path'
        if bad:
            ctx.ob(P, 'RF2-tmr-delete', f, site, None)
            ctx.find(P, 'RF2-tmr-delete', f, 'delete:%d:%d' % (use, elapsed), m.loc(f, m.funcs[f].line), '%s: %s' % (site, bad))
        else:
            ctx.ob(P, 'RF2-tmr-delete', f, site, 'cancelled and returned to the pool' if found else 'returns -1, pool untouched')


def remove_returns_event(ctx):
    """(r) COTmrRemove takes an emptied event out of the pending list and returns it to the free event list on EVERY path
    that unlinks it - also when it was the only pending event (every SDO client step, every one-shot monitor deletes a
    sole timer: an event leaked there drains the pool)."""
    m = ctx.m
    f = 'COTmrRemove'
    m.need(f)
    FREE = ('CO_TMR', 'Free')
    for (nxt, what) in ((0, 'the only pending event'), (0x300, 'the head with a successor')):
        pe = PEval(m, f)
        pe.record_sets = False
        pe.store_filter = lambda k, fld: fld in (FREE, ('CO_TMR', 'Use'))
        trs = pe.run({'tmr': 1, 'tx': 0x100, 'tmr->Node': 1, 'tmr->Use': 0x100, 'tx->Next': nxt, 'tmr->Free': 0x500, 'call:COIfTimerDelay': 3})
        site = 'COTmrRemove: %s' % what
        bad = None
        for t in trs:
            st = dict((e[4][1], e[2]) for e in t.stores())
            if st.get('Use') != nxt:
                bad = 'pending list head becomes %s' % st.get('Use')
            elif st.get('Free') != 0x100:
                bad = 'the removed event is not returned to the free event list (Free = %s): one event slot is lost with every ' \
                      'such removal' % st.get('Free')
        if not trs:
            bad = 'no path'
        if bad:
            ctx.ob(P, 'RF2-tmr-remove', f, site, None)
            ctx.find(P, 'RF2-tmr-remove', f, 'remove:%s' % what[:24], m.loc(f, m.funcs[f].line), '%s: %s' % (site, bad))
        else:
            ctx.ob(P, 'RF2-tmr-remove', f, site, 'unlinked and pushed onto the free event list')


def run(ctx):
    remove_returns_event(ctx)
    delete_search(ctx)
    equal_expiry_merge(ctx)
    create_service_tables(ctx)
    head_delta(ctx)
    tail_pointer(ctx)
    tail_invariant(ctx)
    process_order(ctx)
    pool_return(ctx)
