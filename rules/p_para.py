"""Parameter store / restore (C17): signature guards, fan-out, enable gate, NVM result
discipline (RF8), load on init and reset by type - by folding over input classes."""
from canalyze.ir import is_pointer, walk, strip, const_eval, show, callee_name
from canalyze.peval import PEval
from tables import spec

P = ['C17']


def _run(m, fname, inputs, filt=None):
    pe = PEval(m, fname)
    pe.record_sets = False
    pe.store_filter = filt if filt is not None else (lambda k, f: f is not None and f[1] == 'Error')
    base = {}
    for prm in m.funcs[fname].params:
        if is_pointer(prm[2]):
            base[prm[0]] = 1
    base.update(inputs)
    return pe.run(base)


def signature_and_fanout(ctx):
    m = ctx.m
    NONE = m.enum('CO_ERR_NONE')
    for (f, action, sig, other, idx) in (('COTParaStoreWrite', 'COParaStore', spec.SIG_SAVE, spec.SIG_LOAD, 0x1010),
                                         ('COTParaRestoreWrite', 'COParaRestore', spec.SIG_LOAD, spec.SIG_SAVE, 0x1011)):
        m.need(f, action)
        for sub in (1, 2, 3):
            for val in (sig, sig ^ 1, sig ^ 0x01000000, other, 0, 0xFFFFFFFF):
                trs = _run(m, f, {'obj->Key': (idx << 16) | (sub << 8), 'obj->Data': 1, '*buffer': val,
                                  'out:CODictRdByte:2': 1, 'call:' + action: NONE, 'call:CODictFind': 1})
                site = '%04Xh:%02X := %08Xh' % (idx, sub, val)
                bad = None
                for t in trs:
                    acts = [c for c in t.calls() if c[1] == action]
                    drv = [c for c in t.calls() if c[1] in ('COIfNvmWrite', 'COIfNvmRead', 'COParaDefault')]
                    if val == sig:
                        if len(acts) != 1 or t.ret != NONE:
                            bad = 'correct signature: %d %s calls, returns %s' % (len(acts), action, t.ret)
                    else:
                        if acts or drv or t.ret in (NONE, None) or t.stores():
                            bad = 'wrong signature is not refused without effect (%s calls, returns %s)' % (len(acts), t.ret)
                if bad:
                    ctx.ob(P, 'RF2-para-sig', f, site, None)
                    ctx.find(P, 'RF2-para-sig', f, 'sig:%d:%08X' % (sub, val), m.loc(f, m.funcs[f].line), '%s: %s' % (site, bad))
                else:
                    ctx.ob(P, 'RF2-para-sig', f, site, 'executed once' if val == sig else 'refused, nothing touched')
        # fan-out for sub-index 1 with several groups
        for num in (2, 3, 5):
            for fail_at in (None, 0, 1):
                inputs = {'obj->Key': (idx << 16) | 0x100, 'obj->Data': 1, '*buffer': sig, 'out:CODictRdByte:2': num,
                          'call:CODictFind': 1, 'call:' + action: NONE}
                if fail_at is not None:
                    inputs['call:%s#%d' % (action, fail_at)] = 0x150
                trs = _run(m, f, inputs)
                site = '%04Xh:01 with %d groups, failure at %s' % (idx, num, fail_at)
                bad = None
                for t in trs:
                    acts = [c for c in t.calls() if c[1] == action]
                    finds = [c[2][1] for c in t.calls() if c[1] == 'CODictFind']
                    want = (num - 1) if fail_at is None else min(fail_at + 1, num - 1)
                    if len(acts) != want:
                        bad = '%d groups processed, required %d (all groups 2..%d, stop at the first error)' % (len(acts), want, num)
                    exp_finds = [(idx << 16) | (s << 8) for s in range(2, 2 + want)]
                    if finds[:want] != exp_finds:
                        bad = 'groups visited %s, required %s' % ([hex(x) if x is not None else '?' for x in finds], [hex(x) for x in exp_finds])
                    if fail_at is not None and fail_at < num - 1 and t.ret in (NONE, None):
                        bad = 'the error of group %d is not returned' % (fail_at + 2)
                    if fail_at is None and t.ret != NONE:
                        bad = 'returns %s although every group succeeded' % t.ret
                if bad:
                    ctx.ob(P, 'RF2-para-fanout', f, site, None)
                    ctx.find(P, 'RF2-para-fanout', f, 'fanout:%d:%s' % (num, fail_at), m.loc(f, m.funcs[f].line), '%s: %s' % (site, bad))
                else:
                    ctx.ob(P, 'RF2-para-fanout', f, site, 'ok')
        # a gap in the optional sub-indices (CODictFind returns 0 for one of them) is skipped: the groups behind it are
        # still processed
        for gap in (0, 1, 2):
            num = 5
            inputs = {'obj->Key': (idx << 16) | 0x100, 'obj->Data': 1, '*buffer': sig, 'out:CODictRdByte:2': num,
                      'call:CODictFind': 1, 'call:CODictFind#%d' % gap: 0, 'call:' + action: NONE}
            trs = _run(m, f, inputs)
            site = '%04Xh:01 with %d groups, sub-index %d missing' % (idx, num, gap + 2)
            bad = None
            for t in trs:
                acts = [c for c in t.calls() if c[1] == action]
                finds = [c[2][1] for c in t.calls() if c[1] == 'CODictFind']
                if len(finds) != num - 1:
                    bad = 'looks up %d sub-indices, required all %d behind sub-index 1' % (len(finds), num - 1)
                elif len(acts) != num - 2:
                    bad = '%d groups processed, required %d (every present group)' % (len(acts), num - 2)
                elif t.ret != NONE:
                    bad = 'returns %s' % t.ret
            if not trs:
                bad = 'no path'
            if bad:
                ctx.ob(P, 'RF2-para-fanout', f, site, None)
                ctx.find(P, 'RF2-para-fanout', f, 'gap:%d' % gap, m.loc(f, m.funcs[f].line), '%s: %s' % (site, bad))
            else:
                ctx.ob(P, 'RF2-para-fanout', f, site, 'gap skipped, later groups processed')
        # single group: exactly the addressed group (its own Data)
        trs = _run(m, f, {'obj->Key': (idx << 16) | 0x300, 'obj->Data': 0x7777, '*buffer': sig, 'out:CODictRdByte:2': 4,
                          'call:' + action: NONE, 'call:CODictFind': 1})
        bad = None
        for t in trs:
            acts = [c for c in t.calls() if c[1] == action]
            if len(acts) != 1 or acts[0][2][0] != 0x7777:
                bad = 'group 3 addressed: %s called with %s' % (action, [c[2][0] for c in acts])
        site = '%04Xh:03 single group' % idx
        if bad:
            ctx.ob(P, 'RF2-para-fanout', f, site, None)
            ctx.find(P, 'RF2-para-fanout', f, 'single', m.loc(f, m.funcs[f].line), bad)
        else:
            ctx.ob(P, 'RF2-para-fanout', f, site, 'exactly the addressed group')


def enable_and_driver_result(ctx):
    m = ctx.m
    NONE = m.enum('CO_ERR_NONE')
    # COParaStore
    f = 'COParaStore'
    for val in (0, 1, 2, 3):
        en = val & 1
        for wrote in (16, 15, 0):
            trs = _run(m, f, {'pg->Value': val, 'pg->Size': 16, 'pg->Offset': 0x40, 'pg->Start': 0x999,
                              'call:COIfNvmWrite': wrote})
            site = 'COParaStore group flags=%d (on-command=%d) driver wrote %d of 16' % (val, en, wrote)
            bad = None
            for t in trs:
                drv = [c for c in t.calls() if c[1] == 'COIfNvmWrite']
                if en and (len(drv) != 1 or drv[0][2][1:] != [0x40, 0x999, 16]):
                    bad = 'driver write call %s, required one call (offset, start, size) of the group' % [c[2][1:] for c in drv]
                if not en and drv:
                    bad = 'group not enabled for store-on-command but written'
                if en and wrote != 16 and t.ret in (NONE, None):
                    bad = 'short write (%d of 16) is not reported' % wrote
                if (not en or wrote == 16) and t.ret != NONE:
                    bad = 'returns %s' % t.ret
            if bad:
                ctx.ob(P, 'RF8-para-nvm', f, site, None)
                ctx.find(P, 'RF8-para-nvm', f, 'store:%d:%d' % (val, wrote), m.loc(f, m.funcs[f].line), '%s: %s' % (site, bad))
            else:
                ctx.ob(P, 'RF8-para-nvm', f, site, 'ok')
    f = 'COParaRestore'
    for val in (0, 1, 2, 3):
        en = val & 1
        for err in (0, 1):
            trs = _run(m, f, {'pg->Value': val, 'call:COParaDefault': err})
            site = 'COParaRestore group flags=%d (on-command=%d) callback result %d' % (val, en, err)
            bad = None
            for t in trs:
                cb = [c for c in t.calls() if c[1] == 'COParaDefault']
                if len(cb) != en:
                    bad = 'default callback called %d times' % len(cb)
                if en and err and t.ret in (NONE, None):
                    bad = 'callback failure is not reported'
                if not (en and err) and t.ret != NONE:
                    bad = 'returns %s' % t.ret
            if bad:
                ctx.ob(P, 'RF8-para-nvm', f, site, None)
                ctx.find(P, 'RF8-para-nvm', f, 'restore:%d:%d' % (val, err), m.loc(f, m.funcs[f].line), '%s: %s' % (site, bad))
            else:
                ctx.ob(P, 'RF8-para-nvm', f, site, 'ok')
    # CONodeParaLoad: groups of the requested type only; short read surfaces
    f = 'CONodeParaLoad'
    m.need(f)
    for rtype in ('CO_RESET_NODE', 'CO_RESET_COM'):
        for gtype in ('CO_RESET_NODE', 'CO_RESET_COM'):
            for got in (8, 7):
                trs = _run(m, f, {'type': m.enum(rtype), 'call:CODictRdByte': NONE, 'out:CODictRdByte:2': 2,
                                  'call:CODictFind': 1, 'pg->Type': m.enum(gtype), 'pg->Size': 8, 'pg->Offset': 0x20,
                                  'pg->Start': 0x555, 'call:COIfNvmRead': got})
                site = 'load %s, group type %s, driver read %d of 8' % (rtype, gtype, got)
                bad = None
                for t in trs:
                    rd = [c for c in t.calls() if c[1] == 'COIfNvmRead']
                    errs = [e[2] for e in t.stores()]
                    if rtype == gtype:
                        if len(rd) != 2 or any(c[2][1:] != [0x20, 0x555, 8] for c in rd):
                            bad = 'driver reads %s, required one read per matching group with its offset/start/size' % [c[2][1:] for c in rd]
                        if got != 8 and (t.ret in (NONE, None) or not errs):
                            bad = 'short read is not surfaced (returns %s, node error stored: %s)' % (t.ret, bool(errs))
                        if got == 8 and t.ret != NONE:
                            bad = 'returns %s' % t.ret
                    else:
                        if rd:
                            bad = 'group of the other reset type is loaded'
                if bad:
                    ctx.ob(P, 'RF8-para-nvm', f, site, None)
                    ctx.find(P, 'RF8-para-nvm', f, 'load:%s:%s:%d' % (rtype, gtype, got), m.loc(f, m.funcs[f].line), '%s: %s' % (site, bad))
                else:
                    ctx.ob(P, 'RF8-para-nvm', f, site, 'ok')


def hal_forwarding(ctx):
    """COIfNvmWrite / COIfNvmRead hand the request to the driver: every driver call must address the same byte
    of the caller's buffer and of the NVM area (start + k, buffer + k, at most size - k for one k), and the
    returned count is what the driver calls reported in total.  A wrapper that re-issues the remainder of a
    short transfer with a mismatched pointer stores the wrong bytes under a full-length count."""
    m = ctx.m
    for f, slot in (('COIfNvmWrite', 'Write'), ('COIfNvmRead', 'Read')):
        m.need(f)
        for first in (16, 6, 0):
            for second in (10, 3, 0):
                pe = PEval(m, f)
                pe.record_sets = False
                pe.store_filter = lambda k, fld: False
                drv = 'CO_IF_NVM_DRV.%s' % slot
                trs = pe.run({'cif': 1, 'start': 0x1000, 'buffer': 0x5000, 'size': 16,
                              'call:%s#0' % drv: first, 'call:%s' % drv: second})
                site = '%s: driver reports %d then %d of 16 bytes' % (f, first, second)
                bad = None
                for t in trs:
                    calls = [c for c in t.calls() if c[1] == drv]
                    if not calls:
                        bad = 'no driver call (calls: %s)' % t.call_names()
                        break
                    total = 0
                    for i, c in enumerate(calls):
                        a = c[2]
                        if None in a[:3]:
                            bad = 'driver call %d with unresolvable arguments %s' % (i, a)
                            break
                        k = a[0] - 0x1000
                        if a[1] - 0x5000 != k or a[2] > 16 - k or k < 0 or k != total:
                            bad = 'driver call %d addresses NVM offset +%d with buffer offset +%d and %d bytes after %d bytes ' \
                                  'were transferred (request: 16 bytes)' % (i, k, a[1] - 0x5000, a[2], total)
                            break
                        total += first if i == 0 else second
                    if bad is None and t.ret != total:
                        bad = 'returns %s, the driver calls transferred %d' % (t.ret, total)
                if bad:
                    ctx.ob(P, 'RF8-hal-forward', f, site, None)
                    ctx.find(P, 'RF8-hal-forward', f, 'forward:%d:%d' % (first, second), m.loc(f, m.funcs[f].line), '%s: %s' % (site, bad))
                else:
                    ctx.ob(P, 'RF8-hal-forward', f, site, 'arguments forwarded consistently, count returned')


def load_points(ctx):
    """initialisation loads both types; each NMT reset loads the groups of its type and reports failure"""
    m = ctx.m
    NONE = m.enum('CO_ERR_NONE')
    NODE, COM = m.enum('CO_RESET_NODE'), m.enum('CO_RESET_COM')
    f = 'COTParaStoreInit'
    m.need(f, 'COTParaStoreReset', 'CONmtReset')
    for fail in (None, 0, 1):
        inputs = {'obj->Key': 0x10100000, 'call:CONodeParaLoad': NONE}
        if fail is not None:
            inputs['call:CONodeParaLoad#%d' % fail] = 0x170
        trs = _run(m, f, inputs)
        site = 'COTParaStoreInit, load failure at call %s' % fail
        bad = None
        for t in trs:
            loads = [c[2][1] for c in t.calls() if c[1] == 'CONodeParaLoad']
            want = [NODE, COM] if fail != 0 else [NODE]
            if loads != want and sorted(loads) != sorted(want):
                bad = 'loads reset types %s, required %s' % (loads, want)
            if fail is not None and t.ret in (NONE, None):
                bad = 'NVM load failure at initialisation is not returned'
        if bad:
            ctx.ob(P, 'RF8-para-load', f, site, None)
            ctx.find(P, 'RF8-para-load', f, 'init:%s' % fail, m.loc(f, m.funcs[f].line), '%s: %s' % (site, bad))
        else:
            ctx.ob(P, 'RF8-para-load', f, site, 'ok')
    # the error of the type initialiser reaches node->Error
    trs = _run(m, 'CODictObjInit', {'call:COObjInit': 0x170, 'cod->Num': 3}) if 'CODictObjInit' in m.funcs else []
    f = 'COTParaStoreReset'
    for para in (NODE, COM):
        trs = _run(m, f, {'obj->Key': 0x10100000, 'para': para, 'call:CONodeParaLoad': 0x170})
        bad = None
        for t in trs:
            loads = [c[2][1] for c in t.calls() if c[1] == 'CONodeParaLoad']
            if loads != [para] or t.ret != 0x170:
                bad = 'loads %s returns %s' % (loads, t.ret)
        site = 'COTParaStoreReset(%d)' % para
        if bad:
            ctx.ob(P, 'RF8-para-load', f, site, None)
            ctx.find(P, 'RF8-para-load', f, 'reset:%d' % para, m.loc(f, m.funcs[f].line), '%s: %s' % (site, bad))
        else:
            ctx.ob(P, 'RF8-para-load', f, site, 'loads that type, result returned')
    f = 'CONmtReset'
    for (rt, want) in ((NODE, [NODE, COM]), (COM, [COM])):
        for err in (NONE, 0x170):
            pe = PEval(m, f)
            pe.record_sets = False
            pe.store_filter = lambda k, fld: fld is not None and fld[1] == 'Error'
            trs = pe.run({'nmt': 1, 'type': rt, 'call:CODictFind': 1, 'call:COObjReset': err, 'call:COLssLoad': NONE})
            site = 'CONmtReset(%d) store-object reset result %d' % (rt, err)
            bad = None
            for t in trs:
                rs = [c[2][2] for c in t.calls() if c[1] == 'COObjReset']
                if rs != want:
                    bad = 'parameter reload requested for types %s, required %s' % (rs, want)
                if err != NONE and 0x170 not in [e[2] for e in t.stores()]:
                    bad = 'reload failure is not stored in the node error'
            if bad:
                ctx.ob(P, 'RF8-para-load', f, site, None)
                ctx.find(P + ['C20'], 'RF8-para-load', f, 'nmtreset:%d:%d' % (rt, err), m.loc(f, m.funcs[f].line), '%s: %s' % (site, bad))
            else:
                ctx.ob(P, 'RF8-para-load', f, site, 'ok')
    # NVM results are never discarded on the store / load path
    for (caller, call) in m.call_sites('COIfNvmWrite') + m.call_sites('COIfNvmRead'):
        g = m.cfg(caller)
        nid = m.node_of(caller, call)
        node = g.nodes[nid]
        x = node.x
        used = (x.k == 'var') or (x.k == 'bin' and x.op == '=') or node.kind in ('br', 'ret')
        site = '%s: %s' % (m.loc(caller, call), show(call))
        if used:
            ctx.ob(P, 'RF8-para-nvm', caller, site, 'byte count kept and compared')
        else:
            ctx.ob(P, 'RF8-para-nvm', caller, site, None)
            ctx.find(P, 'RF8-para-nvm', caller, 'dropped-result', m.loc(caller, call),
                     'the byte count returned by the NVM driver is discarded')


def run(ctx):
    hal_forwarding(ctx)
    signature_and_fanout(ctx)
    enable_and_driver_result(ctx)
    load_points(ctx)
