/* Positive controls for the checker itself (never compiled into the library, never executed).
 * Each function is a copy of a library function with ONE known defect; the rule named in the comment must report it
 * on every run - a rule that stays silent here has lost its teeth and the run ends as ANALYSIS-BROKEN. */
#include "co_core.h"

/* RF16-expiry: insertion in front of the head subtracts the new interval from the STORED delta of the old head
 * instead of from the time the hardware timer still has to run */
CO_TMR_TIME *CTL_TmrInsert(CO_TMR *tmr, uint32_t dTnew, CO_TMR_ACTION *action)
{
    uint32_t     dTx;
    CO_TMR_TIME *tx;
    CO_TMR_TIME *tn = 0;
    CO_IF       *cif;

    cif = &tmr->Node->If;
    tx  = tmr->Use;
    if (tx == 0) {
        tn = tmr->Free;
        if (tn == 0) {
            return (tn);
        }
        tmr->Free     = tn->Next;
        tn->Delta     = dTnew;
        tn->Action    = action;
        tn->ActionEnd = action;
        tn->Next      = 0;
        tmr->Use      = tn;
        COIfTimerReload(cif, tn->Delta);
        COIfTimerStart(cif);
    } else {
        dTx = COIfTimerDelay(cif);
        while ((dTnew > dTx) && (tn == 0)) {
            if (tx->Next == 0) {
                tn = tmr->Free;
                if (tn == 0) {
                    return (tn);
                }
                tmr->Free     = tn->Next;
                tn->Delta     = dTnew - dTx;
                tn->Action    = action;
                tn->ActionEnd = action;
                tn->Next      = 0;
                tx->Next      = tn;
            } else {
                dTx += tx->Next->Delta;
                if (dTnew < dTx) {
                    tn = tmr->Free;
                    if (tn == 0) {
                        return (tn);
                    }
                    tmr->Free       = tn->Next;
                    tn->Next        = tx->Next;
                    tx->Next        = tn;
                    tn->Delta       = dTnew - (dTx - tn->Next->Delta);
                    tn->Action      = action;
                    tn->ActionEnd   = action;
                    tn->Next->Delta = dTx - dTnew;
                } else {
                    tx = tx->Next;
                }
            }
        }
        if (tn == 0) {
            if (dTnew == dTx) {
                tx->ActionEnd->Next = action;
                tx->ActionEnd       = action;
                tn                  = tx;
            } else if (dTnew < dTx) {
                tn = tmr->Free;
                if (tn == 0) {
                    return (tn);
                }
                tmr->Free     = tn->Next;
                tn->Delta     = dTnew;
                tn->Action    = action;
                tn->ActionEnd = action;
                tn->Next      = tx;
                tmr->Use      = tn;
                tx->Delta    -= tn->Delta;            /* DEFECT: stale stored delta */
                COIfTimerReload(cif, tn->Delta);
            }
        }
    }
    return tn;
}

/* RF16-expiry: interior removal forgets to hand the removed event's delta to its successor */
void CTL_TmrRemove(CO_TMR *tmr, CO_TMR_TIME *tx)
{
    CO_TMR_TIME *tn;
    CO_IF       *cif;

    cif = &tmr->Node->If;
    if (tx != 0) {
        if (tmr->Use == tx) {
            if (tx->Next == 0) {
                COIfTimerStop(cif);
                tmr->Use = tx->Next;
            } else {
                tx->Next->Delta += COIfTimerDelay(cif);
                tmr->Use = tx->Next;
                COIfTimerReload(cif, tmr->Use->Delta);
            }
            tx->Next  = tmr->Free;
            tmr->Free = tx;
        } else {
            tn = tmr->Use;
            while ((tn != 0) && (tx != 0)) {
                if (tn->Next == tx) {
                    tn->Next = tx->Next;                /* DEFECT: no `tn->Next->Delta += tx->Delta` */
                    tx->Next   = tmr->Free;
                    tmr->Free  = tx;
                    tx         = 0;
                }
                tn = tn->Next;
            }
        }
    }
}

/* RF17-position: the offset advances by the requested size although the copy is clipped to the remaining bytes */
CO_ERR CTL_DomainRead(struct CO_OBJ_T *obj, struct CO_NODE_T *node, void *buffer, uint32_t size)
{
    CO_OBJ_DOM *dom;
    uint8_t    *src;
    uint8_t    *dst;
    uint32_t    num;
    uint32_t    len;

    (void)node;
    dom = (CO_OBJ_DOM *)(obj->Data);
    src = (uint8_t *)(dom->Start + dom->Offset);
    dst = (uint8_t *)buffer;
    num = dom->Size - dom->Offset;
    if (num >= size) {
        len = size;
    } else {
        len = num;
    }
    while (len > 0) {
        *dst = *src;
        src++;
        dst++;
        len--;
    }
    dom->Offset += size;                                /* DEFECT */
    return (CO_ERR_NONE);
}

/* RF17-lockstep: the source cursor moves two bytes per copied byte */
void CTL_CopyStep2(uint8_t *dst, uint8_t *src, uint32_t len)
{
    while (len > 0) {
        *dst = *src;
        src += 2;                                       /* DEFECT */
        dst++;
        len--;
    }
}

/* RF7-sign: a stored 16-bit code declared signed is widened into an unsigned 32-bit value: codes >= 8000h sign-extend */
struct CTL_SIGNED_CODE { int16_t Code; };
uint32_t CTL_SignExtend(struct CTL_SIGNED_CODE *tbl, uint8_t err)
{
    uint32_t val;

    val = (uint32_t)tbl[err].Code;                      /* DEFECT: FFFF8130h for code 8130h */
    return (val);
}
