#!/usr/bin/env python3
"""Entry point: decide one property of /verif/properties.jsonl for /repo's current
working tree by static analysis.

  check.py Cxx [--tier quick|thorough]     exit 0 held / 1 violation / 2 analysis broken
  check.py --replay <violation.json>       re-run the rule instance of a recorded violation
  check.py --all [--tier ..]               every claimed property in one process (development aid)
"""
import sys, os, json, time, argparse, traceback

HERE = os.path.dirname(os.path.abspath(__file__))
sys.path.insert(0, HERE)
sys.setrecursionlimit(20000)

from canalyze import front, model as modelmod, report, canon    # noqa: E402
from canalyze.front import AnalysisBroken                        # noqa: E402
from tables import api                                           # noqa: E402
import rules                                                     # noqa: E402
from rules import registry                                       # noqa: E402

EVID = os.environ.get('VERIF_EVIDENCE_DIR') or os.path.join(HERE, 'evidence')
VIOL = os.path.join(EVID, 'violations')
KNOWN = os.path.join(HERE, 'known_findings.json')


def load_known():
    try:
        d = json.load(open(KNOWN))
    except (OSError, ValueError) as e:
        raise AnalysisBroken('known_findings.json unreadable: %s' % e)
    return d


def build_model(defs=()):
    m = modelmod.Model(defs=defs)
    m.config = tuple(defs)
    m.has_lss = 'USE_LSS=0' not in m.config
    m.has_csdo = 'USE_CSDO=0' not in m.config
    canon.infer_param_aliases(m, api.is_internal)
    return m


def run_property(pid, tier, m=None, configs=None, quiet=False, shared_ctx=None):
    t0 = time.time()
    seed = int(os.environ.get('VERIF_SEED', '0') or 0)
    spec = registry.PROPERTIES.get(pid)
    if spec is None:
        print('property %s is not claimed (see MANIFEST.json not_applicable)' % pid)
        return 2
    os.makedirs(VIOL, exist_ok=True)
    known = load_known()
    deps = registry.DEPENDS.get(pid, [])
    cfgs = [()]
    if tier == 'thorough':
        cfgs.append(('CO_SSDO_N=2', 'CO_CSDO_N=2'))
        if os.environ.get('VERIF_BIGCFG', '1') != '0':
            cfgs.append(('CO_SSDO_N=3', 'CO_CSDO_N=3', 'CO_EMCY_N=40', 'CO_RPDO_N=5', 'CO_TPDO_N=6'))
            cfgs.append(('CO_SSDO_N=1', 'CO_CSDO_N=2', 'CO_EMCY_N=9', 'CO_RPDO_N=2', 'CO_TPDO_N=3'))
            # optional services compiled out (the reset sequence, the frame cascade and the node initialisation contain
            # `#if USE_LSS` / `#if USE_CSDO` sections: what is inside them must not be needed by the other services)
            if pid != 'C18':
                cfgs.append(('USE_LSS=0',))
            if pid != 'C19':
                cfgs.append(('USE_CSDO=0',))
    all_findings = []
    broken = []
    obligations = []
    instances = {}
    tables = {}
    exceptions = []
    controls = []
    nfuncs = 0
    nunits = 0
    cfg_names = []
    for defs in cfgs:
        try:
            mm = m if (m is not None and not defs) else build_model(defs)
            # --all: one context for the default configuration, so a rule family shared by several properties runs once
            ctx = shared_ctx if (shared_ctx is not None and not defs) else report.Ctx(mm)
            nfuncs = max(nfuncs, len(mm.funcs))
            nunits = max(nunits, len(mm.tus))
            for rule in spec['rules']:
                registry.run_rule(rule, ctx, tier)
            for dep in deps:
                for rule in registry.PROPERTIES[dep]['rules']:
                    registry.run_rule(rule, ctx, tier)
            cfg_names.append(' '.join(defs) or 'default')
        except AnalysisBroken as e:
            broken.append('[%s] %s' % (' '.join(defs) or 'default', e))
            continue
        for (props, msg) in ctx.broken:
            if pid in props or not props:
                broken.append('[%s] %s' % (' '.join(defs) or 'default', msg))
        for f in ctx.findings:
            via = [d for d in deps if d in f.props]
            # (the attribute is per property: with --all one finding object is seen by several properties)
            f.via = via[0] if (pid not in f.props and via and not f.note) else None
            if pid in f.props or (via and not f.note) or (f.note and not f.props and f.rule in spec.get('note_rules', ())):
                if not any(g.ident() == f.ident() and g.note == f.note for g in all_findings):
                    all_findings.append(f)
        for o in ctx.obligations.get(pid, []):
            obligations.append(o)
        for k, v in ctx.instances.items():
            instances[k] = max(instances.get(k, 0), v)
        tables.update(ctx.tables.get(pid, {}))
        for e in ctx.exceptions:
            if e not in exceptions:
                exceptions.append(e)
        for c_ in ctx.controls:
            if isinstance(c_, dict) and c_ not in controls:
                controls.append(c_)
    # ---- compare with known findings
    open_known = [k for k in known.get('findings', []) if k.get('property') == pid]
    dep_known = [k for k in known.get('findings', []) if k.get('property') in deps]
    matched = []
    violations = []
    notes = []
    for f in all_findings:
        if f.note:
            notes.append(f)
            continue
        hit = None
        for k in open_known + ([kk for kk in dep_known if kk.get('property') == getattr(f, 'via', None)]):
            if k['rule'] == f.rule and k['function'] == f.func and k['key'] == f.key:
                hit = k
        if hit is not None:
            matched.append((hit, f))
        else:
            violations.append(f)
    out = []
    for (k, f) in matched:
        out.append('KNOWN-FINDING: property=%s %s%s %s %s at %s: %s' % (
            pid, ('(via %s) ' % f.via) if getattr(f, 'via', None) else '', f.rule, f.func, f.key, f.loc, k.get('what', f.msg)))
    for k in open_known:
        if not any(k is mk for (mk, f) in matched):
            out.append('NOTE known finding not reproduced on this tree (repaired or rule changed): %s %s %s'
                       % (k['rule'], k['function'], k['key']))
    for f in notes:
        out.append('NOTE %s %s %s at %s: %s' % (f.rule, f.func, f.key, f.loc, f.msg))
    vpaths = []
    for i, f in enumerate(violations):
        path = os.path.join(VIOL, '%s-%s-%s-%d.json' % (pid, f.rule, f.func, i))
        rec = f.to_json()
        rec['property'] = pid
        rec['tier'] = tier
        rec['replay'] = 'python3 check.py --replay %s' % path
        with open(path, 'w') as fh:
            json.dump(rec, fh, indent=1)
        vpaths.append(path)
        out.append('VIOLATION property=%s replay=%s' % (pid, path))
        out.append('  %s [%s] %s at %s: %s%s' % (f.rule, f.func, f.key, f.loc,
                                                 ('(via %s: this property rests on it) ' % f.via) if getattr(f, 'via', None) else '', f.msg))
    for b in broken:
        out.append('ANALYSIS-BROKEN property=%s %s' % (pid, b))
    # ---- evidence
    n_ob = len(obligations)
    n_dis = sum(1 for o in obligations if o[3] is not None)
    distinct = set((o[0], o[1], o[2]) for o in obligations if o[4])
    samples = []
    seenr = {}
    for o in obligations:
        if seenr.get(o[0], 0) < 3:
            seenr[o[0]] = seenr.get(o[0], 0) + 1
            samples.append({'rule': o[0], 'function': o[1], 'site': o[2],
                            'discharged_by': o[3] if o[3] is not None else 'VIOLATED'})
    digest, nfiles = front.source_digest()
    ev = {
        'property_id': pid,
        'tier': tier,
        'seed': seed,
        'level': 'other',
        'coverage': {
            'explanation': spec['explanation'] + ((' This property rests on %s: the rules of those properties are run as well and their findings are reported here as "via".' % ', '.join(deps)) if deps else ''),
            'evaluations': max(n_ob, 1),
            'distinct_nontrivial': len(distinct),
            'rule': 'one evaluation = one static obligation (rule instance at a site) examined on /repo\'s current '
                    'source; non-trivial = needed a path, dataflow, interval or table argument rather than a literal; '
                    'distinct by (rule, function, site)',
            'samples': samples[:40],
            'obligations': n_ob,
            'discharged': n_dis,
            'exhaustive': bool(spec.get('exhaustive', False)),
            'rules_applied': spec['rules'],
            'rule_instances': dict((k, v) for k, v in sorted(instances.items())),
            'extracted_tables': tables,
            'exceptions_applied': [{'rule': r, 'symbol': s, 'reason': why} for (r, s, why) in exceptions],
            'positive_controls': controls,
            'known_findings_matched': [{'rule': f.rule, 'function': f.func, 'key': f.key, 'loc': f.loc}
                                       for (k, f) in matched],
            'notes': [f.to_json() for f in notes],
            'violations': [f.to_json() for f in violations],
            'analysis_broken': broken,
            'units_analysed': nunits,
            'functions_analysed': nfuncs,
            'configurations': cfg_names,
            'source_sha256': digest,
            'source_files_hashed': nfiles,
            'not_decided': spec.get('not_decided', ''),
        },
        'assumptions': [
            'clang 14 front end and its JSON AST dump are correct',
            'x86-64 integer model (int 32 bit) is used for conversions',
            'weak application callbacks and driver functions do not modify stack state',
            'internal (non-API) functions are entered only through their in-tree call sites',
        ] + spec.get('assumptions', []),
        'wall_s': round(time.time() - t0, 2),
        'violations': len(violations),
    }
    os.makedirs(EVID, exist_ok=True)
    with open(os.path.join(EVID, '%s.json' % pid), 'w') as fh:
        json.dump(ev, fh, indent=1, sort_keys=True)
    if not quiet:
        for line in out:
            print(line)
        print('%s tier=%s obligations=%d discharged=%d known=%d violations=%d broken=%d wall=%.1fs'
              % (pid, tier, n_ob, n_dis, len(matched), len(violations), len(broken), time.time() - t0))
    if broken:
        return 2
    if violations:
        return 1
    return 0


def replay(path):
    rec = json.load(open(path))
    pid = rec['property']
    print('replaying %s: %s %s %s' % (pid, rec['rule'], rec['function'], rec['key']))
    m = build_model()
    ctx = report.Ctx(m)
    spec = registry.PROPERTIES[pid]
    for rule in spec['rules']:
        registry.run_rule(rule, ctx, rec.get('tier', 'quick'))
    hit = [f for f in ctx.findings if f.rule == rec['rule'] and f.func == rec['function'] and f.key == rec['key']]
    if hit:
        for f in hit:
            print('REPRODUCED at %s: %s' % (f.loc, f.msg))
            for w in f.witness:
                print('   witness: %s' % (w,))
        print('VIOLATION property=%s replay=%s' % (pid, path))
        return 1
    print('not reproduced on the current tree')
    return 0


def _on_timeout(signum, frame):
    print('ANALYSIS-BROKEN: wall-clock budget exceeded (VERIF_TIMEOUT=%s s) - the analysis did not terminate in time' %
          os.environ.get('VERIF_TIMEOUT', '900'))
    sys.stdout.flush()
    os._exit(2)


def main():
    import signal
    signal.signal(signal.SIGALRM, _on_timeout)
    signal.alarm(int(os.environ.get('VERIF_TIMEOUT', '900')))
    ap = argparse.ArgumentParser()
    ap.add_argument('prop', nargs='?')
    ap.add_argument('--tier', default=os.environ.get('VERIF_TIER', 'quick'))
    ap.add_argument('--replay')
    ap.add_argument('--all', action='store_true')
    a = ap.parse_args()
    try:
        if a.replay:
            return replay(a.replay)
        if a.all:
            m = build_model()
            rc = 0
            shared = report.Ctx(m)
            for pid in sorted(registry.PROPERTIES):
                r = run_property(pid, a.tier, m=m, shared_ctx=shared)
                rc = max(rc, r)
            return rc
        if not a.prop:
            ap.error('property id required')
        return run_property(a.prop, a.tier)
    except AnalysisBroken as e:
        print('ANALYSIS-BROKEN %s' % e)
        return 2
    except Exception:
        traceback.print_exc()
        print('ANALYSIS-BROKEN internal error')
        return 2


if __name__ == '__main__':
    sys.exit(main())
